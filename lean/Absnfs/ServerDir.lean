/-
  ServerDir: the READDIR entry loop (`fillDir`): what a page contains, that it fits, and that following the
  cookies lists the whole directory exactly once.
-/
import Absnfs.Server
namespace Absnfs
namespace Server

def entsSize : List Rfc.DirEnt → Nat
  | [] => 0
  | e :: es => entrySize e.name + entsSize es

/-- the entries of `l` numbered from `i`: cookie of the k-th is i+k+1 -/
def numbered (i : Nat) : List Node → List Rfc.DirEnt
  | [] => []
  | e :: es => { fileid := e.attrs.fileId, name := baseName e.path, cookie := i + 1 } :: numbered (i + 1) es

theorem numbered_length (i : Nat) (l : List Node) : (numbered i l).length = l.length := by
  induction l generalizing i with
  | nil => rfl
  | cons e es ih => simp [numbered, ih]

theorem numbered_take (i k : Nat) (l : List Node) : (numbered i l).take k = numbered i (l.take k) := by
  induction l generalizing i k with
  | nil => simp [numbered]
  | cons e es ih =>
    cases k with
    | zero => simp [numbered]
    | succ k => simp [numbered, ih]

theorem numbered_append (i : Nat) (a b : List Node) : numbered i (a ++ b) = numbered i a ++ numbered (i + a.length) b := by
  induction a generalizing i with
  | nil => simp [numbered]
  | cons e es ih =>
    simp only [List.cons_append, numbered, List.length_cons, ih]
    rw [show i + 1 + es.length = i + (es.length + 1) by omega]

/-- skipping phase: entries before the cookie are passed over -/
theorem fillDir_skip (limit cookie i used cnt : Nat) (l : List Node) (h : i + l.length ≤ cookie) :
    fillDir limit cookie i used cnt l = .done [] false := by
  induction l generalizing i with
  | nil => rfl
  | cons e es ih =>
    unfold fillDir
    simp only [List.length_cons] at h
    have : i < cookie := by omega
    simp only [this, if_true]
    exact ih (i + 1) (by omega)

theorem fillDir_skip_to (limit cookie i used cnt : Nat) (l : List Node) (h : i ≤ cookie) :
    fillDir limit cookie i used cnt l = fillDir limit cookie cookie used cnt (l.drop (cookie - i)) := by
  induction l generalizing i with
  | nil => simp [fillDir]
  | cons e es ih =>
    by_cases hi : i < cookie
    · have hd : cookie - i = (cookie - (i + 1)) + 1 := by omega
      rw [hd, List.drop_succ_cons]
      conv => lhs; unfold fillDir
      simp only [hi, if_true]
      exact ih (i + 1) (by omega)
    · have : i = cookie := by omega
      subst this
      simp

/-- what the fill phase returns -/
def PageSpec (limit i used cnt : Nat) (l : List Node) : Fill Rfc.DirEnt → Prop
  | .tooSmall => cnt = 0 ∧ ∃ e es, l = e :: es ∧ used + entrySize (baseName e.path) + dirListTrailer > limit
  | .done ents lim =>
    ∃ k, k ≤ l.length ∧ ents = numbered i (l.take k) ∧ used + entsSize ents + dirListTrailer ≤ limit ∧
      (lim = false → k = l.length) ∧
      (lim = true → cnt + k > 0 ∧ ∃ hk : k < l.length,
        used + entsSize ents + entrySize (baseName (l[k]'hk).path) + dirListTrailer > limit)

theorem fillDir_fill (limit cookie i used cnt : Nat) (l : List Node) (hi : cookie ≤ i)
    (h0 : used + dirListTrailer ≤ limit) :
    PageSpec limit i used cnt l (fillDir limit cookie i used cnt l) := by
  induction l generalizing i used cnt with
  | nil =>
    unfold fillDir
    exact ⟨0, by simp, by simp [numbered], by simpa [entsSize] using h0, fun _ => rfl, fun h => by simp at h⟩
  | cons e es ih =>
    unfold fillDir
    have hni : ¬ i < cookie := by omega
    simp only [hni, if_false]
    by_cases hbig : used + entrySize (baseName e.path) + dirListTrailer > limit
    · simp only [hbig, if_true]
      by_cases hc : cnt = 0
      · subst hc; simp only [if_true]; exact ⟨rfl, e, es, rfl, hbig⟩
      · simp only [hc, if_false]
        refine ⟨0, by simp, by simp [numbered], by simpa [entsSize] using h0, fun h => by simp at h, fun _ => ⟨by omega, by simp, ?_⟩⟩
        simpa [entsSize] using hbig
    · simp only [hbig, if_false]
      have hrec := ih (i + 1) (used + entrySize (baseName e.path)) (cnt + 1) (by omega) (by omega)
      generalize fillDir limit cookie (i + 1) (used + entrySize (baseName e.path)) (cnt + 1) es = res at hrec
      cases res with
      | tooSmall => exact absurd hrec.1 (by omega)
      | done ents lim =>
        obtain ⟨k, hk, hents, hfit, hall, hsome⟩ := hrec
        simp only
        refine ⟨k + 1, by simp; omega, by simp [numbered, hents], ?_, ?_, ?_⟩
        · simp only [entsSize]; omega
        · intro hl; simp [hall hl]
        · intro hl
          obtain ⟨_, hk', hnext⟩ := hsome hl
          refine ⟨by omega, by simp; omega, ?_⟩
          simp only [entsSize, List.getElem_cons_succ]
          omega

/-- A READDIR page from `cookie` over the directory's entries `nodes`. -/
def page (limit cookie : Nat) (nodes : List Node) : Fill Rfc.DirEnt := fillDir limit cookie 0 dirListHeader 0 nodes

/-- C26: what a page is — the entries after the cookie, in order, with cookies continuing the numbering, and
    within the limit together with the list trailer; either all of them (eof), or a non-empty proper prefix
    such that the next entry would not fit; or TOOSMALL exactly when the first remaining entry alone does
    not fit. -/
theorem page_spec (limit cookie : Nat) (nodes : List Node) (hc : cookie ≤ nodes.length)
    (hl : dirListHeader + dirListTrailer ≤ limit) :
    PageSpec limit cookie dirListHeader 0 (nodes.drop cookie) (page limit cookie nodes) := by
  unfold page
  rw [fillDir_skip_to limit cookie 0 dirListHeader 0 nodes (by omega)]
  simpa using fillDir_fill limit cookie cookie dirListHeader 0 (nodes.drop cookie) (Nat.le_refl _) hl

theorem page_past_end (limit cookie : Nat) (nodes : List Node) (hc : nodes.length ≤ cookie) :
    page limit cookie nodes = .done [] false :=
  fillDir_skip limit cookie 0 dirListHeader 0 nodes (by omega)

/-- every entry of the directory fits into an otherwise empty page -/
def AllFit (limit : Nat) (nodes : List Node) : Prop :=
  ∀ e ∈ nodes, dirListHeader + entrySize (baseName e.path) + dirListTrailer ≤ limit

/-- follow the cookies: concatenate pages until eof -/
def walkPages (limit : Nat) (nodes : List Node) : Nat → Nat → Option (List Rfc.DirEnt)
  | 0, _ => none
  | fuel + 1, cookie =>
    match page limit cookie nodes with
    | .tooSmall => none
    | .done ents false => some ents
    | .done ents true =>
      match ents.getLast? with
      | none => none
      | some last => (walkPages limit nodes fuel last.cookie).map (ents ++ ·)

theorem numbered_getLast (i : Nat) (l : List Node) (h : l ≠ []) :
    ∃ last, (numbered i l).getLast? = some last ∧ last.cookie = i + l.length := by
  induction l generalizing i with
  | nil => exact absurd rfl h
  | cons e es ih =>
    cases es with
    | nil => exact ⟨_, rfl, by simp [numbered]⟩
    | cons e2 es2 =>
      obtain ⟨last, hl, hc⟩ := ih (i + 1) (by simp)
      refine ⟨last, ?_, by simp only [List.length_cons] at hc ⊢; omega⟩
      simp only [numbered] at hl ⊢
      rw [List.getLast?_cons_cons]
      exact hl

/-- C26: following the cookies from any position lists exactly the remaining entries, each once, in order,
    and ends with eof — provided each entry fits into a page on its own (otherwise the walk stops with
    NFS3ERR_TOOSMALL at that entry, by `page_spec`). The fuel only bounds the recursion: one more than the
    number of remaining entries always suffices, because every page that is not the last holds an entry. -/
theorem walkPages_complete (limit : Nat) (nodes : List Node) (hfit : AllFit limit nodes)
    (hl : dirListHeader + dirListTrailer ≤ limit) (fuel cookie : Nat)
    (hc : cookie ≤ nodes.length) (hfuel : nodes.length - cookie < fuel) :
    walkPages limit nodes fuel cookie = some (numbered cookie (nodes.drop cookie)) := by
  induction fuel generalizing cookie with
  | zero => omega
  | succ fuel ih =>
    unfold walkPages
    have hp := page_spec limit cookie nodes hc hl
    generalize page limit cookie nodes = res at hp
    cases res with
    | tooSmall =>
      obtain ⟨_, e, es, hdrop, hbig⟩ := hp
      have hmem : e ∈ nodes := List.mem_of_mem_drop (by rw [hdrop]; exact List.mem_cons_self ..)
      have := hfit e hmem
      omega
    | done ents lim =>
      obtain ⟨k, hk, hents, hfit', hall, hsome⟩ := hp
      cases lim with
      | false =>
        simp only
        rw [hents, hall rfl, List.take_length]
      | true =>
        simp only
        obtain ⟨hpos, hk', _⟩ := hsome rfl
        have hk0 : 0 < k := by omega
        have hlen : ((nodes.drop cookie).take k).length = k := by
          simp only [List.length_take]; omega
        have hne : (nodes.drop cookie).take k ≠ [] := by
          intro h
          rw [h] at hlen
          simp at hlen
          omega
        obtain ⟨last, hlast, hcookie⟩ := numbered_getLast cookie ((nodes.drop cookie).take k) hne
        rw [hents, hlast]
        simp only
        rw [hcookie, hlen]
        have hk'' : k < nodes.length - cookie := by simpa using hk'
        rw [ih (cookie + k) (by omega) (by omega)]
        simp only [Option.map_some, Option.some.injEq]
        have : nodes.drop cookie = (nodes.drop cookie).take k ++ nodes.drop (cookie + k) := by
          rw [← List.drop_drop, List.take_append_drop]
        conv => rhs; rw [this, numbered_append, hlen]

end Server
end Absnfs

namespace Absnfs
namespace Server

theorem encFattr_length (a : Rfc.Fattr) : (Rfc.encFattr a).length = 84 := by
  simp [Rfc.encFattr]

theorem encDirEnts_length (ents : List Rfc.DirEnt) : (Rfc.encDirEnts ents).length = entsSize ents + 4 := by
  induction ents with
  | nil => simp [Rfc.encDirEnts, entsSize]
  | cons e es ih =>
    simp only [Rfc.encDirEnts, entsSize, entrySize, List.length_append, encU32_length, encU64_length,
      encOpaque_length, ih]
    have : (e.name.length + 3) / 4 * 4 = e.name.length + pad4 e.name.length := by unfold pad4; omega
    omega

/-- C26: the size that `fillDir` accounts for is the encoded size of READDIR3resok -/
theorem readdirOk_length (a : Rfc.Fattr) (verf : Bytes) (ents : List Rfc.DirEnt) (eof : Bool) (hv : verf.length = 8) :
    (Rfc.encBody (.readdirOk (some a) verf ents eof)).length = dirListHeader + entsSize ents + dirListTrailer := by
  simp only [Rfc.encBody, Rfc.encPostOp, Rfc.encBool, List.length_append, encU32_length, encFattr_length,
    encDirEnts_length, hv, dirListHeader, dirListTrailer]
  omega

end Server
end Absnfs

namespace Absnfs
namespace Server

/-! ### READDIRPLUS: the same loop with attributes and a handle per entry -/

def plusSize : List Rfc.DirEntPlus → Nat
  | [] => 0
  | e :: es => entrySize e.name + plusExtra + plusSize es

def stripPlus (e : Rfc.DirEntPlus) : Rfc.DirEnt := { fileid := e.fileid, name := e.name, cookie := e.cookie }

theorem plusSize_eq (ents : List Rfc.DirEntPlus) : plusSize ents = entsSize (ents.map stripPlus) + plusExtra * ents.length := by
  induction ents with
  | nil => simp [plusSize, entsSize]
  | cons e es ih => simp only [plusSize, List.map_cons, entsSize, stripPlus, List.length_cons, ih]; rw [Nat.mul_add]; omega

def PageSpecPlus (limit i used cnt : Nat) (l : List Node) : Fill Rfc.DirEntPlus → Prop
  | .tooSmall => cnt = 0 ∧ ∃ e es, l = e :: es ∧ used + entrySize (baseName e.path) + plusExtra + dirListTrailer > limit
  | .done ents lim =>
    ∃ k, k ≤ l.length ∧ ents.map stripPlus = numbered i (l.take k) ∧
      (∀ e ∈ ents, e.attr.isSome ∧ e.fh.isSome) ∧
      used + plusSize ents + dirListTrailer ≤ limit ∧
      (lim = false → k = l.length) ∧
      (lim = true → cnt + k > 0 ∧ ∃ hk : k < l.length,
        used + plusSize ents + entrySize (baseName (l[k]'hk).path) + plusExtra + dirListTrailer > limit)

theorem fillDirPlus_fill (limit cookie : Nat) (s : St) (i used cnt : Nat) (l : List Node) (hi : cookie ≤ i)
    (h0 : used + dirListTrailer ≤ limit) :
    PageSpecPlus limit i used cnt l (fillDirPlus limit cookie s i used cnt l).2 := by
  induction l generalizing s i used cnt with
  | nil =>
    unfold fillDirPlus
    exact ⟨0, by simp, by simp [numbered], by simp, by simpa [plusSize] using h0, fun _ => rfl, fun h => by simp at h⟩
  | cons e es ih =>
    unfold fillDirPlus
    have hni : ¬ i < cookie := by omega
    simp only [hni, if_false]
    by_cases hbig : used + entrySize (baseName e.path) + plusExtra + dirListTrailer > limit
    · simp only [hbig, if_true]
      by_cases hc : cnt = 0
      · subst hc; simp only [if_true]; exact ⟨rfl, e, es, rfl, hbig⟩
      · simp only [hc, if_false]
        refine ⟨0, by simp, by simp [numbered], by simp, by simpa [plusSize] using h0, fun h => by simp at h,
          fun _ => ⟨by omega, by simp, ?_⟩⟩
        simpa [plusSize] using hbig
    · simp only [hbig, if_false]
      have hrec := ih (allocate s e).1 (i + 1) (used + entrySize (baseName e.path) + plusExtra) (cnt + 1) (by omega) (by omega)
      generalize fillDirPlus limit cookie (allocate s e).1 (i + 1) (used + entrySize (baseName e.path) + plusExtra) (cnt + 1) es = res at hrec
      obtain ⟨s2, fl⟩ := res
      cases fl with
      | tooSmall => exact absurd hrec.1 (by omega)
      | done ents lim =>
        obtain ⟨k, hk, hents, hsome', hfit, hall, hsome⟩ := hrec
        simp only
        refine ⟨k + 1, by simp; omega, by simp [numbered, hents, stripPlus], ?_, ?_, ?_, ?_⟩
        · intro x hx
          simp only [List.mem_cons] at hx
          rcases hx with rfl | hx
          · simp
          · exact hsome' x hx
        · simp only [plusSize]; omega
        · intro hl; simp [hall hl]
        · intro hl
          obtain ⟨_, hk', hnext⟩ := hsome hl
          refine ⟨by omega, by simp; omega, ?_⟩
          simp only [plusSize, List.getElem_cons_succ]
          omega

theorem fillDirPlus_skip_to (limit cookie : Nat) (s : St) (i used cnt : Nat) (l : List Node) (h : i ≤ cookie) :
    fillDirPlus limit cookie s i used cnt l = fillDirPlus limit cookie s cookie used cnt (l.drop (cookie - i)) := by
  induction l generalizing i with
  | nil => simp [fillDirPlus]
  | cons e es ih =>
    by_cases hi : i < cookie
    · have hd : cookie - i = (cookie - (i + 1)) + 1 := by omega
      rw [hd, List.drop_succ_cons]
      conv => lhs; unfold fillDirPlus
      simp only [hi, if_true]
      exact ih (i + 1) (by omega)
    · have : i = cookie := by omega
      subst this
      simp

/-- C26 for READDIRPLUS: a page is a prefix of the entries after the cookie, each with attributes and a handle,
    within maxcount together with the trailer; eof exactly when nothing remains; TOOSMALL exactly when the
    first remaining entry does not fit. -/
theorem pagePlus_spec (limit cookie : Nat) (s : St) (nodes : List Node) (hc : cookie ≤ nodes.length)
    (hl : dirListHeader + dirListTrailer ≤ limit) :
    PageSpecPlus limit cookie dirListHeader 0 (nodes.drop cookie) (fillDirPlus limit cookie s 0 dirListHeader 0 nodes).2 := by
  rw [fillDirPlus_skip_to limit cookie s 0 dirListHeader 0 nodes (by omega)]
  simpa using fillDirPlus_fill limit cookie s cookie dirListHeader 0 (nodes.drop cookie) (Nat.le_refl _) hl

theorem encDirEntsPlus_length (ents : List Rfc.DirEntPlus) (h : ∀ e ∈ ents, e.attr.isSome ∧ e.fh.isSome) :
    (Rfc.encDirEntsPlus ents).length = plusSize ents + 4 := by
  induction ents with
  | nil => simp [Rfc.encDirEntsPlus, plusSize]
  | cons e es ih =>
    have he := h e (List.mem_cons_self ..)
    have ih' := ih (fun x hx => h x (List.mem_cons_of_mem _ hx))
    obtain ⟨a, ha⟩ := Option.isSome_iff_exists.mp he.1
    obtain ⟨f, hf⟩ := Option.isSome_iff_exists.mp he.2
    simp only [Rfc.encDirEntsPlus, plusSize, entrySize, plusExtra, List.length_append, encU32_length, encU64_length,
      encOpaque_length, ih', ha, hf, Rfc.encPostOp, Rfc.encPostFh, encFattr_length, encFh]
    have : (e.name.length + 3) / 4 * 4 = e.name.length + pad4 e.name.length := by unfold pad4; omega
    omega

theorem readdirplusOk_length (a : Rfc.Fattr) (verf : Bytes) (ents : List Rfc.DirEntPlus) (eof : Bool) (hv : verf.length = 8)
    (h : ∀ e ∈ ents, e.attr.isSome ∧ e.fh.isSome) :
    (Rfc.encBody (.readdirplusOk (some a) verf ents eof)).length = dirListHeader + plusSize ents + dirListTrailer := by
  simp only [Rfc.encBody, Rfc.encPostOp, Rfc.encBool, List.length_append, encU32_length, encFattr_length,
    encDirEntsPlus_length ents h, hv, dirListHeader, dirListTrailer]
  omega

end Server
end Absnfs
