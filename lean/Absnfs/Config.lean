/-
  Config: runtime reconfiguration (absnfs.go: New / applyExportDefaults / UpdateExportOptions;
  options.go: UpdateTuningOptions / UpdatePolicyOptions / GetExportOptions).
  Numeric and duration fields are a vector of integers in the order of the defaults table regenerated from
  the source; the nine timeouts are a second (optional: nil pointer) vector.
-/
import Absnfs.Bytes
namespace Absnfs
namespace Config

/-- `if x <= 0 { x = default }`, field by field -/
def applyNum : List Int → List Int → List Int
  | d :: ds, x :: xs => (if x ≤ 0 then d else x) :: applyNum ds xs
  | _, _ => []

structure Tuning where
  num : List Int                 -- TransferSize, AttrCacheTimeout, … in table order
  timeouts : Option (List Int)   -- nil pointer = none
  flags : List Bool              -- CacheNegativeLookups, EnableDirCache, TCPKeepAlive, TCPNoDelay, Async
  deriving DecidableEq, Repr

structure Policy where
  readOnly : Bool
  secure : Bool
  squash : Bytes
  maxFileSize : Int
  enableRL : Bool
  rlConfig : Option Nat          -- identifies the RateLimiterConfig value; none = nil pointer
  allowed : Nat                  -- identifies the AllowedIPs list
  deriving DecidableEq, Repr

structure Cfg where
  tuning : Tuning
  policy : Policy
  deriving DecidableEq, Repr

/-- what the code does, as regenerated from the source -/
structure Behaviour where
  tuningDefaults : Bool      -- UpdateTuningOptions applies the construction defaults after the mutation
  validatesFirst : Bool      -- UpdateExportOptions checks Squash before applying anything
  policyDefaultsRL : Bool    -- UpdatePolicyOptions replaces a nil RateLimitConfig by the default config

/-- defaults for a tuning value (nil timeouts become the default timeouts) -/
def defaultTuning (dNum dTmo : List Int) (t : Tuning) : Tuning :=
  { t with num := applyNum dNum t.num,
           timeouts := some (match t.timeouts with
             | none => dTmo
             | some v => applyNum dTmo v) }

/-- UpdateTuningOptions(fn) where fn replaces the tuning value by `new` -/
def updateTuning (b : Behaviour) (dNum dTmo : List Int) (c : Cfg) (new : Tuning) : Cfg :=
  { c with tuning := if b.tuningDefaults then defaultTuning dNum dTmo new else new }

def defaultRL : Nat := 10000   -- identifies DefaultRateLimiterConfig() (its GlobalRequestsPerSecond)

/-- UpdatePolicyOptions: `none` = rejected (Squash differs) -/
def updatePolicy (b : Behaviour) (c : Cfg) (p : Policy) : Option Cfg :=
  if c.policy.squash ≠ p.squash then none
  else some { c with policy :=
    if b.policyDefaultsRL ∧ p.rlConfig = none then { p with rlConfig := some defaultRL } else p }

/-- the ExportOptions value handed to UpdateExportOptions -/
structure ExportUpdate where
  tuning : Tuning
  policy : Policy   -- its `squash` is the Squash field of the update ("" = keep)
  deriving Repr

/-- Timeouts nil in the update: keep the current ones (the code preserves them before defaulting) -/
def exportTuning (c : Cfg) (u : ExportUpdate) : Tuning :=
  { num := u.tuning.num, flags := u.tuning.flags,
    timeouts := match u.tuning.timeouts with
      | none => c.tuning.timeouts
      | some v => some v }

/-- UpdateExportOptions. Returns the new configuration and whether the call returned an error. -/
def updateExport (b : Behaviour) (dNum dTmo : List Int) (c : Cfg) (u : ExportUpdate) : Cfg × Bool :=
  let squashBad := u.policy.squash ≠ [] ∧ u.policy.squash ≠ c.policy.squash
  let newT : Tuning := exportTuning c u
  if b.validatesFirst ∧ squashBad then (c, true)
  else
    let c1 := updateTuning b dNum dTmo c newT
    if squashBad then (c1, true)
    else
      match updatePolicy b c1 { u.policy with squash := c.policy.squash } with
      | none => (c1, true)
      | some c2 => (c2, false)

inductive Op where
  | tuning (t : Tuning)
  | policy (p : Policy)
  | exportUpd (u : ExportUpdate)
  deriving Repr

def step (b : Behaviour) (dNum dTmo : List Int) (c : Cfg) : Op → Cfg
  | .tuning t => updateTuning b dNum dTmo c t
  | .policy p => (updatePolicy b c p).getD c
  | .exportUpd u => (updateExport b dNum dTmo c u).1

/-! ### Serviceability -/

def AllPos (l : List Int) : Prop := ∀ x ∈ l, 0 < x

def ServiceableT (n m : Nat) (t : Tuning) : Prop :=
  t.num.length = n ∧ AllPos t.num ∧ ∃ v, t.timeouts = some v ∧ v.length = m ∧ AllPos v

def Serviceable (n m : Nat) (c : Cfg) : Prop := ServiceableT n m c.tuning

/-- UpdateExportOptions either leaves the configuration as it was or installs the (defaulted) new tuning. -/
theorem updateExport_tuning (b : Behaviour) (dNum dTmo : List Int) (c : Cfg) (u : ExportUpdate) :
    (updateExport b dNum dTmo c u).1 = c ∨
    (updateExport b dNum dTmo c u).1.tuning = (updateTuning b dNum dTmo c (exportTuning c u)).tuning := by
  unfold updateExport
  simp only
  split
  · exact Or.inl rfl
  · split
    · exact Or.inr rfl
    · right
      cases hp : updatePolicy b (updateTuning b dNum dTmo c (exportTuning c u))
          { u.policy with squash := c.policy.squash } with
      | none => rfl
      | some c2 =>
        simp only
        unfold updatePolicy at hp
        split at hp
        · simp at hp
        · simp only [Option.some.injEq] at hp
          rw [← hp]

theorem applyNum_pos (d x : List Int) (hd : AllPos d) (hl : d.length = x.length) :
    AllPos (applyNum d x) ∧ (applyNum d x).length = d.length := by
  induction d generalizing x with
  | nil => cases x <;> simp [applyNum, AllPos]
  | cons a as ih =>
    cases x with
    | nil => simp at hl
    | cons y ys =>
      have ha : 0 < a := hd a (List.mem_cons_self ..)
      have := ih ys (fun z hz => hd z (List.mem_cons_of_mem _ hz)) (by simpa using hl)
      constructor
      · intro z hz
        simp only [applyNum, List.mem_cons] at hz
        rcases hz with rfl | hz
        · split <;> omega
        · exact this.1 z hz
      · simp [applyNum, this.2]

/-- the value of a defaulted field: the default exactly where the given value was ≤ 0 -/
theorem applyNum_get (d x : List Int) (i : Nat) (hi : i < d.length) (hl : d.length = x.length) :
    (applyNum d x)[i]! = if x[i]! ≤ 0 then d[i]! else x[i]! := by
  induction d generalizing x i with
  | nil => simp at hi
  | cons a as ih =>
    cases x with
    | nil => simp at hl
    | cons y ys =>
      cases i with
      | zero => simp [applyNum]
      | succ j =>
        have := ih ys j (by simpa using hi) (by simpa using hl)
        simpa [applyNum] using this

end Config
end Absnfs
