/-
  Tls: decision logic of tls_config.go (Validate, BuildConfig, Clone, ReloadCertificates) — which protocol
  versions a built configuration admits, when a verified client chain is required, and which certificate
  cell a listener reads after the documented rotation step. crypto/tls itself is Go's (trusted).
-/
namespace Absnfs
namespace Tls

def tls10 : Nat := 0x0301
def tls11 : Nat := 0x0302
def tls12 : Nat := 0x0303
def tls13 : Nat := 0x0304

structure Cfg where
  enabled : Bool
  minV : Nat        -- 0 = unset
  maxV : Nat        -- 0 = unset
  clientAuth : Nat  -- 0 NoClientCert … 3 VerifyClientCertIfGiven, 4 RequireAndVerifyClientCert
  caSet : Bool      -- CAFile configured
  filesExist : Bool -- cert/key (and CA when consulted) are present on disk
  deriving Repr, DecidableEq

/-- facts about the code, regenerated from the source -/
structure Facts where
  floor : Nat            -- constant in `tc.MinVersion != 0 && tc.MinVersion < FLOOR`
  pinsUnsetMin : Bool    -- BuildConfig replaces MinVersion 0 by TLS 1.2
  cloneSharesCert : Bool -- Clone hands the live certificate cell to the copy

/-- TLSConfig.Validate (for an enabled configuration) -/
def validate (f : Facts) (c : Cfg) : Bool :=
  !c.enabled ||
  (c.filesExist && !(c.minV > c.maxV) && !(c.minV ≠ 0 && c.minV < f.floor))

/-- MinVersion of the tls.Config that BuildConfig returns; `goMin` is crypto/tls's own default minimum for
    servers (TLS 1.2, or TLS 1.0 under GODEBUG=tls10server=1) used when the field is left 0. -/
def effectiveMin (f : Facts) (goMin : Nat) (c : Cfg) : Nat :=
  if c.minV = 0 then (if f.pinsUnsetMin then tls12 else goMin) else c.minV

def effectiveMax (c : Cfg) : Nat := if c.maxV = 0 then tls13 else c.maxV

/-- crypto/tls completes a handshake only at a version within [MinVersion, MaxVersion] -/
def admitsVersion (f : Facts) (goMin : Nat) (c : Cfg) (v : Nat) : Bool :=
  decide (effectiveMin f goMin c ≤ v) && decide (v ≤ effectiveMax c)

/-- client certificate handling of the built configuration -/
def requiresVerifiedChain (c : Cfg) : Bool := c.clientAuth = 4
def verifiesAgainstConfiguredCA (c : Cfg) : Bool := decide (c.clientAuth ≥ 3) && c.caSet

/-- does the server complete a handshake with a client presenting: no cert / a cert whose chain verifies
    against the configured CA (`chainOk`)? (Go's verifier is a parameter.) -/
def acceptsClient (c : Cfg) (presents : Bool) (chainOk : Bool) : Bool :=
  match c.clientAuth with
  | 0 => true
  | 1 => true                       -- RequestClientCert
  | 2 => presents                   -- RequireAnyClientCert
  | 3 => !presents || chainOk       -- VerifyClientCertIfGiven
  | _ => presents && chainOk        -- RequireAndVerifyClientCert

/-! certificate cells: the listener reads the cell of the TLSConfig its tls.Config was built from -/

structure Cells where
  listener : Nat             -- id of the cell the listener's GetCertificate reads
  content : Nat → Nat        -- which certificate (generation) each cell holds
  nextCell : Nat

/-- Clone: the copy either shares the original's cell or gets a fresh one. Returns (cells, cell of the copy). -/
def cloneCell (f : Facts) (cs : Cells) (orig : Nat) : Cells × Nat :=
  if f.cloneSharesCert then (cs, orig) else ({ cs with nextCell := cs.nextCell + 1 }, cs.nextCell)

/-- ReloadCertificates on a TLSConfig whose cell is `cell`: stores the current on-disk generation -/
def reload (cs : Cells) (cell : Nat) (gen : Nat) : Cells :=
  { cs with content := fun k => if k = cell then gen else cs.content k }

def presented (cs : Cells) : Nat := cs.content cs.listener

end Tls
end Absnfs
