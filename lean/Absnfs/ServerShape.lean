/-
  ServerShape: every result the server model produces has the RFC 1813 result shape of its procedure and
  status (C14).
-/
import Absnfs.ServerFrame
namespace Absnfs
namespace Server
open Rfc (Body)

/-- the *resok shape of each procedure -/
def okShape (proc : Nat) (b : Body) : Bool :=
  match proc, b with
  | 0, .void => true
  | 1, .attr _ => true
  | 2, .wcc _ => true
  | 3, .lookupOk .. => true
  | 4, .accessOk .. => true
  | 5, .readlinkOk .. => true
  | 6, .readOk .. => true
  | 7, .writeOk .. => true
  | 8, .createOk .. => true
  | 9, .createOk .. => true
  | 10, .createOk .. => true
  | 11, .createOk .. => true
  | 12, .wcc _ => true
  | 13, .wcc _ => true
  | 14, .wcc2 .. => true
  | 15, .linkRes .. => true
  | 16, .readdirOk .. => true
  | 17, .readdirplusOk .. => true
  | 18, .fsstatOk .. => true
  | 19, .fsinfoOk .. => true
  | 20, .pathconfOk .. => true
  | 21, .commitOk .. => true
  | _, _ => false

/-- the *resfail shape of each procedure -/
def failShape (proc : Nat) (b : Body) : Bool :=
  match proc, b with
  | 1, .statusOnly => true
  | 2, .wcc _ => true
  | 3, .postOp _ => true
  | 4, .postOp _ => true
  | 5, .postOp _ => true
  | 6, .postOp _ => true
  | 7, .wcc _ => true
  | 8, .wcc _ => true
  | 9, .wcc _ => true
  | 10, .wcc _ => true
  | 11, .wcc _ => true
  | 12, .wcc _ => true
  | 13, .wcc _ => true
  | 14, .wcc2 .. => true
  | 15, .linkRes .. => true
  | 16, .postOp _ => true
  | 17, .postOp _ => true
  | 18, .postOp _ => true
  | 19, .postOp _ => true
  | 20, .postOp _ => true
  | 21, .wcc _ => true
  | _, _ => false

def WellShaped (proc : Nat) (r : Rfc.Res) : Bool :=
  if r.status = 0 then okShape proc r.body else failShape proc r.body

/-- statuses the model can put in a result: members of nfsstat3, or 4 (GARBAGE_ARGS written as a status) -/
def StatusOK (st : Nat) : Prop := st ∈ Rfc.nfsstat3 ∨ st = 4

def Good (proc : Nat) : Outcome → Prop
  | .res r => WellShaped proc r = true ∧ StatusOK r.status
  | _ => True

@[simp] theorem mapErrno_eq_zero (e : Fs.Errno) : (mapErrno e = 0) = False := by
  cases e <;> simp [mapErrno]

theorem mapErrno_status (e : Fs.Errno) : StatusOK (mapErrno e) := by
  left; cases e <;> simp [mapErrno, Rfc.nfsstat3]

theorem validateFilename_status (n : Bytes) : validateFilename n = 0 ∨ validateFilename n = 22 ∨ validateFilename n = 63 := by
  unfold validateFilename
  repeat' split
  all_goals simp

/-- discharge one leaf: a concrete `res st body` -/
macro "shape_leaf" : tactic => `(tactic|
  first
    | trivial
    | (simp only [Good, WellShaped, okShape, failShape, res, StatusOK, Rfc.nfsstat3, mapErrno_eq_zero, if_true, if_false]
       <;> first | decide | (refine ⟨by simp, ?_⟩; first | decide | exact mapErrno_status _) | simp_all))

theorem good_mapErrno_fail (proc : Nat) (e : Fs.Errno) (b : Body) (h : failShape proc b = true) :
    Good proc (res (mapErrno e) b) := by
  simp only [Good, res, WellShaped, mapErrno_eq_zero, if_false]
  exact ⟨h, mapErrno_status e⟩

theorem good_const_fail (proc st : Nat) (b : Body) (h : failShape proc b = true) (hst : st ≠ 0) (hm : StatusOK st) :
    Good proc (res st b) := by
  simp only [Good, res, WellShaped, hst, if_false]
  exact ⟨h, hm⟩

theorem good_ok (proc : Nat) (b : Body) (h : okShape proc b = true) : Good proc (res 0 b) := by
  simp only [Good, res, WellShaped, if_true]
  exact ⟨h, .inl (by decide)⟩

theorem procGetattr_good (s : St) (c : Ctx) (args : Bytes) : Good 1 (procGetattr s c args).2 := by
  unfold procGetattr
  split
  · exact good_const_fail 1 4 _ rfl (by decide) (.inr rfl)
  · split
    · exact good_const_fail 1 70 _ rfl (by decide) (.inl (by decide))
    · split
      · exact good_mapErrno_fail 1 _ _ rfl
      · exact good_ok 1 _ rfl

end Server
end Absnfs

namespace Absnfs
namespace Server
open Rfc (Body)

theorem good_validate_fail (proc : Nat) (n : Bytes) (b : Body) (h : failShape proc b = true) (hv : validateFilename n ≠ 0) :
    Good proc (res (validateFilename n) b) := by
  simp only [Good, res, WellShaped, hv, if_false]
  refine ⟨h, ?_⟩
  rcases validateFilename_status n with h0 | h1 | h2
  · exact absurd h0 hv
  · rw [h1]; exact .inl (by decide)
  · rw [h2]; exact .inl (by decide)

macro "good_leaf" p:term : tactic => `(tactic| first
  | exact good_ok $p _ rfl
  | exact good_mapErrno_fail $p _ _ rfl
  | exact good_const_fail $p _ _ rfl (by decide) (Or.inl (by decide))
  | exact good_const_fail $p _ _ rfl (by decide) (Or.inr rfl)
  | (apply good_validate_fail $p _ _ rfl; assumption)
  | trivial)

macro "good_proc" p:term : tactic => `(tactic| repeat (first | good_leaf $p | split | simp only))

theorem procLookup_good (s : St) (c : Ctx) (args : Bytes) : Good 3 (procLookup s c args).2 := by
  unfold procLookup; good_proc 3
theorem procAccess_good (s : St) (c : Ctx) (args : Bytes) : Good 4 (procAccess s c args).2 := by
  unfold procAccess; good_proc 4
theorem procReadlink_good (s : St) (c : Ctx) (args : Bytes) : Good 5 (procReadlink s c args).2 := by
  unfold procReadlink; good_proc 5
theorem procRead_good (s : St) (c : Ctx) (args : Bytes) : Good 6 (procRead s c args).2 := by
  unfold procRead; good_proc 6
theorem procWrite_good (s : St) (c : Ctx) (args : Bytes) : Good 7 (procWrite s c args).2 := by
  unfold procWrite; good_proc 7
theorem procCommit_good (s : St) (c : Ctx) (args : Bytes) : Good 21 (procCommit s c args).2 := by
  unfold procCommit; good_proc 21
theorem withObjAttr_good (p : Nat) (s : St) (c : Ctx) (args : Bytes) (k : Rfc.Fattr → Body)
    (hk : ∀ a, okShape p (k a) = true) (hf : failShape p (.postOp none) = true) : Good p (withObjAttr s c args k).2 := by
  unfold withObjAttr
  split
  · exact good_const_fail p 4 _ hf (by decide) (.inr rfl)
  · split
    · exact good_const_fail p 70 _ hf (by decide) (.inl (by decide))
    · split
      · exact good_mapErrno_fail p _ _ hf
      · exact good_ok p _ (hk _)

end Server
end Absnfs

namespace Absnfs
namespace Server
open Rfc (Body)

/-- statuses SetAttr's error branch and the size part can produce -/
theorem setAttrOp_status (s : St) (h : Nat) (n : Node) (a : Attrs) (ts : Bool) (s' : St) (st : Nat)
    (he : setAttrOp s h n a ts = (s', some st)) : ∃ e, st = mapErrno e := by
  unfold setAttrOp at he
  split at he
  · rename_i e _; simp only [Prod.mk.injEq, Option.some.injEq] at he; exact ⟨e, he.2.symm⟩
  · simp only at he
    split at he
    · rename_i e _; simp only [Prod.mk.injEq, Option.some.injEq] at he; exact ⟨e, he.2.symm⟩
    · split at he
      · rename_i e _; simp only [Prod.mk.injEq, Option.some.injEq] at he; exact ⟨e, he.2.symm⟩
      · split at he
        · rename_i e _; simp only [Prod.mk.injEq, Option.some.injEq] at he; exact ⟨e, he.2.symm⟩
        · simp at he

theorem setattrApply_good (s2 : St) (c : Ctx) (h : Nat) (sa : Sattr3) (pre : Attrs) : Good 2 (setattrApply s2 c h sa pre).2 := by
  unfold setattrApply
  split
  · good_leaf 2
  · simp only
    split
    · rename_i s3 st heq
      obtain ⟨e, he⟩ := setAttrOp_status _ _ _ _ _ _ _ heq
      rw [he]; good_leaf 2
    · split <;> good_leaf 2

theorem setattrSize_status {s1 : St} {h : Nat} {n : Node} {pre : Attrs} {size : Option Nat} {st : Nat}
    (he : setattrSize s1 h n pre size = .error st) : st = 22 ∨ st = 27 ∨ ∃ e, st = mapErrno e := by
  unfold setattrSize at he
  split at he
  · simp at he
  · split at he
    · simp only [Except.error.injEq] at he; exact .inl he.symm
    · split at he
      · simp only [Except.error.injEq] at he; exact .inr (.inl he.symm)
      · split at he
        · simp only [Except.error.injEq] at he; exact .inl he.symm
        · split at he
          · rename_i e _; simp only [Except.error.injEq] at he; exact .inr (.inr ⟨e, he.symm⟩)
          · simp only at he
            split at he <;> simp at he

theorem procSetattr_good (s : St) (c : Ctx) (args : Bytes) : Good 2 (procSetattr s c args).2 := by
  unfold procSetattr
  split
  · good_leaf 2
  · split
    · good_leaf 2
    · split
      · good_leaf 2
      · split
        · good_leaf 2
        · split
          · good_leaf 2
          · split
            · good_leaf 2
            · split
              · good_leaf 2
              · split
                · good_leaf 2
                · split
                  · good_leaf 2
                  · split
                    · rename_i st hsz
                      rcases setattrSize_status hsz with h1 | h1 | ⟨e, h1⟩ <;> (rw [h1]; good_leaf 2)
                    · exact setattrApply_good ..

theorem createFinish_good (p : Nat) (hp : p = 8) (s2 : St) (st : Nat) (c : Ctx) (n : Node) (pre : Attrs) (path : Bytes)
    (hst : st = 0 ∨ st = 17 ∨ st = 22 ∨ st = 27 ∨ ∃ e, st = mapErrno e) : Good p (createFinish s2 st c n pre path).2 := by
  subst hp
  unfold createFinish
  split
  · rename_i hne
    simp only
    rcases hst with h0 | h1 | h1 | h1 | ⟨e, h1⟩
    · exact absurd h0 hne
    all_goals (rw [h1]; good_leaf 8)
  · split <;> (simp only; good_leaf 8)

theorem createStep1_status (s1 : St) (p : Bytes) (info : Fs.Info) (how : Nat) (sa : Sattr3) (verf : Bytes) :
    let st := (createStep1 s1 p info how sa verf).2
    st = 0 ∨ st = 17 ∨ st = 22 ∨ st = 27 ∨ ∃ e, st = mapErrno e := by
  unfold createStep1
  simp only
  repeat' split
  all_goals first
    | exact .inl rfl
    | exact .inr (.inl rfl)
    | exact .inr (.inr (.inl rfl))
    | exact .inr (.inr (.inr (.inl rfl)))
    | exact .inr (.inr (.inr (.inr ⟨_, rfl⟩)))

theorem createExisting_good (s1 : St) (c : Ctx) (n : Node) (pre : Attrs) (p : Bytes) (info : Fs.Info) (how : Nat)
    (sa : Sattr3) (verf : Bytes) : Good 8 (createExisting s1 c n pre p info how sa verf).2 := by
  unfold createExisting
  exact createFinish_good 8 rfl _ _ c n pre p (createStep1_status s1 p info how sa verf)

theorem createNew_good (s1 : St) (c : Ctx) (n : Node) (pre : Attrs) (name : Bytes) (mode how : Nat) (sa : Sattr3) (verf : Bytes) :
    Good 8 (createNew s1 c n pre name mode how sa verf).2 := by
  unfold createNew; good_proc 8

section
attribute [local irreducible] createExisting createNew
theorem procCreate_good (s : St) (c : Ctx) (args : Bytes) : Good 8 (procCreate s c args).2 := by
  unfold procCreate
  good_proc 8
  · exact createExisting_good ..
  · exact createNew_good ..
end

theorem procMkdir_good (s : St) (c : Ctx) (args : Bytes) : Good 9 (procMkdir s c args).2 := by
  unfold procMkdir; good_proc 9
theorem procSymlink_good (s : St) (c : Ctx) (args : Bytes) : Good 10 (procSymlink s c args).2 := by
  unfold procSymlink; good_proc 10
theorem procRemove_good (s : St) (c : Ctx) (args : Bytes) : Good 12 (procRemove s c args).2 := by
  unfold procRemove; good_proc 12
theorem procRename_good (s : St) (c : Ctx) (args : Bytes) : Good 14 (procRename s c args).2 := by
  unfold procRename; good_proc 14

end Server
end Absnfs

namespace Absnfs
namespace Server
open Rfc (Body)

theorem procRmdir_good (s : St) (c : Ctx) (args : Bytes) : Good 13 (procRmdir s c args).2 := by
  unfold procRmdir
  repeat (first | good_leaf 13 | split | simp only)

theorem procReaddir_good (s : St) (c : Ctx) (args : Bytes) : Good 16 (procReaddir s c args).2 := by
  unfold procReaddir; good_proc 16

theorem procReaddirplus_good (s : St) (c : Ctx) (args : Bytes) : Good 17 (procReaddirplus s c args).2 := by
  unfold procReaddirplus; good_proc 17

/-- C14 (NFS program): whatever the state, credentials and argument bytes, a result of procedure `proc` has the
    RFC 1813 shape of that procedure for its status (resok for NFS3_OK, resfail otherwise), and its status is a
    member of nfsstat3 — or 4, the known finding (undecodable arguments answered with GARBAGE_ARGS in the body). -/
theorem handleNfs_good (s : St) (c : Ctx) (proc : Nat) (args : Bytes) : Good proc (handleNfs s c proc args).2 := by
  unfold handleNfs
  split
  · exact ⟨rfl, .inl (by decide)⟩
  · exact procGetattr_good s c args
  · exact procSetattr_good s c args
  · exact procLookup_good s c args
  · exact procAccess_good s c args
  · exact procReadlink_good s c args
  · exact procRead_good s c args
  · exact procWrite_good s c args
  · exact procCreate_good s c args
  · exact procMkdir_good s c args
  · exact procSymlink_good s c args
  · good_leaf 11
  · exact procRemove_good s c args
  · exact procRmdir_good s c args
  · exact procRename_good s c args
  · good_leaf 15
  · exact procReaddir_good s c args
  · exact procReaddirplus_good s c args
  · exact withObjAttr_good 18 s c args _ (fun _ => rfl) rfl
  · exact withObjAttr_good 19 s c args _ (fun _ => rfl) rfl
  · exact withObjAttr_good 20 s c args _ (fun _ => rfl) rfl
  · exact procCommit_good s c args
  · trivial

/-- the status 4 only ever comes from an argument decoding failure: when the arguments decode (here: GETATTR) it
    does not occur -/
theorem getattr_status_4_only_garbage (s : St) (c : Ctx) (args : Bytes) (h : Nat) (r : Bytes)
    (hd : decFh' s args = some (h, r)) : ∀ st b, (procGetattr s c args).2 = .res ⟨st, b⟩ → st ≠ 4 := by
  intro st b heq
  unfold procGetattr at heq
  simp only [hd] at heq
  split at heq
  · simp only [res, Outcome.res.injEq, Rfc.Res.mk.injEq] at heq; omega
  · split at heq
    · rename_i e _
      simp only [res, Outcome.res.injEq, Rfc.Res.mk.injEq] at heq
      rw [← heq.1]; cases e <;> simp [mapErrno]
    · simp only [res, Outcome.res.injEq, Rfc.Res.mk.injEq] at heq; omega

/-- MOUNT results: MNT answers a mountstat3 member with the right shape; the other procedures have no status -/
def MountGood (proc : Nat) : Outcome → Prop
  | .res r =>
    (match proc, r.body with
     | 0, .void => True | 3, .void => True | 4, .void => True
     | 1, .statusOnly => r.status ≠ 0 ∧ r.status ∈ Rfc.mountstat3
     | 1, .mntOk fh fl => r.status = 0 ∧ fh.length = 8 ∧ fl = [1]
     | 2, .mountList _ => True
     | 5, .exportList _ => True
     | _, _ => False)
  | _ => True

theorem firstBadComponent_status (l : List Bytes) : firstBadComponent l = 0 ∨ firstBadComponent l = 22 ∨ firstBadComponent l = 63 := by
  induction l with
  | nil => exact .inl rfl
  | cons x xs ih =>
    unfold firstBadComponent
    split
    · rename_i h
      rcases validateFilename_status x with h0 | h1 | h2
      · exact absurd h0 h
      · exact .inr (.inl h1)
      · exact .inr (.inr h2)
    · exact ih

theorem procMnt_good (s : St) (c : Ctx) (args : Bytes) : MountGood 1 (procMnt s c args).2 := by
  unfold procMnt
  split
  · trivial
  · split
    · exact ⟨by decide, by decide⟩
    · simp only
      generalize hb : (if cleanAbs _ = [47] then 0 else firstBadComponent _) = bad
      have hbad3 : bad = 0 ∨ bad = 22 ∨ bad = 63 := by
        rw [← hb]; split
        · exact .inl rfl
        · exact firstBadComponent_status _
      split
      · rename_i hne
        show bad ≠ 0 ∧ bad ∈ Rfc.mountstat3
        refine ⟨hne, ?_⟩
        rcases hbad3 with h0 | h1 | h2
        · exact absurd h0 hne
        · rw [h1]; decide
        · rw [h2]; decide
      · split
        · exact ⟨by decide, by decide⟩
        · exact ⟨rfl, by simp, rfl⟩

theorem handleMount_good (s : St) (c : Ctx) (proc : Nat) (args : Bytes) : MountGood proc (handleMount s c proc args).2 := by
  unfold handleMount
  split
  · trivial
  · exact procMnt_good s c args
  · trivial
  · split <;> trivial
  · trivial
  · trivial
  · trivial

end Server
end Absnfs

namespace Absnfs
namespace Server
open Rfc (Body)

theorem done_some {b b' : Body} {r : Bytes} (h : Rfc.done b r = some b') : b' = b := by
  unfold Rfc.done at h; split at h <;> simp_all

/-- The RFC result decoder accepts only well-shaped results: whatever bytes it accepts for (procedure, status)
    decode to the resok body of that procedure when the status is NFS3_OK and to its resfail body otherwise. -/
theorem decNfsBody_shape (proc st : Nat) (bs : Bytes) (b : Body) (h : Rfc.decNfsBody proc st bs = some b) :
    WellShaped proc ⟨st, b⟩ = true := by
  unfold WellShaped
  unfold Rfc.decNfsBody Rfc.decWccBody Rfc.decPostOpBody Rfc.decCreateOk at h
  simp only at h
  split at h
  all_goals (repeat' (split at h))
  all_goals (first | contradiction | (have := done_some h; subst this; simp_all [okShape, failShape]) | simp at h)

end Server
end Absnfs

namespace Absnfs
namespace Server
open Rfc (Body)

/-- busyReply (nfs_handlers.go): the answer to a call that arrives during a policy drain -/
def busy (prog vers proc : Nat) : Outcome :=
  if prog = 100003 then
    if vers ≠ 3 then .progMismatch
    else if proc = 0 then res 0 .void
    else if proc = 1 then res 10008 .statusOnly
    else if proc ∈ [3, 4, 5, 6, 16, 17, 18, 19, 20] then res 10008 (.postOp none)
    else if proc ∈ [2, 7, 8, 9, 10, 11, 12, 13, 21] then res 10008 (.wcc wcc0)
    else if proc = 14 then res 10008 (.wcc2 wcc0 wcc0)
    else if proc = 15 then res 10008 (.linkRes none wcc0)
    else .procUnavail
  else if prog = 100005 then
    if vers ≠ 1 ∧ vers ≠ 3 then .progMismatch
    else if proc = 0 ∨ proc = 3 ∨ proc = 4 then res 0 .void
    else if proc = 1 then res 10006 .statusOnly
    else if proc = 2 then res 0 (.mountList [])
    else if proc = 5 then res 0 (.exportList [([47], [])])
    else .procUnavail
  else .progUnavail

/-- C14 (drain): the busy answer of every NFS procedure has that procedure's failure shape with
    NFS3ERR_JUKEBOX; NULL is answered normally -/
theorem busy_nfs_good (proc : Nat) : Good proc (busy 100003 3 proc) := by
  unfold busy
  simp only [if_true, ne_eq, not_true_eq_false, if_false]
  by_cases h0 : proc = 0
  · subst h0; exact ⟨rfl, .inl (by decide)⟩
  · simp only [h0, if_false]
    by_cases h1 : proc = 1
    · subst h1; exact ⟨rfl, .inl (by decide)⟩
    · simp only [h1, if_false]
      split
      · rename_i hm
        simp only [List.mem_cons, List.mem_nil_iff, or_false] at hm
        rcases hm with rfl | rfl | rfl | rfl | rfl | rfl | rfl | rfl | rfl <;> exact ⟨rfl, .inl (by decide)⟩
      · split
        · rename_i hm
          simp only [List.mem_cons, List.mem_nil_iff, or_false] at hm
          rcases hm with rfl | rfl | rfl | rfl | rfl | rfl | rfl | rfl | rfl <;> exact ⟨rfl, .inl (by decide)⟩
        · split
          · rename_i h; subst h; exact ⟨rfl, .inl (by decide)⟩
          · split
            · rename_i h; subst h; exact ⟨rfl, .inl (by decide)⟩
            · trivial

theorem busy_mount_good (vers proc : Nat) (hv : vers = 1 ∨ vers = 3) : MountGood proc (busy 100005 vers proc) := by
  unfold busy
  have : ¬ (vers ≠ 1 ∧ vers ≠ 3) := by omega
  simp only [show (100005 : Nat) ≠ 100003 by decide, if_false, if_true, this]
  split
  · rename_i h; rcases h with rfl | rfl | rfl <;> trivial
  · split
    · rename_i h; subst h; exact ⟨by decide, by decide⟩
    · split
      · rename_i h; subst h; trivial
      · split
        · rename_i h; subst h; trivial
        · trivial

end Server
end Absnfs
