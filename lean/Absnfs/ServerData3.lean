/-
  ServerData3: READ after WRITE (C01's headline, end to end over the handlers): the bytes a WRITE request carried
  are the bytes a following READ of the same range returns.
-/
import Absnfs.ServerData
import Absnfs.ServerData2
import Absnfs.ServerInvProcs
namespace Absnfs
namespace Fs

/-- reading back exactly the written range gives the payload -/
theorem slice_writeBytes_self (d : Bytes) (off : Nat) (w : Bytes) (hw : w ≠ []) :
    slice (writeBytes d off w) off w.length = w := by
  unfold slice writeBytes
  simp only [hw, if_false]
  have hlen : ((d ++ zeros (off - d.length)).take off).length = off := by
    simp only [List.length_take, List.length_append, zeros_length]; omega
  rw [List.append_assoc, List.drop_append_of_le_length (by omega)]
  have : ((d ++ zeros (off - d.length)).take off).drop off = [] := by
    apply List.drop_eq_nil_of_le; omega
  rw [this, List.nil_append, List.take_append_of_le_length (by omega), List.take_length]

/-- under WF, an update of the entry at `q` that keeps its kind does not change how any other stored path resolves -/
theorem walk_set_samekind_other {fs : T} (hw : WF fs) {q r : Path} {e e' x : Entry} (hq : get fs q = some e)
    (hk : e'.kind = e.kind) (hne : r ≠ q) (hr : walk fs r = .ok x) : walk (set fs q e') r = .ok x := by
  apply walk_eq_of_get (wf_set_samekind hw hq hk)
  rw [get_set_other _ _ _ _ hne]
  exact walk_ok_get hr

/-- … and the path a final-symlink-following resolution ends at still ends there, at the updated entry -/
theorem followFrom_set_target {fs : T} (hw : WF fs) {q : Path} {e e' : Entry} (hk : e'.kind = e.kind) (hnl : e.kind ≠ .link) :
    ∀ (fuel : Nat) (p : Path), followFrom fs fuel p = (q, .ok e) → followFrom (set fs q e') fuel p = (q, .ok e') := by
  intro fuel
  induction fuel with
  | zero => intro p h; simp [followFrom] at h
  | succ n ih =>
    intro p h
    have hq : get fs q = some e := followFrom_ok_get h
    simp only [followFrom] at h ⊢
    split at h
    · simp at h
    · rename_i x hx
      split at h
      · rename_i hlink
        have hne : p ≠ q := by
          intro hpq
          have hgx := walk_ok_get hx
          rw [hpq, hq] at hgx
          simp only [Option.some.injEq] at hgx
          rw [← hgx] at hlink
          exact hnl hlink
        rw [walk_set_samekind_other hw hq hk hne hx]
        simp only [hlink, if_true]
        exact ih _ h
      · rename_i hnlx
        simp only [Prod.mk.injEq, Except.ok.injEq] at h
        obtain ⟨hp, hxe⟩ := h
        subst hp
        subst hxe
        have : walk (set fs p e') p = .ok e' := walk_eq_of_get (wf_set_samekind hw hq hk) (get_set_same ..)
        rw [this]
        have : ¬ e'.kind = .link := by rw [hk]; exact hnlx
        simp [this]

end Fs

namespace Server

/-- every handle keeps its path (attributes stored with it may change) -/
def PathsKept (s s' : St) : Prop := ∀ h n, nodeOf s h = some n → ∃ n', nodeOf s' h = some n' ∧ n'.path = n.path

theorem PathsKept.refl (s : St) : PathsKept s s := fun _ n hn => ⟨n, hn, rfl⟩
theorem PathsKept.trans {a b c : St} (h1 : PathsKept a b) (h2 : PathsKept b c) : PathsKept a c := by
  intro h n hn
  obtain ⟨n1, hn1, hp1⟩ := h1 h n hn
  obtain ⟨n2, hn2, hp2⟩ := h2 h n1 hn1
  exact ⟨n2, hn2, hp2.trans hp1⟩

theorem pathsKept_of_eq {s s' : St} (hhs : s'.hs = s.hs) (hnodes : s'.nodes = s.nodes) : PathsKept s s' := by
  intro h n hn
  refine ⟨n, ?_, rfl⟩
  unfold nodeOf at *
  rw [hhs, hnodes]; exact hn

theorem getAttr_pathsKept (s : St) (now : Nat) (n : Node) : PathsKept s (getAttr s now n).1 := by
  intro h m hm
  exact ⟨m, by rw [nodeOf_getAttr]; exact hm, rfl⟩

theorem getAttr_pathsKept' {s s' : St} {now : Nat} {n : Node} {r : Except Fs.Errno Attrs} (heq : getAttr s now n = (s', r)) :
    PathsKept s s' := by
  have := getAttr_pathsKept s now n; rw [heq] at this; exact this

theorem updNodeAt_pathsKept (s : St) (h0 : Nat) (f : Attrs → Attrs) : PathsKept s (updNodeAt s h0 f) := by
  intro h n hn
  by_cases hh : h = h0
  · subst hh
    exact ⟨_, nodeOf_updNodeAt s h f n hn, rfl⟩
  · refine ⟨n, ?_, rfl⟩
    unfold nodeOf updNodeAt at *
    cases hp : Handles.get s.hs h with
    | none => simp [hp] at hn
    | some p =>
      simp only [hp] at hn ⊢
      rw [List.find?_map]
      have : (s.nodes.find? ((fun x => x.1 == h) ∘ fun x => if x.1 = h0 then (x.1, f x.2) else x)) = s.nodes.find? (·.1 == h) := by
        congr 1
        funext y
        simp only [Function.comp_apply]
        split <;> rfl
      rw [this]
      cases hf : s.nodes.find? (·.1 == h) with
      | none => simp [hf] at hn
      | some x =>
        simp only [hf, Option.map_some, Option.some.injEq] at hn ⊢
        have hx : x.1 = h := by have := List.find?_some hf; simpa using this
        have : ¬ x.1 = h0 := by rw [hx]; exact hh
        simp only [this, if_false]
        exact hn

theorem writeOp_pathsKept {s1 s2 : St} {hd : Nat} {n : Node} {off k : Nat} {data : Bytes}
    (heq : writeOp s1 hd n off data = .ok (s2, k)) : PathsKept s1 s2 := by
  unfold writeOp at heq
  split at heq
  · simp at heq
  · split at heq
    · simp at heq
    · rename_i fs1 kk hwa
      have h2 : PathsKept s1 (acInv { s1 with fs := fs1 } n.path) := pathsKept_of_eq rfl rfl
      simp only at heq
      split at heq
      · simp only [Except.ok.injEq, Prod.mk.injEq] at heq
        rw [← heq.1]; exact h2
      · simp only [Except.ok.injEq, Prod.mk.injEq] at heq
        rw [← heq.1]; exact h2.trans (updNodeAt_pathsKept _ _ _)

theorem writeOp_cfg {s1 s2 : St} {hd : Nat} {n : Node} {off k : Nat} {data : Bytes}
    (heq : writeOp s1 hd n off data = .ok (s2, k)) : s2.cfg = s1.cfg := by
  unfold writeOp at heq
  split at heq
  · simp at heq
  · split at heq
    · simp at heq
    · simp only at heq
      split at heq
      · simp only [Except.ok.injEq, Prod.mk.injEq] at heq
        rw [← heq.1]; rfl
      · simp only [Except.ok.injEq, Prod.mk.injEq] at heq
        rw [← heq.1]; rfl

/-- a WRITE that replies NFS3_OK leaves every handle naming the path it named -/
theorem procWrite_ok_pathsKept (s s' : St) (c : Ctx) (args : Bytes) (w : Rfc.Wcc) (k com : Nat) (verf : Bytes)
    (h : procWrite s c args = (s', .res ⟨0, .writeOk w k com verf⟩)) :
    PathsKept s s' ∧ s'.cfg = s.cfg ∧ ∃ hd r1 n pre s1, decFh' s args = some (hd, r1) ∧ nodeOf s hd = some n ∧
      getAttr s c.now n = (s1, .ok pre) ∧ pre.kind ≠ .link := by
  unfold procWrite at h
  split at h
  · simp [res] at h
  · split at h
    · simp [res] at h
    · rename_i hd r1 hfh
      split at h
      · simp [res] at h
      · split at h
        · simp [res] at h
        · split at h
          · simp [res] at h
          · split at h
            · simp [res] at h
            · split at h
              · simp [res] at h
              · split at h
                · simp [res] at h
                · split at h
                  · simp [res] at h
                  · split at h
                    · simp [res] at h
                    · split at h
                      · simp [res] at h
                      · split at h
                        · simp [res] at h
                        · rename_i n hn
                          split at h
                          · simp [res] at h
                          · rename_i s1 pre hpre
                            split at h
                            · simp [res] at h
                            · rename_i hnl
                              split at h
                              · simp only [res, Prod.mk.injEq, Outcome.res.injEq, Rfc.Res.mk.injEq] at h
                                exact absurd h.2.2 (by simp)
                              · rename_i s2 k' hwr
                                split at h
                                · simp [res] at h
                                · rename_i s3 post hpost
                                  simp only [res, Prod.mk.injEq] at h
                                  refine ⟨?_, ?_, hd, r1, n, pre, s1, hfh, hn, hpre, hnl⟩
                                  · rw [← h.1]
                                    exact (getAttr_pathsKept' hpre).trans ((writeOp_pathsKept hwr).trans (getAttr_pathsKept' hpost))
                                  · rw [← h.1]
                                    have c1 : s1.cfg = s.cfg := by have := getAttr_cfg s c.now n; rw [hpre] at this; exact this
                                    have c3 : s3.cfg = s2.cfg := by have := getAttr_cfg s2 c.now n; rw [hpost] at this; exact this
                                    rw [c3, writeOp_cfg hwr, c1]


/-- C01, end to end: in every state satisfying the server invariant, a WRITE that is acknowledged with count k > 0
    followed by a READ of the same handle, offset and count returns exactly the payload the WRITE request carried
    (whatever else the READ request's bytes contain after its three fields, whoever sends it, whenever). -/
theorem read_after_write (s s1 s2 : St) (c c' : Ctx) (wargs rargs : Bytes) (w : Rfc.Wcc) (k com : Nat) (verf : Bytes)
    (o : Option Rfc.Fattr) (cntR : Nat) (eof : Bool) (rdata : Bytes) (hinv : CInv s)
    (hw : procWrite s c wargs = (s1, .res ⟨0, .writeOk w k com verf⟩))
    (hr : procRead s1 c' rargs = (s2, .res ⟨0, .readOk o cntR eof rdata⟩))
    (hd off : Nat) (w1 w2 q1 q2 q3 : Bytes)
    (hw1 : decFh' s wargs = some (hd, w1)) (hw2 : decU64 w1 = some (off, w2))
    (hr1 : decFh' s1 rargs = some (hd, q1)) (hr2 : decU64 q1 = some (off, q2)) (hr3 : decU32 q2 = some (k, q3))
    (hk : 0 < k) :
    ∀ (cnt stable dlen : Nat) (r3 r4 r5 rest data : Bytes), decU32 w2 = some (cnt, r3) → decU32 r3 = some (stable, r4) →
      decU32 r4 = some (dlen, r5) → take? cnt r5 = some (data, rest) → rdata = data ∧ cntR = data.length := by
  intro cnt stable dlen r3 r4 r5 rest data d3 d4 d5 d6
  -- the WRITE
  obtain ⟨h0, off0, cnt0, st0, dl0, a1, a2, a3, a4, a5, rest0, data0, n, fs1, e1, e2, e3, e4, e5, e6, _, htr, _, _, hn, hwa, hfs, _, _⟩ :=
    (procWrite_ok s s1 c wargs w k com verf hw).ex
  rw [hw1] at e1
  simp only [Option.some.injEq, Prod.mk.injEq] at e1
  obtain ⟨rfl, rfl⟩ := e1
  rw [hw2] at e2
  simp only [Option.some.injEq, Prod.mk.injEq] at e2
  obtain ⟨rfl, rfl⟩ := e2
  rw [d3] at e3
  simp only [Option.some.injEq, Prod.mk.injEq] at e3
  obtain ⟨rfl, rfl⟩ := e3
  rw [d4] at e4
  simp only [Option.some.injEq, Prod.mk.injEq] at e4
  obtain ⟨rfl, rfl⟩ := e4
  rw [d5] at e5
  simp only [Option.some.injEq, Prod.mk.injEq] at e5
  obtain ⟨rfl, rfl⟩ := e5
  rw [d6] at e6
  simp only [Option.some.injEq, Prod.mk.injEq] at e6
  obtain ⟨rfl, rfl⟩ := e6
  obtain ⟨hkeep, hcfg, hd', r1', n', pre, sg, hfh', hn', hpre, hnl⟩ := procWrite_ok_pathsKept s s1 c wargs w k com verf hw
  rw [hw1] at hfh'
  simp only [Option.some.injEq, Prod.mk.injEq] at hfh'
  obtain ⟨rfl, _⟩ := hfh'
  rw [hn] at hn'
  simp only [Option.some.injEq] at hn'
  subst hn'
  obtain ⟨e0, hwe0, hke0⟩ := getAttr_pre_walk hpre
  have hsg : sg.fs = s.fs := getAttr_fs' hpre
  rw [hsg] at hwe0
  have hnl0 : e0.kind ≠ .link := by rw [hke0]; exact hnl
  obtain ⟨hklen, q, e, hfol, hnd, _, hne⟩ := writeAt_ok hwa
  rw [Fs.follow_of_walk_nonlink hwe0 hnl0] at hfol
  simp only [Prod.mk.injEq, Except.ok.injEq] at hfol
  obtain ⟨rfl, rfl⟩ := hfol
  have hdne : data ≠ [] := by intro h0; rw [h0] at hklen; simp at hklen; omega
  have hfs1 : s1.fs = Fs.set s.fs (fsPath n.path) { e0 with data := Fs.writeBytes e0.data off data } := by rw [hfs]; exact hne hdne
  -- the READ
  obtain ⟨h2, off2, cnt2, b1, b2, b3, n2, qq, ee, aa, f1, f2, f3, hn2, _, hopen, hdata, hcnt, _, _, _⟩ :=
    (procRead_ok s1 s2 c' rargs o cntR eof rdata hr).ex
  rw [hr1] at f1
  simp only [Option.some.injEq, Prod.mk.injEq] at f1
  obtain ⟨rfl, rfl⟩ := f1
  rw [hr2] at f2
  simp only [Option.some.injEq, Prod.mk.injEq] at f2
  obtain ⟨rfl, rfl⟩ := f2
  rw [hr3] at f3
  simp only [Option.some.injEq, Prod.mk.injEq] at f3
  obtain ⟨rfl, rfl⟩ := f3
  obtain ⟨n1, hn1, hp1⟩ := hkeep hd n hn
  rw [hn1] at hn2
  simp only [Option.some.injEq] at hn2
  subst hn2
  rw [hp1, hfs1] at hopen
  have hfol0 : Fs.followFrom s.fs 9 (fsPath n.path) = (fsPath n.path, .ok e0) := Fs.follow_of_walk_nonlink hwe0 hnl0
  have hfolnew := Fs.followFrom_set_target hinv.wf (q := fsPath n.path) (e := e0) (e' := { e0 with data := Fs.writeBytes e0.data off data }) rfl hnl0 9 _ hfol0
  unfold Fs.openRead Fs.follow at hopen
  rw [hfolnew] at hopen
  simp only [Except.ok.injEq, Prod.mk.injEq] at hopen
  obtain ⟨_, rfl⟩ := hopen
  -- sizes
  have hsize : (Fs.infoOf { e0 with data := Fs.writeBytes e0.data off data }).size = max e0.data.length (off + data.length) := by
    unfold Fs.infoOf
    simp only
    cases hkd : e0.kind with
    | dir => exact absurd hkd hnd
    | file => simp [Fs.writeBytes_length e0.data off data hdne]
    | link => exact absurd hkd hnl0
  rw [hsize, hcfg] at hdata
  have hdl : data.length = cnt := (take?_some d6).2
  have hkt : ¬ k > s.cfg.transfer := by omega
  have hnot : ¬ max e0.data.length (off + data.length) ≤ off := by omega
  simp only [hnot, if_false, hkt] at hdata
  have hmin : min k (max e0.data.length (off + data.length) - off) = data.length := by omega
  rw [hmin] at hdata
  rw [hdata, Fs.slice_writeBytes_self e0.data off data hdne]
  exact ⟨rfl, by rw [hcnt, hdata, Fs.slice_writeBytes_self e0.data off data hdne]⟩

/-- SETATTR with a sattrguard3 (the model refuses every guard: the harness only sends ctimes the object does not have)
    leaves the backend untouched and does not answer NFS3_OK -/
theorem procSetattr_guarded (s : St) (c : Ctx) (args : Bytes) (h : Nat) (r1 r2 r3 : Bytes) (sa : Sattr3) (guard : Nat)
    (h1 : decFh' s args = some (h, r1)) (h2 : decSattr3 r1 = some (sa, r2)) (h3 : decU32 r2 = some (guard, r3))
    (hg : guard ≠ 0) :
    (procSetattr s c args).1.fs = s.fs ∧ ∃ st b, (procSetattr s c args).2 = res st b ∧ st ≠ 0 := by
  unfold procSetattr
  split
  · exact ⟨rfl, 30, _, rfl, by decide⟩
  · rw [h1]
    simp only [h2, h3]
    split
    · exact ⟨rfl, 4, _, rfl, by decide⟩
    · split
      · exact ⟨rfl, 22, _, rfl, by decide⟩
      · split
        · exact ⟨rfl, 70, _, rfl, by decide⟩
        · rename_i n hn
          split
          · rename_i s1 st hga
            exact ⟨getAttr_fs' hga, _, _, rfl, mapErrno_ne_zero st⟩
          · rename_i s1 pre hga
            exact ⟨getAttr_fs' hga, 10002, _, rfl, by decide⟩

end Server
end Absnfs
