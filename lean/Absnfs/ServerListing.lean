/-
  ServerListing: what ReadDir returns when no directory cache is configured (C26 / C02): for a handle whose path
  is a directory of the backend, the nodes are exactly the directory's entries in name order — every child whose
  name the listing loop accepts, each once, none invented.
-/
import Absnfs.ServerHandles
import Absnfs.ServerFailed
import Absnfs.ServerDir
namespace Absnfs
namespace Server

/-- the names the listing loop keeps: not ".", "..", "", without '/' or '\', and sanitizePath accepts them -/
def listable (dir n : Bytes) : Bool :=
  !(decide (n = [46] ∨ n = [46, 46] ∨ n = [] ∨ n.contains 47 ∨ n.contains 92)) && (sanitize dir n).isSome

/-- Lookup-by-name over a coherent cache returns a node for exactly the listable names that exist -/
theorem lookupEach_all (s : St) (now : Nat) (dir : Bytes) (names : List Bytes) (hI : CInv s) (hd : CleanPath dir)
    (hex : ∀ n ∈ names, listable dir n = true → ∃ i, Fs.lstat s.fs (fsPath (joinName dir n)) = .ok i) :
    (lookupEach s now dir names).2.map (·.path) = (names.filter (listable dir)).map (joinName dir) := by
  induction names generalizing s with
  | nil => simp [lookupEach]
  | cons x xs ih =>
    have hxs : ∀ (s1 : St), s1.fs = s.fs → ∀ n ∈ xs, listable dir n = true → ∃ i, Fs.lstat s1.fs (fsPath (joinName dir n)) = .ok i := by
      intro s1 hfs n hn hl; rw [hfs]; exact hex n (List.mem_cons_of_mem _ hn) hl
    unfold lookupEach
    split
    · rename_i hskip
      have : listable dir x = false := by
        unfold listable; simp only [Bool.and_eq_false_imp, Bool.not_eq_true', decide_eq_false_iff_not]
        intro hc; exact absurd hskip hc
      rw [List.filter_cons_of_neg (by simp [this])]
      exact ih s hI (hxs s rfl)
    · rename_i hskip
      split
      · rename_i hsan
        have : listable dir x = false := by unfold listable; simp [hsan]
        rw [List.filter_cons_of_neg (by simp [this])]
        exact ih s hI (hxs s rfl)
      · rename_i p hsan
        have hl : listable dir x = true := by
          unfold listable
          simp only [hsan, Option.isSome_some, Bool.and_true, Bool.not_eq_true', decide_eq_false_iff_not]
          exact hskip
        have hpe := sanitize_some hsan
        have hns : NoSep x := by
          simp only [not_or] at hskip
          refine ⟨hskip.2.2.1, ?_, hskip.1, hskip.2.1⟩
          intro h47; exact hskip.2.2.2.1 (by simpa using h47)
        have hpc : CleanPath p := by rw [hpe]; exact .child dir x hd hns
        obtain ⟨i, hi⟩ := hex x (List.mem_cons_self ..) hl
        rw [List.filter_cons_of_pos (by simp [hl])]
        split
        · rename_i s1 e heq
          exact absurd heq (fun heq => lookupPath_not_error hI.coh (cleanPath_ne_nil hpc) (by rw [hpe]; exact hi) heq)
        · rename_i s1 node heq
          simp only [List.map_cons]
          have h1 : CInv s1 := lookupPath_cinv' heq hI hpc
          rw [ih s1 h1 (hxs s1 (lookupPath_fs' heq)), lookupPath_path heq, hpe]

/-- a child listed by the backend exists -/
theorem child_exists {fs : Fs.T} (hw : Fs.WF fs) {q : Fs.Path} {n : Fs.Name} {x : Fs.Entry}
    (h : (n, x) ∈ Fs.children fs q) : ∃ i, Fs.lstat fs (q ++ [n]) = .ok i := by
  unfold Fs.children at h
  simp only [List.mem_filterMap] at h
  obtain ⟨⟨path, e⟩, hmem, hsome⟩ := h
  simp only at hsome
  split at hsome
  · rename_i hc
    simp only [Option.some.injEq, Prod.mk.injEq] at hsome
    have hpath : path = q ++ [n] := by
      have hne : path ≠ [] := by intro h0; rw [h0] at hc; simp at hc
      have := List.take_append_drop q.length path
      have hdrop : path.drop q.length = [path.getLast!] := by
        have hlen : (path.drop q.length).length = 1 := by simp [hc.1]
        match hd : path.drop q.length, hlen with
        | [y], _ =>
          have : path.getLast! = y := by
            have h2 : path = path.take q.length ++ [y] := by rw [← hd]; exact this.symm
            rw [h2]; simp
          rw [this]
      rw [← this, hc.2, hdrop, hsome.1]
    have hfind : ∃ e', Fs.get fs (q ++ [n]) = some e' := by
      unfold Fs.get
      cases hf : fs.ents.find? (·.1 == q ++ [n]) with
      | some y => exact ⟨y.2, by simp⟩
      | none =>
        exfalso
        have := List.find?_eq_none.mp hf (path, e) hmem
        simp [hpath] at this
    obtain ⟨e', he'⟩ := hfind
    refine ⟨Fs.infoOf e', ?_⟩
    unfold Fs.lstat
    rw [Fs.walk_eq_of_get hw he']; rfl
  · simp at hsome

theorem sortByName_mem {l : List (Fs.Name × Fs.Entry)} {y : Fs.Name × Fs.Entry} (h : y ∈ Fs.sortByName l) : y ∈ l := by
  induction l with
  | nil => simp [Fs.sortByName] at h
  | cons a as ih =>
    have key : ∀ (acc : List (Fs.Name × Fs.Entry)) (z : Fs.Name × Fs.Entry), z ∈ Fs.insertSorted a acc → z = a ∨ z ∈ acc := by
      intro acc z hz
      induction acc with
      | nil => simp [Fs.insertSorted] at hz; exact Or.inl hz
      | cons b bs ihb =>
        unfold Fs.insertSorted at hz
        split at hz
        · simp only [List.mem_cons] at hz
          rcases hz with h1 | h1 | h1
          · exact Or.inl h1
          · exact Or.inr (by simp [h1])
          · exact Or.inr (by simp [h1])
        · simp only [List.mem_cons] at hz
          rcases hz with h1 | h1
          · exact Or.inr (by simp [h1])
          · rcases ihb h1 with h2 | h2
            · exact Or.inl h2
            · exact Or.inr (by simp [h2])
    have : Fs.sortByName (a :: as) = Fs.insertSorted a (Fs.sortByName as) := rfl
    rw [this] at h
    rcases key _ _ h with h1 | h1
    · simp [h1]
    · exact List.mem_cons_of_mem _ (ih h1)

/-- no entry for the key: Get misses -/
theorem Lru_get_miss {V : Type} (c : Lru.Cache V) (now : Nat) (k : Bytes) (h : k ∉ Lru.keys c) : (Lru.get c now k).2 = .miss := by
  have hl : Lru.lookup c k = none := by
    unfold Lru.lookup
    rw [List.find?_eq_none]
    intro e he hk
    apply h
    simp only [Lru.keys, List.mem_map]
    exact ⟨e, he, by simpa using hk⟩
  unfold Lru.get Lru.getRead
  simp [hl]

/-- the directory cache has no entry for the path (or there is no directory cache) -/
def DcColdD (d : Option (Lru.Cache (List Bytes))) (p : Bytes) : Prop := ∀ c, d = some c → p ∉ Lru.keys c
def DcCold (s : St) (p : Bytes) : Prop := DcColdD s.dc p

theorem coldD_invalidate_self {d : Option (Lru.Cache (List Bytes))} (h : DcI d) (p : Bytes) :
    DcColdD (d.map fun c => Lru.invalidate c p) p := by
  intro c hc
  cases hd : d with
  | none => rw [hd] at hc; simp at hc
  | some c0 =>
    rw [hd] at hc
    simp only [Option.map_some, Option.some.injEq] at hc
    rw [← hc]
    have hInv := h c0 hd
    simp only [Lru.invalidate, Lru.keys, Lru.keys_removeKey]
    intro hmem
    exact ((List.Nodup.mem_erase_iff hInv.nodup).mp hmem).1 rfl

theorem coldD_invalidate {d : Option (Lru.Cache (List Bytes))} {p : Bytes} (h : DcColdD d p) (q : Bytes) :
    DcColdD (d.map fun c => Lru.invalidate c q) p := by
  intro c hc
  cases hd : d with
  | none => rw [hd] at hc; simp at hc
  | some c0 =>
    rw [hd] at hc
    simp only [Option.map_some, Option.some.injEq] at hc
    rw [← hc]
    simp only [Lru.invalidate, Lru.keys, Lru.keys_removeKey]
    intro hmem
    exact h c0 hd (List.mem_of_mem_erase hmem)

theorem coldD_invalidatePrefix {d : Option (Lru.Cache (List Bytes))} {p : Bytes} (h : DcColdD d p) (q : Bytes) :
    DcColdD (d.map fun c => Lru.invalidatePrefix c q) p := by
  intro c hc
  cases hd : d with
  | none => rw [hd] at hc; simp at hc
  | some c0 =>
    rw [hd] at hc
    simp only [Option.map_some, Option.some.injEq] at hc
    rw [← hc]
    simp only [Lru.invalidatePrefix, Lru.keys, List.mem_map, List.mem_filter]
    rintro ⟨e, ⟨he, _⟩, hk⟩
    exact h c0 hd (List.mem_map.mpr ⟨e, he, hk⟩)

/-- READDIR's source when the directory cache cannot answer (none configured, or no entry for the directory — in
    particular right after any invalidation of it): for a handle whose path is a directory of the backend, the
    nodes are the backend's entries in name order, restricted to the names the listing loop accepts -/
theorem readDir_lists_backend (s : St) (now : Nat) (d : Node) (nodes : List Node) (hI : CInv s) (hcold : DcCold s d.path)
    (hd : CleanPath d.path) (e : Fs.Entry) (hwalk : Fs.walk s.fs (fsPath d.path) = .ok e) (hk : e.kind = .dir)
    (h : (readDir s now d).2 = .ok nodes) :
    nodes.map (·.path) =
      ((((Fs.sortByName (Fs.children s.fs (fsPath d.path))).map (·.1)).filter (listable d.path)).map (joinName d.path)) := by
  have hfollow : Fs.follow s.fs (fsPath d.path) = (fsPath d.path, .ok e) := by
    unfold Fs.follow Fs.followFrom
    rw [hwalk]
    simp [hk]
  unfold readDir at h
  have key : ∀ S : St, CInv S → S.fs = s.fs →
      (lookupEach S now d.path ((Fs.sortByName (Fs.children s.fs (fsPath d.path))).map (·.1))).2.map (·.path) =
      ((((Fs.sortByName (Fs.children s.fs (fsPath d.path))).map (·.1)).filter (listable d.path)).map (joinName d.path)) := by
    intro S hS hfs
    refine lookupEach_all S now d.path _ hS hd ?_
    intro n hn hl
    simp only [List.mem_map] at hn
    obtain ⟨y, hy, hyn⟩ := hn
    have hmem := sortByName_mem hy
    have hns : NoSep n := by
      unfold listable at hl
      simp only [Bool.and_eq_true, Bool.not_eq_true', decide_eq_false_iff_not, not_or] at hl
      refine ⟨hl.1.2.2.1, ?_, hl.1.1, hl.1.2.1⟩
      intro h47; exact hl.1.2.2.2.1 (by simpa using h47)
    rw [fsPath_joinName d.path n hns, hfs]
    have : (n, y.2) ∈ Fs.children s.fs (fsPath d.path) := by rw [← hyn]; exact hmem
    exact child_exists hI.wf this
  simp only at h
  split at h
  · rename_i s1 names heq
    exfalso
    split at heq
    · simp at heq
    · rename_i c0 hc0
      have hm := Lru_get_miss c0 now d.path (hcold c0 hc0)
      split at heq
      · rename_i c1 nm hget
        rw [hget] at hm; simp at hm
      · simp at heq
  · unfold Fs.readdir at h
    simp only [hfollow, hk] at h
    simp only [ne_eq, not_true_eq_false, if_false, Except.ok.injEq] at h
    rw [← h]
    have hnames : ((Fs.sortByName (Fs.children s.fs (fsPath d.path))).map fun x => (x.1, Fs.infoOf x.2)).map (·.1) =
        (Fs.sortByName (Fs.children s.fs (fsPath d.path))).map (·.1) := by
      simp [List.map_map, Function.comp_def]
    simp only [hnames]
    exact key _ (cinv_congr hI rfl rfl rfl rfl ((hI.dci.map_get now d.path).map_putIf _ now d.path _)) rfl

/-- an invalidation leaves no entry for the path -/
theorem dcCold_of_invalidated {s s' : St} (hI : CInv s) (p : Bytes)
    (h : s'.dc = s.dc.map fun c => Lru.invalidate c p) : DcCold s' p := by
  unfold DcCold; rw [h]; exact coldD_invalidate_self hI.dci p

/-! ### what the object-creating procedures do to the directory cache: exactly the parent's listing is dropped -/

theorem lookupPath_dc (s : St) (now : Nat) (p : Bytes) : (lookupPath s now p).1.dc = s.dc := by
  unfold lookupPath
  split
  · rfl
  · simp only
    split
    · rfl
    · rfl
    · split
      · split <;> rfl
      · rfl

theorem lookupPath_dc' {s s' : St} {now : Nat} {p : Bytes} {r : Except Fs.Errno Node} (h : lookupPath s now p = (s', r)) : s'.dc = s.dc := by
  have := lookupPath_dc s now p; rw [h] at this; exact this

theorem getAttr_dc' {s s' : St} {now : Nat} {n : Node} {r : Except Fs.Errno Attrs} (h : getAttr s now n = (s', r)) : s'.dc = s.dc := by
  have := getAttr_only_ac s now n
  rw [h] at this
  simp only at this
  rw [this]

theorem chownQuiet_dc (s : St) (p : Bytes) (u g : Nat) : (chownQuiet s p u g).dc = s.dc := by
  unfold chownQuiet; split <;> rfl

theorem lchownQuiet_dc (s : St) (p : Bytes) (u g : Nat) : (lchownQuiet s p u g).dc = s.dc := by
  unfold lchownQuiet; split <;> rfl

/-- MKDIR answered NFS3_OK: the directory cache afterwards is the old one without the parent's listing -/
theorem procMkdir_dc (s s' : St) (c : Ctx) (args : Bytes) (fh : Nat) (fa : Rfc.Fattr) (w : Rfc.Wcc)
    (h : procMkdir s c args = (s', CreatedOk fh fa w)) :
    ∃ hd r1 n, decFh' s args = some (hd, r1) ∧ nodeOf s hd = some n ∧
      s'.dc = s.dc.map fun c => Lru.invalidate c n.path := by
  unfold procMkdir at h
  split at h
  · simp [res] at h
  · split at h
    · simp [res] at h
    · rename_i hd r1 hfh
      split at h
      · simp [res] at h
      · split at h
        · simp [res] at h
        · split at h
          · simp [res] at h
          · simp only at h
            split at h
            · simp [res] at h
            · split at h
              · simp [res] at h
              · rename_i n hn
                split at h
                · simp [res] at h
                · rename_i s1 pre heq
                  split at h
                  · simp [res] at h
                  · rename_i fs1 hmk
                    split at h
                    · simp [res] at h
                    · rename_i s4 node hl
                      split at h
                      · simp [res] at h
                      · rename_i s5 post hg
                        simp only [res, Prod.mk.injEq] at h
                        refine ⟨hd, r1, n, hfh, hn, ?_⟩
                        rw [← h.1]
                        show s5.dc = _
                        rw [getAttr_dc' hg, lookupPath_dc' hl, chownQuiet_dc]
                        show (s1.dc.map fun c => Lru.invalidate c n.path) = _
                        rw [getAttr_dc' heq]

/-- C02 (directory cache, MKDIR): after an NFS3_OK MKDIR in a directory, the next listing of that directory is
    read from the backend — the cache has no entry left that could hide the new name -/
theorem mkdir_then_listing_is_backend (s s' : St) (c : Ctx) (args : Bytes) (fh : Nat) (fa : Rfc.Fattr) (w : Rfc.Wcc)
    (hI : CInv s) (h : procMkdir s c args = (s', CreatedOk fh fa w)) :
    ∃ hd r1 n, decFh' s args = some (hd, r1) ∧ nodeOf s hd = some n ∧ DcCold s' n.path := by
  obtain ⟨hd, r1, n, h1, h2, h3⟩ := procMkdir_dc s s' c args fh fa w h
  exact ⟨hd, r1, n, h1, h2, dcCold_of_invalidated hI n.path h3⟩


theorem getAttrOr_dc' {s s' : St} {now : Nat} {n : Node} {d a : Attrs} (h : getAttrOr s now n d = (s', a)) : s'.dc = s.dc := by
  unfold getAttrOr at h
  split at h
  · rename_i s1 a1 hg
    simp only [Prod.mk.injEq] at h; rw [← h.1]; exact getAttr_dc' hg
  · rename_i s1 e1 hg
    simp only [Prod.mk.injEq] at h; rw [← h.1]; exact getAttr_dc' hg

/-- REMOVE answered NFS3_OK: the parent's listing is gone from the directory cache -/
theorem remove_then_listing_is_backend (s s' : St) (c : Ctx) (args : Bytes) (w : Rfc.Wcc) (hI : CInv s)
    (h : procRemove s c args = (s', .res ⟨0, .wcc w⟩)) :
    ∃ hd r1 n, decFh' s args = some (hd, r1) ∧ nodeOf s hd = some n ∧ DcCold s' n.path := by
  unfold procRemove at h
  split at h
  · simp [res] at h
  · split at h
    · simp [res] at h
    · rename_i hd r1 hfh
      split at h
      · simp [res] at h
      · split at h
        · rename_i hv
          simp only [res, Prod.mk.injEq, Outcome.res.injEq, Rfc.Res.mk.injEq] at h
          exact absurd h.2.1 hv
        · split at h
          · simp [res] at h
          · rename_i n hn
            split at h
            · simp [res] at h
            · split at h
              · rename_i s1 st hg
                simp only [res, Prod.mk.injEq, Outcome.res.injEq, Rfc.Res.mk.injEq] at h
                exact absurd h.2.1 (mapErrno_ne_zero st)
              · rename_i s1 pre hg
                split at h
                · rename_i e hro
                  simp only [res, Prod.mk.injEq, Outcome.res.injEq, Rfc.Res.mk.injEq] at h
                  exact absurd h.2.1 (mapErrno_ne_zero e)
                · rename_i s2 hro
                  split at h
                  · rename_i s3 st hg3
                    simp only [res, Prod.mk.injEq, Outcome.res.injEq, Rfc.Res.mk.injEq] at h
                    exact absurd h.2.1 (mapErrno_ne_zero st)
                  · rename_i s3 post hg3
                    simp only [res, Prod.mk.injEq] at h
                    refine ⟨hd, r1, n, hfh, hn, ?_⟩
                    unfold DcCold
                    rw [← h.1, getAttr_dc' hg3]
                    unfold removeOp at hro
                    split at hro
                    · simp at hro
                    · split at hro
                      · simp at hro
                      · simp only [Except.ok.injEq] at hro
                        rw [← hro]
                        show DcColdD (s1.dc.map fun c => Lru.invalidate c n.path) n.path
                        rw [getAttr_dc' hg]
                        exact coldD_invalidate_self hI.dci n.path

/-- RMDIR answered NFS3_OK: the parent's listing is gone from the directory cache -/
theorem rmdir_then_listing_is_backend (s s' : St) (c : Ctx) (args : Bytes) (w : Rfc.Wcc) (hI : CInv s)
    (h : procRmdir s c args = (s', .res ⟨0, .wcc w⟩)) :
    ∃ hd r1 n, decFh' s args = some (hd, r1) ∧ nodeOf s hd = some n ∧ DcCold s' n.path := by
  unfold procRmdir at h
  split at h
  · simp [res] at h
  · split at h
    · simp [res] at h
    · rename_i hd r1 hfh
      split at h
      · simp [res] at h
      · split at h
        · simp [res] at h
        · split at h
          · simp [res] at h
          · rename_i n hn
            split at h
            · simp [res] at h
            · split at h
              · rename_i s1 st hg
                simp only [res, Prod.mk.injEq, Outcome.res.injEq, Rfc.Res.mk.injEq] at h
                exact absurd h.2.1 (mapErrno_ne_zero st)
              · rename_i s1 pre hg
                simp only at h
                split at h
                · simp [res] at h
                · split at h
                  · simp [res] at h
                  · split at h
                    · rename_i e hrm
                      simp only [res, Prod.mk.injEq, Outcome.res.injEq, Rfc.Res.mk.injEq] at h
                      exfalso
                      have h0 := h.2.1
                      split at h0
                      · simp at h0
                      · split at h0
                        · simp at h0
                        · exact mapErrno_ne_zero e h0
                    · rename_i fs1 hrm
                      split at h
                      · rename_i s3 st hg3
                        simp only [res, Prod.mk.injEq, Outcome.res.injEq, Rfc.Res.mk.injEq] at h
                        exact absurd h.2.1 (mapErrno_ne_zero st)
                      · rename_i s3 post hg3
                        simp only [res, Prod.mk.injEq] at h
                        refine ⟨hd, r1, n, hfh, hn, ?_⟩
                        unfold DcCold
                        rw [← h.1, getAttr_dc' hg3]
                        show DcColdD ((s1.dc.map fun c => Lru.invalidate c n.path).map fun c => Lru.invalidate c (joinName n.path _)) n.path
                        rw [getAttr_dc' hg]
                        exact coldD_invalidate (coldD_invalidate_self hI.dci n.path) _


/-- RENAME answered NFS3_OK: the listings of both parent directories are gone from the directory cache -/
theorem rename_then_listings_are_backend (s s' : St) (c : Ctx) (args : Bytes) (w1 w2 : Rfc.Wcc) (hI : CInv s)
    (h : procRename s c args = (s', .res ⟨0, .wcc2 w1 w2⟩)) :
    ∃ h1 r1 n1 r2 h2 r3 d1 d2, decFh' s args = some (h1, r1) ∧ decStr s r1 = some (n1, r2) ∧ decFh' s r2 = some (h2, r3) ∧
      nodeOf s h1 = some d1 ∧ nodeOf s h2 = some d2 ∧ DcCold s' d1.path ∧ DcCold s' d2.path := by
  unfold procRename at h
  split at h
  · simp [res] at h
  · split at h
    · simp [res] at h
    · rename_i h1 r1 hfh1
      split at h
      · simp [res] at h
      · rename_i n1 r2 hs1
        split at h
        · rename_i hv
          simp only [res, Prod.mk.injEq, Outcome.res.injEq, Rfc.Res.mk.injEq] at h
          exact absurd h.2.1 hv
        · split at h
          · simp [res] at h
          · rename_i h2 r3 hfh2
            split at h
            · simp [res] at h
            · split at h
              · rename_i hv
                simp only [res, Prod.mk.injEq, Outcome.res.injEq, Rfc.Res.mk.injEq] at h
                exact absurd h.2.1 hv
              · split at h
                · simp [res] at h
                · rename_i d1 hd1
                  split at h
                  · simp [res] at h
                  · rename_i d2 hd2
                    split at h
                    · rename_i s1 st hg
                      simp only [res, Prod.mk.injEq, Outcome.res.injEq, Rfc.Res.mk.injEq] at h
                      exact absurd h.2.1 (mapErrno_ne_zero st)
                    · rename_i s1 pre1 hg1
                      split at h
                      · rename_i s2 st hg
                        simp only [res, Prod.mk.injEq, Outcome.res.injEq, Rfc.Res.mk.injEq] at h
                        exact absurd h.2.1 (mapErrno_ne_zero st)
                      · rename_i s2 pre2 hg2
                        split at h
                        · rename_i e hro
                          simp only [res, Prod.mk.injEq, Outcome.res.injEq, Rfc.Res.mk.injEq] at h
                          exact absurd h.2.1 (mapErrno_ne_zero e)
                        · rename_i s3 hro
                          split at h
                          · rename_i s4 st hg
                            simp only [res, Prod.mk.injEq, Outcome.res.injEq, Rfc.Res.mk.injEq] at h
                            exact absurd h.2.1 (mapErrno_ne_zero st)
                          · rename_i s4 post1 hg4
                            split at h
                            · rename_i s5 st hg
                              simp only [res, Prod.mk.injEq, Outcome.res.injEq, Rfc.Res.mk.injEq] at h
                              exact absurd h.2.1 (mapErrno_ne_zero st)
                            · rename_i s5 post2 hg5
                              simp only [res, Prod.mk.injEq] at h
                              have hdc : s'.dc = s3.dc := by rw [← h.1, getAttr_dc' hg5, getAttr_dc' hg4]
                              have h2dc : s2.dc = s.dc := by rw [getAttr_dc' hg2, getAttr_dc' hg1]
                              refine ⟨h1, r1, n1, r2, h2, r3, d1, d2, hfh1, hs1, hfh2, hd1, hd2, ?_, ?_⟩
                              all_goals
                                unfold DcCold
                                rw [hdc]
                                unfold renameOp at hro
                                split at hro
                                · split at hro
                                  · simp at hro
                                  · simp only [Except.ok.injEq] at hro
                                    rw [← hro]
                                    show DcColdD ((((s2.dc.map fun c => Lru.invalidate c d1.path).map fun c => Lru.invalidate c d2.path).map
                                      fun c => Lru.invalidatePrefix c _).map fun c => Lru.invalidatePrefix c _) _
                                    rw [h2dc]
                                    apply coldD_invalidatePrefix
                                    apply coldD_invalidatePrefix
                                    first
                                      | exact coldD_invalidate_self (hI.dci.map_invalidate d1.path) d2.path
                                      | exact coldD_invalidate (coldD_invalidate_self hI.dci d1.path) d2.path
                                · simp at hro


theorem symlinkOp_dc {s s' : St} {now : Nat} {dir : Node} {name target : Bytes} {node : Node}
    (h : symlinkOp s now dir name target = (s', .ok node)) : s'.dc = s.dc.map fun c => Lru.invalidate c dir.path := by
  unfold symlinkOp at h
  split at h
  · simp at h
  · split at h
    · simp at h
    · rw [lookupPath_dc' h]; rfl

theorem createOp_dc {s s' : St} {now : Nat} {dir : Node} {name : Bytes} {perm : Nat} {node : Node}
    (h : createOp s now dir name perm = (s', .ok node)) : s'.dc = s.dc.map fun c => Lru.invalidate c dir.path := by
  unfold createOp at h
  split at h
  · simp at h
  · split at h
    · simp at h
    · split at h
      · simp at h
      · rw [lookupPath_dc' h]; rfl

/-- SYMLINK answered NFS3_OK: the parent's listing is gone from the directory cache -/
theorem symlink_then_listing_is_backend (s s' : St) (c : Ctx) (args : Bytes) (fh : Nat) (fa : Rfc.Fattr) (w : Rfc.Wcc)
    (hI : CInv s) (h : procSymlink s c args = (s', CreatedOk fh fa w)) :
    ∃ hd r1 n, decFh' s args = some (hd, r1) ∧ nodeOf s hd = some n ∧ DcCold s' n.path := by
  unfold procSymlink at h
  split at h
  · simp [res] at h
  · split at h
    · simp [res] at h
    · rename_i hd r1 hfh
      split at h
      · simp [res] at h
      · split at h
        · simp [res] at h
        · split at h
          · simp [res] at h
          · split at h
            · simp [res] at h
            · split at h
              · simp [res] at h
              · split at h
                · simp [res] at h
                · split at h
                  · simp [res] at h
                  · split at h
                    · simp [res] at h
                    · rename_i n hn
                      split at h
                      · simp [res] at h
                      · rename_i s1 pre heq
                        split at h
                        · simp [res] at h
                        · rename_i s2 node hso
                          simp only at h
                          split at h
                          · simp [res] at h
                          · rename_i s4 post hg
                            simp only [res, Prod.mk.injEq] at h
                            refine ⟨hd, r1, n, hfh, hn, ?_⟩
                            unfold DcCold
                            rw [← h.1]
                            show DcColdD s4.dc n.path
                            rw [getAttr_dc' hg, lchownQuiet_dc, symlinkOp_dc hso, getAttr_dc' heq]
                            exact coldD_invalidate_self hI.dci n.path

/-- CREATE of a new name answered NFS3_OK: the parent's listing is gone from the directory cache -/
theorem createNew_dcCold (s1 s' : St) (c : Ctx) (n : Node) (pre : Attrs) (name : Bytes) (mode how : Nat) (sa : Sattr3) (verf : Bytes)
    (hdci : DcI s1.dc) (fh : Nat) (fa : Rfc.Fattr) (w : Rfc.Wcc)
    (h : createNew s1 c n pre name mode how sa verf = (s', CreatedOk fh fa w)) : DcCold s' n.path := by
  unfold createNew at h
  split at h
  · simp [res] at h
  · rename_i s2 node hco
    simp only at h
    split at h
    · simp [res] at h
    · rename_i s5 post hg
      simp only [res, Prod.mk.injEq] at h
      unfold DcCold
      rw [← h.1]
      show DcColdD s5.dc n.path
      rw [getAttr_dc' hg, chownQuiet_dc]
      have : (if how = 2 then rememberExclusive s2 node.path verf else s2).dc = s2.dc := by split <;> rfl
      rw [this, createOp_dc hco]
      exact coldD_invalidate_self hdci n.path

theorem create_then_listing_is_backend (s s' : St) (c : Ctx) (args : Bytes) (fh : Nat) (fa : Rfc.Fattr) (w : Rfc.Wcc)
    (hI : CInv s) (h : procCreate s c args = (s', CreatedOk fh fa w)) :
    ∃ hd r1 name r2 n, decFh' s args = some (hd, r1) ∧ decStr s r1 = some (name, r2) ∧ nodeOf s hd = some n ∧
      ((∃ err, Fs.lstat s.fs (fsPath (joinName n.path name)) = .error err) → DcCold s' n.path) := by
  unfold procCreate at h
  split at h
  · simp [res] at h
  · split at h
    · simp [res] at h
    · rename_i hd r1 hfh
      split at h
      · simp [res] at h
      · rename_i name r2 hname
        split at h
        · simp [res] at h
        · split at h
          · simp [res] at h
          · split at h
            · simp [res] at h
            · simp only at h
              split at h
              · simp [res] at h
              · split at h
                · simp [res] at h
                · rename_i n hn
                  split at h
                  · simp [res] at h
                  · rename_i s1 pre heq
                    have hfs : s1.fs = s.fs := getAttr_fs' heq
                    refine ⟨hd, r1, name, r2, n, hfh, hname, hn, ?_⟩
                    intro ⟨err, herr⟩
                    split at h
                    · rename_i info hinfo
                      rw [hfs, herr] at hinfo; simp at hinfo
                    · have hd1 : DcI s1.dc := by rw [getAttr_dc' heq]; exact hI.dci
                      exact createNew_dcCold s1 s' c n pre name _ _ _ _ hd1 fh fa w h


/-! ### end to end: a READDIR reply on a cold cache -/

theorem baseName_joinName (d name : Bytes) (hn : NoSep name) : baseName (joinName d name) = name := by
  obtain ⟨h1, h2, _, _⟩ := hn
  have key : ∀ x : Bytes, ((splitOnByte 47 (x ++ 47 :: name)).filter (· ≠ [])) = (splitOnByte 47 x).filter (· ≠ []) ++ [name] := by
    intro x
    rw [splitOnByte_append_sep, splitOnByte_noSep 47 name h2]
    simp [h1]
  have last : ∀ x : Bytes, baseName (x ++ 47 :: name) = name := by
    intro x
    unfold baseName
    rw [key x]
    cases hl : (splitOnByte 47 x).filter (· ≠ []) with
    | nil => simp
    | cons a as =>
      show (a :: (as ++ [name])).getLast! = name
      have : a :: (as ++ [name]) = (a :: as) ++ [name] := rfl
      rw [this, List.getLast!_eq_getLast?_getD, List.getLast?_append]
      simp
  unfold joinName
  split
  · have : (47 : UInt8) :: name = [] ++ 47 :: name := rfl
    rw [this]; exact last []
  · exact last d

theorem numbered_names (i : Nat) (l : List Node) : (numbered i l).map (·.name) = l.map fun n => baseName n.path := by
  induction l generalizing i with
  | nil => rfl
  | cons x xs ih => simp [numbered, ih]

/-- C26 / C02, one READDIR call seen from the wire: on a directory the cache has no listing of (none configured, or
    just invalidated by one of the server's own mutations), a call from cookie 0 that is answered NFS3_OK with eof
    carries exactly the names of the backend's directory that the listing loop accepts, in name order. -/
theorem procReaddir_cold_whole (s s' : St) (c : Ctx) (args : Bytes) (a : Option Rfc.Fattr) (verf : Bytes)
    (ents : List Rfc.DirEnt) (hI : CInv s) (hd : Nat) (r1 r2 : Bytes) (n : Node)
    (hfh : decFh' s args = some (hd, r1)) (hck : decU64 r1 = some (0, r2)) (hn : nodeOf s hd = some n)
    (hcold : DcCold s n.path) (e : Fs.Entry) (hwalk : Fs.walk s.fs (fsPath n.path) = .ok e) (hk : e.kind = .dir)
    (h : procReaddir s c args = (s', .res ⟨0, .readdirOk a verf ents true⟩)) :
    ents.map (·.name) = ((Fs.sortByName (Fs.children s.fs (fsPath n.path))).map (·.1)).filter (listable n.path) := by
  unfold procReaddir at h
  rw [hfh] at h
  simp only [hck] at h
  split at h
  · simp [res] at h
  · split at h
    · simp [res] at h
    · simp only [hn] at h
      split at h
      · simp [res] at h
      · split at h
        · simp [res] at h
        · rename_i s1 nodes hrd
          split at h
          · simp [res] at h
          · rename_i s2 at' hg
            try simp only at h
            split at h
            · simp [res] at h
            · rename_i ents' lim hfill
              simp only [res, Prod.mk.injEq, Outcome.res.injEq, Rfc.Res.mk.injEq, Rfc.Body.readdirOk.injEq, true_and] at h
              obtain ⟨_, _, _, hents, hlim⟩ := h
              have hcl := nodeOf_cleanI hI hn
              have hlist := readDir_lists_backend s c.now n nodes hI hcold hcl e hwalk hk (by rw [hrd])
              have hlimF : lim = false := by cases lim <;> simp_all
              generalize hL : (if _ < dirListHeader + dirListTrailer then minReaddirReply else _) = limit at hfill
              have hlim0 : dirListHeader + dirListTrailer ≤ limit := by
                rw [← hL]; split
                · decide
                · omega
              have hps := page_spec limit 0 nodes (Nat.zero_le _) hlim0
              unfold page at hps
              rw [hfill] at hps
              obtain ⟨k, hk1, hents', _, hall, _⟩ := hps
              have hk2 := hall hlimF
              simp only [List.drop_zero] at hk2 hents'
              rw [hk2, List.take_length] at hents'
              rw [← hents, hents', numbered_names]
              have hmm : nodes.map (fun n' => baseName n'.path) = (nodes.map (·.path)).map baseName := by
                simp [List.map_map, Function.comp_def]
              rw [hmm, hlist, List.map_map]
              have hid : ∀ x ∈ ((Fs.sortByName (Fs.children s.fs (fsPath n.path))).map (·.1)).filter (listable n.path),
                  (baseName ∘ joinName n.path) x = x := by
                intro x hx
                have hl := (List.mem_filter.mp hx).2
                have hns : NoSep x := by
                  unfold listable at hl
                  simp only [Bool.and_eq_true, Bool.not_eq_true', decide_eq_false_iff_not, not_or] at hl
                  refine ⟨hl.1.2.2.1, ?_, hl.1.1, hl.1.2.1⟩
                  intro h47; exact hl.1.2.2.2.1 (by simpa using h47)
                exact baseName_joinName n.path x hns
              rw [List.map_congr_left hid]
              simp

end Server
end Absnfs
