/-
  ServerHandles: the handle table inside the server (C05 at handler level). `CInv` carries the table's
  invariant (`Handles.Inv`), so for every state a server can reach: the handle a reply carries resolves, in the
  state the reply leaves behind, to the object the reply names; a live handle for a path is what a re-issue
  returns; the table is within its bound.
-/
import Absnfs.ServerInvProcs
namespace Absnfs
namespace Handles

/-- Allocate, any default and divisor: the returned id resolves to the path in the resulting table -/
theorem get_alloc (dm dv : Nat) (s : St) (p : Bytes) (hp : p ≠ []) (hI : Inv dm s) :
    get (alloc dm dv s p).1 (alloc dm dv s p).2 = some p := by
  unfold alloc
  rw [if_neg hp]
  split
  · rename_i h hh
    exact (get_eq_some_iff hI.idsNodup h p).mpr ((handleOf_eq_some_iff hI.pathsNodup h p).mp hh)
  · simp only
    split
    · simp only
      obtain ⟨rest', hr⟩ := evictN_head (evictCount (effMax dm s.maxRaw) dv) (pick s).1 p s.live
      simp [Handles.get, hr]
    · simp [Handles.get]

/-- a live handle for the path is what Allocate returns, and the table does not change -/
theorem alloc_live (dm dv : Nat) (s : St) (h : Nat) (p : Bytes) (hp : p ≠ []) (hI : Inv dm s) (hg : get s h = some p) :
    alloc dm dv s p = (s, h) := by
  have hm := (get_eq_some_iff hI.idsNodup h p).mp hg
  have hh := (handleOf_eq_some_iff hI.pathsNodup h p).mpr hm
  unfold alloc
  rw [if_neg hp, hh]


/-- with room in the table Allocate evicts nothing: every live handle still resolves to its path, the table grows by
    at most one entry, and the configured maximum stays -/
theorem alloc_room (dm dv : Nat) (s : St) (p : Bytes) (hp : p ≠ []) (hI : Inv dm s)
    (hroom : s.live.length + 1 ≤ effMax dm s.maxRaw) :
    (∀ h q, get s h = some q → get (alloc dm dv s p).1 h = some q) ∧
    (alloc dm dv s p).1.live.length ≤ s.live.length + 1 ∧ (alloc dm dv s p).1.maxRaw = s.maxRaw := by
  unfold alloc
  rw [if_neg hp]
  split
  · exact ⟨fun _ _ hg => hg, Nat.le_succ _, rfl⟩
  · simp only
    rw [if_neg (by simp only [List.length_cons]; omega)]
    refine ⟨?_, by simp, rfl⟩
    intro h q hg
    have hm := (get_eq_some_iff hI.idsNodup h q).mp hg
    have hne : (pick s).1 ≠ h := by
      intro he
      apply (pick_spec hI).1
      rw [he]
      exact List.mem_map_of_mem (f := (·.1)) hm
    simp only [get, List.find?_cons]
    have : ((pick s).1 == h) = false := by simpa using hne
    simp only [this]
    exact hg

end Handles

namespace Server

theorem nodeOf_getAttrOr (s : St) (now : Nat) (n : Node) (d : Attrs) (h : Nat) : nodeOf (getAttrOr s now n d).1 h = nodeOf s h := by
  unfold getAttrOr
  split
  · rename_i s1 a heq
    have := nodeOf_getAttr s now n h
    rw [heq] at this; exact this
  · rename_i s1 e heq
    have := nodeOf_getAttr s now n h
    rw [heq] at this; exact this

theorem lookupPath_nodes (s : St) (now : Nat) (p : Bytes) : (lookupPath s now p).1.nodes = s.nodes := by
  unfold lookupPath
  split
  · rfl
  · simp only
    split
    · rfl
    · rfl
    · split
      · split <;> rfl
      · rfl

/-- the handle `allocate` returns names the node it was given -/
theorem allocate_resolves (s : St) (n : Node) (h : CInv s) (hp : CleanPath n.path) :
    nodeOf (allocate s n).1 (allocate s n).2 = some n := by
  have hg := Handles.get_alloc s.cfg.defaultMaxHandles s.cfg.evictDivisor s.hs n.path (cleanPath_ne_nil hp) h.htab
  unfold nodeOf allocate setNode
  simp only
  rw [hg]
  simp

theorem allocate_resolves' {s s' : St} {n : Node} {fh : Nat} (heq : allocate s n = (s', fh)) (h : CInv s) (hp : CleanPath n.path) :
    nodeOf s' fh = some n := by
  have := allocate_resolves s n h hp
  rw [heq] at this; exact this

/-- re-issue: if a live handle already names the path, `allocate` returns that handle -/
theorem allocate_same (s : St) (n : Node) (h : CInv s) (hp : CleanPath n.path) (fh0 : Nat) (n0 : Node)
    (h0 : nodeOf s fh0 = some n0) (hpath : n0.path = n.path) : (allocate s n).2 = fh0 := by
  have hg : Handles.get s.hs fh0 = some n.path := by
    unfold nodeOf at h0
    split at h0
    · simp at h0
    · rename_i p hget
      simp only [Option.map_eq_some_iff] at h0
      obtain ⟨x, _, hx⟩ := h0
      rw [hget, ← hpath, ← hx]
  have := Handles.alloc_live s.cfg.defaultMaxHandles s.cfg.evictDivisor s.hs fh0 n.path (cleanPath_ne_nil hp) h.htab hg
  unfold allocate
  simp only
  rw [this]

/-- C05, LOOKUP: the handle in an NFS3_OK reply resolves — in the state the reply leaves behind, i.e. for the
    immediately following request — to dir-path/name, with the attributes the reply carried. -/
theorem procLookup_handle (s s' : St) (c : Ctx) (args : Bytes) (fh : Nat) (fa : Rfc.Fattr) (da : Option Rfc.Fattr)
    (hI : CInv s) (h : procLookup s c args = (s', .res ⟨0, .lookupOk fh (some fa) da⟩)) :
    ∃ hd r1 name r2 n a, decFh' s args = some (hd, r1) ∧ decStr s r1 = some (name, r2) ∧ nodeOf s hd = some n ∧
      nodeOf s' fh = some { path := joinName n.path name, attrs := a } ∧ fa = toFattr a := by
  unfold procLookup at h
  split at h
  · simp [res] at h
  · rename_i hd r1 hfh
    split at h
    · simp [res] at h
    · rename_i name r2 hname
      split at h
      · simp [res] at h
      · rename_i hv
        split at h
        · simp [res] at h
        · rename_i n hn
          split at h
          · simp [res, lookupDirAttr] at h
          · split at h
            · rename_i s1 st hl
              simp only [lookupDirAttr, res, Prod.mk.injEq, Outcome.res.injEq, Rfc.Res.mk.injEq] at h
              exact absurd h.2.2 (by simp)
            · rename_i s1 ln hl
              simp only [lookupDirAttr, res, Prod.mk.injEq, Outcome.res.injEq, Rfc.Res.mk.injEq, Rfc.Body.lookupOk.injEq,
                Option.some.injEq, true_and] at h
              have hv' : validateFilename name = 0 := by simpa using hv
              have hpc : CleanPath (joinName n.path name) := joinName_clean n.path name (nodeOf_cleanI hI hn) hv'
              have hp := lookupPath_path hl
              have h1 : CInv s1 := lookupPath_cinv' hl hI hpc
              have hres := allocate_resolves s1 ln h1 (by rw [hp]; exact hpc)
              refine ⟨hd, r1, name, r2, n, ln.attrs, hfh, hname, hn, ?_, h.2.2.1.symm⟩
              rw [← h.1, nodeOf_getAttrOr, ← h.2.1, hres, ← hp]

/-- C05, LOOKUP again while the handle is live: the same handle value comes back -/
theorem procLookup_same_handle (s s' : St) (c : Ctx) (args : Bytes) (fh : Nat) (fa : Option Rfc.Fattr) (da : Option Rfc.Fattr)
    (hI : CInv s) (h : procLookup s c args = (s', .res ⟨0, .lookupOk fh fa da⟩))
    (hd : Nat) (r1 name r2 : Bytes) (n : Node) (hfh : decFh' s args = some (hd, r1)) (hname : decStr s r1 = some (name, r2))
    (hn : nodeOf s hd = some n) (fh0 : Nat) (n0 : Node) (h0 : nodeOf s fh0 = some n0) (hpath : n0.path = joinName n.path name) :
    fh = fh0 := by
  unfold procLookup at h
  rw [hfh] at h
  simp only [hname, hn] at h
  split at h
  · simp [res] at h
  · rename_i hv
    split at h
    · simp [res, lookupDirAttr] at h
    · split at h
      · rename_i s1 st hl
        simp only [lookupDirAttr, res, Prod.mk.injEq, Outcome.res.injEq, Rfc.Res.mk.injEq] at h
        exact absurd h.2.2 (by simp)
      · rename_i s1 ln hl
        simp only [lookupDirAttr, res, Prod.mk.injEq, Outcome.res.injEq, Rfc.Res.mk.injEq, Rfc.Body.lookupOk.injEq, true_and] at h
        have hv' : validateFilename name = 0 := by simpa using hv
        have hpc : CleanPath (joinName n.path name) := joinName_clean n.path name (nodeOf_cleanI hI hn) hv'
        have hp := lookupPath_path hl
        have h1 : CInv s1 := lookupPath_cinv' hl hI hpc
        have h0' : nodeOf s1 fh0 = some n0 := by
          have : s1.hs = s.hs ∧ s1.nodes = s.nodes := by
            have a := lookupPath_hs s c.now (joinName n.path name)
            have b := lookupPath_nodes s c.now (joinName n.path name)
            rw [hl] at a b; exact ⟨a, b⟩
          unfold nodeOf; rw [this.1, this.2]; exact h0
        have := allocate_same s1 ln h1 (by rw [hp]; exact hpc) fh0 n0 h0' (by rw [hp]; exact hpath)
        rw [← h.2.1]; exact this

/-- C05, MNT: the handle in the reply resolves to the cleaned path that was mounted -/
theorem procMnt_handle (s s' : St) (c : Ctx) (args : Bytes) (fhb : Bytes) (auth : List Nat) (hI : CInv s)
    (h : procMnt s c args = (s', .res ⟨0, .mntOk fhb auth⟩)) :
    ∃ raw r fh a, decStr s args = some (raw, r) ∧ fhb = encU64 fh ∧ nodeOf s' fh = some { path := cleanAbs raw, attrs := a } := by
  unfold procMnt at h
  split at h
  · simp at h
  · rename_i raw r hraw
    split at h
    · simp [res] at h
    · simp only at h
      generalize (if cleanAbs raw = [47] then 0 else firstBadComponent _) = bad at h
      split at h
      · rename_i hb
        simp only [res, Prod.mk.injEq, Outcome.res.injEq, Rfc.Res.mk.injEq] at h
        exact absurd h.2.1 hb
      · split at h
        · simp [res] at h
        · rename_i s1 node hl
          simp only [res, Prod.mk.injEq, Outcome.res.injEq, Rfc.Res.mk.injEq, Rfc.Body.mntOk.injEq, true_and] at h
          have hpc : CleanPath (cleanAbs raw) := cleanAbs_clean raw
          have hp := lookupPath_path hl
          have h1 : CInv s1 := lookupPath_cinv' hl hI hpc
          have hres := allocate_resolves s1 node h1 (by rw [hp]; exact hpc)
          refine ⟨raw, r, (allocate s1 node).2, node.attrs, hraw, h.2.1.symm, ?_⟩
          rw [← h.1, hres, ← hp]



/-- attributes that matched keep matching when Lstat shows the same at the path -/
theorem matches_of_view {fs fs' : Fs.T} (hw' : Fs.WF fs') {p : Bytes} {a : Attrs}
    (hv : Fs.viewAt fs' (fsPath p) = Fs.viewAt fs (fsPath p)) (h : MatchesLstat fs p a) : MatchesLstat fs' p a := by
  obtain ⟨i, hi, h1, h2, h3, h4⟩ := h
  have := Fs.lstat_ok_view hi
  rw [← hv] at this
  obtain ⟨i', hi', k1, k2, k3⟩ := Fs.lstat_of_view hw' this
  exact ⟨i', hi', by rw [h1, k1], by rw [h2, k2], by rw [h3, k3], h4⟩

theorem chownQuiet_matches {s : St} (hw : Fs.WF s.fs) (q : Bytes) (u g : Nat) {p : Bytes} {a : Attrs}
    (h : MatchesLstat s.fs p a) : MatchesLstat (chownQuiet s q u g).fs p a := by
  unfold chownQuiet
  split
  · rename_i f hf
    obtain ⟨hw1, hv⟩ := Fs.chown_frame hf hw
    exact matches_of_view hw1 (hv _) h
  · exact h

theorem lchownQuiet_matches {s : St} (hw : Fs.WF s.fs) (q : Bytes) (u g : Nat) {p : Bytes} {a : Attrs}
    (h : MatchesLstat s.fs p a) : MatchesLstat (lchownQuiet s q u g).fs p a := by
  unfold lchownQuiet
  split
  · rename_i f hf
    obtain ⟨hw1, hv⟩ := Fs.lchown_frame hf hw
    exact matches_of_view hw1 (hv _) h
  · exact h

/-- the shape the three object-creating procedures share: an NFS3_OK reply with a handle -/
abbrev CreatedOk (fh : Nat) (fa : Rfc.Fattr) (w : Rfc.Wcc) : Outcome := .res ⟨0, .createOk (some fh) (some fa) w⟩

/-- C05, MKDIR: the new directory's handle resolves to dir-path/name -/
theorem procMkdir_handle (s s' : St) (c : Ctx) (args : Bytes) (fh : Nat) (fa : Rfc.Fattr) (w : Rfc.Wcc) (hI : CInv s)
    (h : procMkdir s c args = (s', CreatedOk fh fa w)) :
    ∃ hd r1 name r2 n a, decFh' s args = some (hd, r1) ∧ decStr s r1 = some (name, r2) ∧ nodeOf s hd = some n ∧
      nodeOf s' fh = some { path := joinName n.path name, attrs := a } ∧ fa = toFattr a ∧
      MatchesLstat s'.fs (joinName n.path name) a := by
  unfold procMkdir at h
  split at h
  · simp [res] at h
  · split at h
    · simp [res] at h
    · rename_i hd r1 hfh
      split at h
      · simp [res] at h
      · rename_i name r2 hname
        split at h
        · simp [res] at h
        · rename_i hv
          split at h
          · simp [res] at h
          · simp only at h
            split at h
            · simp [res] at h
            · split at h
              · simp [res] at h
              · rename_i n hn
                have hnc := nodeOf_cleanI hI hn
                have hpc : CleanPath (joinName n.path name) := joinName_clean n.path name hnc (by simpa using hv)
                split at h
                · simp [res] at h
                · rename_i s1 pre heq
                  have h1 := getAttr_cinv' heq hI hnc
                  split at h
                  · simp [res] at h
                  · rename_i fs1 hmk
                    obtain ⟨hw1, hview, _⟩ := Fs.mkdir_frame hmk h1.wf
                    have hsub := invalidateForNew_sub (s := { s1 with fs := fs1 }) h1.lru n.path (joinName n.path name)
                    have h2 : CInv (invalidateForNew { s1 with fs := fs1 } n.path (joinName n.path name)) :=
                      cinv_change_at h1 hpc hw1 hview rfl hsub.1 hsub.2
                    have h3 := fun u g => chownQuiet_cinv h2 (joinName n.path name) u g
                    split at h
                    · simp [res] at h
                    · rename_i s4 node hl
                      have h4 := lookupPath_cinv' hl (h3 _ _) hpc
                      split at h
                      · simp [res] at h
                      · rename_i s5 post hg
                        have h5 := getAttr_cinv' hg h4 hnc
                        have hp := lookupPath_path hl
                        have hres := allocate_resolves s5 node h5 (by rw [hp]; exact hpc)
                        simp only [res, Prod.mk.injEq, Outcome.res.injEq, Rfc.Res.mk.injEq, Rfc.Body.createOk.injEq,
                          Option.some.injEq, true_and] at h
                        have hm := ((lookupPath_sound (s' := s4) (h3 _ _).coh).1 node hl).2
                        refine ⟨hd, r1, name, r2, n, node.attrs, hfh, hname, hn, ?_, h.2.2.1.symm, ?_⟩
                        · rw [← h.1, ← h.2.1, hres, ← hp]
                        · rw [← h.1, allocate_fs, getAttr_fs' hg, lookupPath_fs' hl]; exact hm


theorem symlinkOp_matches {s s' : St} {now : Nat} {dir : Node} {name target : Bytes} {node : Node}
    (heq : symlinkOp s now dir name target = (s', .ok node)) (h : CInv s) (hd : CleanPath dir.path) (hn : NoSep name) :
    MatchesLstat s'.fs (joinName dir.path name) node.attrs := by
  unfold symlinkOp at heq
  split at heq
  · simp at heq
  · rename_i p hp
    have hpe := sanitize_some hp
    have hpc : CleanPath p := by rw [hpe]; exact .child dir.path name hd hn
    split at heq
    · simp at heq
    · rename_i fs1 hsl
      obtain ⟨hw1, hview, _⟩ := Fs.symlink_frame hsl h.wf
      have hsub := invalidateForNew_sub (s := { s with fs := fs1 }) h.lru dir.path p
      have h2 : CInv (invalidateForNew { s with fs := fs1 } dir.path p) :=
        cinv_change_at h hpc hw1 hview rfl hsub.1 hsub.2
      have := ((lookupPath_sound (s' := s') h2.coh).1 node heq).2
      rw [lookupPath_fs' heq, ← hpe]; exact this

/-- C05, SYMLINK: the new link's handle resolves to dir-path/name -/
theorem procSymlink_handle (s s' : St) (c : Ctx) (args : Bytes) (fh : Nat) (fa : Rfc.Fattr) (w : Rfc.Wcc) (hI : CInv s)
    (h : procSymlink s c args = (s', CreatedOk fh fa w)) :
    ∃ hd r1 name r2 n a, decFh' s args = some (hd, r1) ∧ decStr s r1 = some (name, r2) ∧ nodeOf s hd = some n ∧
      nodeOf s' fh = some { path := joinName n.path name, attrs := a } ∧ fa = toFattr a ∧
      MatchesLstat s'.fs (joinName n.path name) a := by
  unfold procSymlink at h
  split at h
  · simp [res] at h
  · split at h
    · simp [res] at h
    · rename_i hd r1 hfh
      split at h
      · simp [res] at h
      · rename_i name r2 hname
        split at h
        · simp [res] at h
        · rename_i hv
          have hns : NoSep name := noSep_of_valid name (by simpa using hv)
          split at h
          · simp [res] at h
          · split at h
            · simp [res] at h
            · split at h
              · simp [res] at h
              · split at h
                · simp [res] at h
                · split at h
                  · simp [res] at h
                  · split at h
                    · simp [res] at h
                    · rename_i n hn
                      have hnc := nodeOf_cleanI hI hn
                      split at h
                      · simp [res] at h
                      · rename_i s1 pre heq
                        have h1 := getAttr_cinv' heq hI hnc
                        split at h
                        · simp [res] at h
                        · rename_i s2 node hso
                          have h2 : CInv s2 := symlinkOp_cinv' hso h1 hnc hns
                          have h3 := fun u g => lchownQuiet_cinv h2 (joinName n.path name) u g
                          have hp := symlinkOp_path hso
                          have hnp : CleanPath node.path := by rw [hp]; exact .child n.path name hnc hns
                          simp only at h
                          split at h
                          · simp [res] at h
                          · rename_i s4 post hg
                            have h4 := getAttr_cinv' hg (h3 _ _) hnc
                            have hres := allocate_resolves s4 node h4 hnp
                            simp only [res, Prod.mk.injEq, Outcome.res.injEq, Rfc.Res.mk.injEq, Rfc.Body.createOk.injEq,
                              Option.some.injEq, true_and] at h
                            have hm := symlinkOp_matches hso h1 hnc hns
                            refine ⟨hd, r1, name, r2, n, node.attrs, hfh, hname, hn, ?_, h.2.2.1.symm, ?_⟩
                            · rw [← h.1, ← h.2.1, hres, ← hp]
                            · rw [← h.1, allocate_fs, getAttr_fs' hg]
                              exact lchownQuiet_matches h2.wf _ _ _ hm


theorem createOp_matches {s s' : St} {now : Nat} {dir : Node} {name : Bytes} {perm : Nat} {node : Node}
    (heq : createOp s now dir name perm = (s', .ok node)) (h : CInv s) (hd : CleanPath dir.path) (hn : NoSep name)
    (hmiss : ∃ err, Fs.lstat s.fs (fsPath (joinName dir.path name)) = .error err) :
    MatchesLstat s'.fs (joinName dir.path name) node.attrs := by
  unfold createOp at heq
  split at heq
  · simp at heq
  · rename_i p hp
    have hpe := sanitize_some hp
    have hpc : CleanPath p := by rw [hpe]; exact .child dir.path name hd hn
    obtain ⟨err, herr⟩ := hmiss
    rw [← hpe] at herr
    have hwk := Fs.lstat_err_walk herr
    split at heq
    · simp at heq
    · rename_i fs1 hcr
      obtain ⟨hw1, hview1, e, hwe, hke⟩ := Fs.create_new_frame hwk hcr h.wf
      have hnl : e.kind ≠ .link := by rw [hke]; decide
      split at heq
      · simp at heq
      · rename_i fs2 hch
        obtain ⟨hw2, hview2⟩ := Fs.chmod_at_nonlink hwe hnl hch hw1
        have hsub := invalidateForNew_sub (s := { s with fs := fs2 }) h.lru dir.path p
        have h2 : CInv (invalidateForNew { s with fs := fs2 } dir.path p) :=
          cinv_change_at h hpc hw2 (fun q hq => (hview2 q hq).trans (hview1 q hq)) rfl hsub.1 hsub.2
        have := ((lookupPath_sound (s' := s') h2.coh).1 node heq).2
        rw [lookupPath_fs' heq, ← hpe]; exact this

theorem createFinish_handle (s2 s' : St) (st : Nat) (c : Ctx) (n : Node) (pre : Attrs) (p : Bytes) (h2 : CInv s2)
    (hnc : CleanPath n.path) (hpc : CleanPath p) (fh : Nat) (fa : Rfc.Fattr) (w : Rfc.Wcc)
    (h : createFinish s2 st c n pre p = (s', CreatedOk fh fa w)) :
    ∃ a, nodeOf s' fh = some { path := p, attrs := a } ∧ fa = toFattr a ∧ MatchesLstat s'.fs p a := by
  unfold createFinish at h
  split at h
  · rename_i hst
    simp only [res, Prod.mk.injEq, Outcome.res.injEq, Rfc.Res.mk.injEq] at h
    exact absurd h.2.2 (by simp)
  · split at h
    · simp [res] at h
    · rename_i s3 node hl
      have h3 := lookupPath_cinv' hl h2 hpc
      have h4 := getAttrOr_cinv h3 c.now n pre hnc
      have hp := lookupPath_path hl
      have hres := allocate_resolves _ node h4 (by rw [hp]; exact hpc)
      simp only [res, Prod.mk.injEq, Outcome.res.injEq, Rfc.Res.mk.injEq, Rfc.Body.createOk.injEq,
        Option.some.injEq, true_and] at h
      have hm := ((lookupPath_sound (s' := s3) h2.coh).1 node hl).2
      refine ⟨node.attrs, ?_, h.2.2.1.symm, ?_⟩
      · rw [← h.1, ← h.2.1, hres, ← hp]
      · rw [← h.1, allocate_fs, getAttrOr_fs, lookupPath_fs' hl]; exact hm

theorem createNew_handle (s1 s' : St) (c : Ctx) (n : Node) (pre : Attrs) (name : Bytes) (mode how : Nat) (sa : Sattr3) (verf : Bytes)
    (h1 : CInv s1) (hnc : CleanPath n.path) (hns : NoSep name)
    (hmiss : ∃ err, Fs.lstat s1.fs (fsPath (joinName n.path name)) = .error err) (fh : Nat) (fa : Rfc.Fattr) (w : Rfc.Wcc)
    (h : createNew s1 c n pre name mode how sa verf = (s', CreatedOk fh fa w)) :
    ∃ a, nodeOf s' fh = some { path := joinName n.path name, attrs := a } ∧ fa = toFattr a ∧
      MatchesLstat s'.fs (joinName n.path name) a := by
  unfold createNew at h
  split at h
  · simp [res] at h
  · rename_i s2 node hco
    have h2 := createOp_cinv' hco h1 hnc hns hmiss
    have hp := createOp_path hco
    have hnp : CleanPath node.path := by rw [hp]; exact .child n.path name hnc hns
    have h3 : CInv (if how = 2 then rememberExclusive s2 node.path verf else s2) := by
      split
      · exact rememberExclusive_cinv h2 _ _
      · exact h2
    have h4 := chownQuiet_cinv h3 node.path (ownerUid c sa) (ownerGid c sa)
    simp only at h
    split at h
    · simp [res] at h
    · rename_i s5 post hg
      have h5 := getAttr_cinv' hg h4 hnc
      have hres := allocate_resolves s5 node h5 hnp
      simp only [res, Prod.mk.injEq, Outcome.res.injEq, Rfc.Res.mk.injEq, Rfc.Body.createOk.injEq,
        Option.some.injEq, true_and] at h
      have hm := createOp_matches hco h1 hnc hns hmiss
      have hm3 : MatchesLstat (if how = 2 then rememberExclusive s2 node.path verf else s2).fs (joinName n.path name) node.attrs := by
        split
        · exact hm
        · exact hm
      refine ⟨node.attrs, ?_, h.2.2.1.symm, ?_⟩
      · rw [← h.1, ← h.2.1, hres, ← hp]
      · rw [← h.1, allocate_fs, getAttr_fs' hg]
        exact chownQuiet_matches h3.wf _ _ _ hm3

/-- C05, CREATE (every mode, over a free or a taken name): the handle resolves to dir-path/name -/
theorem procCreate_handle (s s' : St) (c : Ctx) (args : Bytes) (fh : Nat) (fa : Rfc.Fattr) (w : Rfc.Wcc) (hI : CInv s)
    (h : procCreate s c args = (s', CreatedOk fh fa w)) :
    ∃ hd r1 name r2 n a, decFh' s args = some (hd, r1) ∧ decStr s r1 = some (name, r2) ∧ nodeOf s hd = some n ∧
      nodeOf s' fh = some { path := joinName n.path name, attrs := a } ∧ fa = toFattr a ∧
      MatchesLstat s'.fs (joinName n.path name) a := by
  unfold procCreate at h
  split at h
  · simp [res] at h
  · split at h
    · simp [res] at h
    · rename_i hd r1 hfh
      split at h
      · simp [res] at h
      · rename_i name r2 hname
        split at h
        · simp [res] at h
        · rename_i hv
          have hpv : validateFilename name = 0 := by simpa using hv
          have hns : NoSep name := noSep_of_valid name hpv
          split at h
          · simp [res] at h
          · split at h
            · simp [res] at h
            · simp only at h
              split at h
              · simp [res] at h
              · split at h
                · simp [res] at h
                · rename_i n hn
                  have hnc := nodeOf_cleanI hI hn
                  have hpc : CleanPath (joinName n.path name) := joinName_clean n.path name hnc hpv
                  split at h
                  · simp [res] at h
                  · rename_i s1 pre heq
                    have h1 := getAttr_cinv' heq hI hnc
                    split at h
                    · rename_i info hinfo
                      unfold createExisting at h
                      obtain ⟨a, ha, hfa, hma⟩ := createFinish_handle _ s' _ c n pre _
                        (createStep1_cinv s1 _ info _ _ _ h1 hpc hinfo) hnc hpc fh fa w h
                      exact ⟨hd, r1, name, r2, n, a, hfh, hname, hn, ha, hfa, hma⟩
                    · rename_i err herr
                      obtain ⟨a, ha, hfa, hma⟩ := createNew_handle s1 s' c n pre name _ _ _ _ h1 hnc hns ⟨err, herr⟩ fh fa w h
                      exact ⟨hd, r1, name, r2, n, a, hfh, hname, hn, ha, hfa, hma⟩


theorem find_filter_ne (l : List (Nat × Attrs)) (h fh0 : Nat) (hne : h ≠ fh0) :
    (l.filter (fun y => y.1 != h)).find? (fun y => y.1 == fh0) = l.find? (fun y => y.1 == fh0) := by
  induction l with
  | nil => rfl
  | cons y ys ih =>
    by_cases hy : y.1 = fh0
    · have hh : fh0 ≠ h := fun e => hne e.symm
      simp [List.filter_cons, hy, hh]
    · by_cases hyh : y.1 = h
      · simp [List.filter_cons, hyh, ih, List.find?_cons, hne]
      · simp [List.filter_cons, hy, hyh, ih]

/-- a READDIRPLUS-style further allocation, when the table has room: handles issued before keep naming their
    paths (the stored attributes may be refreshed when the same path is issued again) -/
theorem allocate_keeps (s : St) (n : Node) (hI : CInv s) (hp : CleanPath n.path)
    (hroom : s.hs.live.length + 1 ≤ Handles.effMax s.cfg.defaultMaxHandles s.hs.maxRaw)
    (fh0 : Nat) (n0 : Node) (h0 : nodeOf s fh0 = some n0) :
    ∃ a, nodeOf (allocate s n).1 fh0 = some { path := n0.path, attrs := a } := by
  have hr := Handles.alloc_room s.cfg.defaultMaxHandles s.cfg.evictDivisor s.hs n.path (cleanPath_ne_nil hp) hI.htab hroom
  unfold nodeOf at h0
  split at h0
  · simp at h0
  · rename_i p hget
    simp only [Option.map_eq_some_iff] at h0
    obtain ⟨x, hx, hx2⟩ := h0
    have hg := hr.1 fh0 p hget
    unfold nodeOf allocate setNode
    simp only
    rw [hg]
    simp only [List.find?_cons]
    by_cases heq : (Handles.alloc s.cfg.defaultMaxHandles s.cfg.evictDivisor s.hs n.path).2 = fh0
    · refine ⟨n.attrs, ?_⟩
      simp [heq, ← hx2]
    · refine ⟨x.2, ?_⟩
      have hb : ((Handles.alloc s.cfg.defaultMaxHandles s.cfg.evictDivisor s.hs n.path).2 == fh0) = false := by simpa using heq
      simp only [hb]
      have hx1 : x.1 = fh0 := by have := List.find?_some hx; simpa using this
      have : (s.nodes.filter (fun y => y.1 != (Handles.alloc s.cfg.defaultMaxHandles s.cfg.evictDivisor s.hs n.path).2)).find?
          (fun y => y.1 == fh0) = some x := by
        rw [find_filter_ne _ _ _ heq]; exact hx
      rw [this]
      simp [← hx2]

theorem allocate_room (s : St) (n : Node) (hI : CInv s) (hp : CleanPath n.path)
    (hroom : s.hs.live.length + 1 ≤ Handles.effMax s.cfg.defaultMaxHandles s.hs.maxRaw) :
    (allocate s n).1.hs.live.length ≤ s.hs.live.length + 1 ∧ (allocate s n).1.hs.maxRaw = s.hs.maxRaw := by
  have hr := Handles.alloc_room s.cfg.defaultMaxHandles s.cfg.evictDivisor s.hs n.path (cleanPath_ne_nil hp) hI.htab hroom
  exact ⟨hr.2.1, hr.2.2⟩

/-- C05, READDIRPLUS, batches that fit: if the table has room for every entry of the listing, each handle a page
    carries resolves — after the whole page was built — to the path of the entry it was issued for. (On a full
    table this is false: `Props.C05.readdirplus_counterexample`, known finding C05/readdirplus-evicts-own-handles.) -/
theorem fillDirPlus_handles (limit cookie : Nat) (s : St) (i used cnt : Nat) (l : List Node) (hI : CInv s)
    (hl : ∀ n ∈ l, CleanPath n.path)
    (hroom : s.hs.live.length + l.length ≤ Handles.effMax s.cfg.defaultMaxHandles s.hs.maxRaw) :
    CInv (fillDirPlus limit cookie s i used cnt l).1 ∧
    (∀ fh0 n0, nodeOf s fh0 = some n0 → ∃ a, nodeOf (fillDirPlus limit cookie s i used cnt l).1 fh0 = some { path := n0.path, attrs := a }) ∧
    ∀ ents lim, (fillDirPlus limit cookie s i used cnt l).2 = .done ents lim →
      ∀ e ∈ ents, ∃ n ∈ l, ∃ fh a, e.name = baseName n.path ∧ e.fh = some fh ∧
        nodeOf (fillDirPlus limit cookie s i used cnt l).1 fh = some { path := n.path, attrs := a } := by
  induction l generalizing s i used cnt with
  | nil =>
    refine ⟨hI, fun fh0 n0 h0 => ⟨n0.attrs, h0⟩, ?_⟩
    intro ents lim h
    simp only [fillDirPlus, Fill.done.injEq] at h
    intro e he; rw [← h.1] at he; simp at he
  | cons x xs ih =>
    have hx := hl x (List.mem_cons_self ..)
    have hxs : ∀ n ∈ xs, CleanPath n.path := fun n hn => hl n (List.mem_cons_of_mem _ hn)
    simp only [List.length_cons] at hroom
    unfold fillDirPlus
    split
    · obtain ⟨a, b, c⟩ := ih s (i + 1) used cnt hI hxs (by omega)
      refine ⟨a, b, ?_⟩
      intro ents lim h e he
      obtain ⟨n, hn, rest⟩ := c ents lim h e he
      exact ⟨n, List.mem_cons_of_mem _ hn, rest⟩
    · simp only
      split
      · refine ⟨hI, fun fh0 n0 h0 => ⟨n0.attrs, h0⟩, ?_⟩
        intro ents lim h
        split at h
        · simp at h
        · simp only [Fill.done.injEq] at h
          intro e he; rw [← h.1] at he; simp at he
      · have h1 : CInv (allocate s x).1 := allocate_cinv hI x hx
        have hr := allocate_room s x hI hx (by omega)
        have hcfg : (allocate s x).1.cfg = s.cfg := rfl
        obtain ⟨a, b, c⟩ := ih (allocate s x).1 (i + 1) (used + entrySize (baseName x.path) + plusExtra) (cnt + 1) h1 hxs
          (by rw [hcfg, hr.2]; omega)
        have hself := allocate_resolves s x hI hx
        split
        · rename_i s2 hrec
          simp only
          rw [hrec] at a b
          refine ⟨a, ?_, fun ents lim h => by simp at h⟩
          intro fh0 n0 h0
          obtain ⟨a1, ha1⟩ := allocate_keeps s x hI hx (by omega) fh0 n0 h0
          exact b fh0 { path := n0.path, attrs := a1 } ha1
        · rename_i s2 l2 lim2 hrec
          simp only
          rw [hrec] at a b c
          refine ⟨a, ?_, ?_⟩
          · intro fh0 n0 h0
            obtain ⟨a1, ha1⟩ := allocate_keeps s x hI hx (by omega) fh0 n0 h0
            exact b fh0 { path := n0.path, attrs := a1 } ha1
          · intro ents lim h e he
            simp only [Fill.done.injEq] at h
            rw [← h.1] at he
            simp only [List.mem_cons] at he
            rcases he with rfl | he
            · obtain ⟨a2, ha2⟩ := b _ _ hself
              exact ⟨x, List.mem_cons_self .., (allocate s x).2, a2, rfl, rfl, ha2⟩
            · obtain ⟨n, hn, rest⟩ := c l2 lim2 rfl e he
              exact ⟨n, List.mem_cons_of_mem _ hn, rest⟩


/-- the handle table, the nodes stored under the handles and the configuration are the same -/
def TabSame (s s' : St) : Prop := s'.hs = s.hs ∧ s'.nodes = s.nodes ∧ s'.cfg = s.cfg

theorem TabSame.trans {a b c : St} (h1 : TabSame a b) (h2 : TabSame b c) : TabSame a c :=
  ⟨h2.1.trans h1.1, h2.2.1.trans h1.2.1, h2.2.2.trans h1.2.2⟩

theorem TabSame.nodeOf {s s' : St} (h : TabSame s s') (fh : Nat) : nodeOf s' fh = nodeOf s fh := by
  unfold Server.nodeOf; rw [h.1, h.2.1]

theorem lookupPath_tab (s : St) (now : Nat) (p : Bytes) : TabSame s (lookupPath s now p).1 :=
  ⟨lookupPath_hs s now p, lookupPath_nodes s now p, lookupPath_cfg s now p⟩

theorem getAttr_tab (s : St) (now : Nat) (n : Node) : TabSame s (getAttr s now n).1 := by
  rw [getAttr_only_ac]; exact ⟨rfl, rfl, rfl⟩

theorem lookupEach_tab (s : St) (now : Nat) (dir : Bytes) (names : List Bytes) : TabSame s (lookupEach s now dir names).1 := by
  induction names generalizing s with
  | nil => exact ⟨rfl, rfl, rfl⟩
  | cons n ns ih =>
    unfold lookupEach
    split
    · exact ih s
    · split
      · exact ih s
      · rename_i p _
        have hl := lookupPath_tab s now p
        split
        · rename_i s1 _ heq
          rw [heq] at hl; exact hl.trans (ih s1)
        · rename_i s1 node heq
          simp only
          rw [heq] at hl; exact hl.trans (ih s1)

theorem readDir_tab (s : St) (now : Nat) (d : Node) : TabSame s (readDir s now d).1 := by
  unfold readDir
  simp only
  split
  · rename_i s1 names heq
    simp only
    have h1 : TabSame s s1 := by
      split at heq
      · simp at heq
      · split at heq
        · simp only [Option.some.injEq, Prod.mk.injEq] at heq
          rw [← heq.1]; exact ⟨rfl, rfl, rfl⟩
        · simp at heq
    exact h1.trans (lookupEach_tab s1 now d.path names)
  · split
    · exact ⟨rfl, rfl, rfl⟩
    · simp only
      exact TabSame.trans (b := _) ⟨rfl, rfl, rfl⟩ (lookupEach_tab _ now d.path _)

theorem refreshEach_tab (s : St) (now : Nat) (l : List Node) : TabSame s (refreshEach s now l).1 := by
  induction l generalizing s with
  | nil => exact ⟨rfl, rfl, rfl⟩
  | cons n ns ih =>
    unfold refreshEach
    simp only
    split
    · exact TabSame.trans (b := (acGet s now n.path).1) ⟨rfl, rfl, rfl⟩ (ih _)
    · exact TabSame.trans (b := acPut (acGet s now n.path).1 now n.path _) ⟨rfl, rfl, rfl⟩ (ih _)

theorem refreshEach_length (s : St) (now : Nat) (l : List Node) : (refreshEach s now l).2.length = l.length := by
  have := congrArg List.length (refreshEach_spec s now l).1
  simpa using this

/-- C05, READDIRPLUS at handler level, pages whose listing fits in the table: every handle of an NFS3_OK page
    resolves — in the state the reply leaves behind — to an object whose base name is the entry's name. -/
theorem procReaddirplus_handles (s s' : St) (c : Ctx) (args : Bytes) (a : Option Rfc.Fattr) (verf : Bytes)
    (ents : List Rfc.DirEntPlus) (eof : Bool) (hI : CInv s)
    (hroom : ∀ hd r1 n nodes, decFh' s args = some (hd, r1) → nodeOf s hd = some n → (readDir s c.now n).2 = .ok nodes →
      s.hs.live.length + nodes.length ≤ Handles.effMax s.cfg.defaultMaxHandles s.hs.maxRaw)
    (h : procReaddirplus s c args = (s', .res ⟨0, .readdirplusOk a verf ents eof⟩)) :
    ∀ e ∈ ents, ∃ fh p at', e.fh = some fh ∧ e.name = baseName p ∧ nodeOf s' fh = some { path := p, attrs := at' } := by
  unfold procReaddirplus at h
  split at h
  · simp [res] at h
  · rename_i hd r1 hfh
    split at h
    · simp [res] at h
    · split at h
      · simp [res] at h
      · split at h
        · simp [res] at h
        · split at h
          · simp [res] at h
          · split at h
            · simp [res] at h
            · rename_i n hn
              have hnc := nodeOf_cleanI hI hn
              split at h
              · simp [res] at h
              · split at h
                · simp [res] at h
                · rename_i s1 nodes0 hrd
                  have hroom0 := hroom hd r1 n nodes0 hfh hn (by rw [hrd])
                  have t1 : TabSame s s1 := by have := readDir_tab s c.now n; rw [hrd] at this; exact this
                  have hrc := readDir_cinv s c.now n hI hnc
                  rw [hrd] at hrc
                  have h1 : CInv s1 := hrc.1
                  have hcl0 := hrc.2 nodes0 rfl
                  split at h
                  rename_i s2 nodes hre
                  have t2 : TabSame s1 s2 := by have := refreshEach_tab s1 c.now nodes0; rw [hre] at this; exact this
                  have hlen : nodes.length = nodes0.length := by
                    have := refreshEach_length s1 c.now nodes0; rw [hre] at this; exact this
                  have hrf := refreshEach_cinv s1 c.now nodes0 h1 (fun m hm => (hcl0 m hm).1) (fun m hm => (hcl0 m hm).2)
                  rw [hre] at hrf
                  split at h
                  · simp [res] at h
                  · rename_i s3 a3 hg
                    have t3 : TabSame s2 s3 := by have := getAttr_tab s2 c.now n; rw [hg] at this; exact this
                    have h3 : CInv s3 := getAttr_cinv' hg hrf.1 hnc
                    have t : TabSame s s3 := (t1.trans t2).trans t3
                    simp only at h
                    split at h
                    · simp [res] at h
                    · rename_i s4 ents' lim hfill
                      simp only [res, Prod.mk.injEq, Outcome.res.injEq, Rfc.Res.mk.injEq, Rfc.Body.readdirplusOk.injEq, true_and] at h
                      obtain ⟨hs4, _, _, hents, _⟩ := h
                      have key := fun lm ck => fillDirPlus_handles lm ck s3 0 dirListHeader 0 nodes h3 hrf.2
                        (by rw [t.1, t.2.2, hlen]; exact hroom0)
                      intro e he
                      rw [← hents] at he
                      obtain ⟨m, _, fh, at', hname, hfh', hno⟩ := (key _ _).2.2 ents' lim (congrArg Prod.snd hfill) e he
                      rw [congrArg Prod.fst hfill] at hno
                      exact ⟨fh, m.path, at', hfh', hname, by rw [← hs4]; exact hno⟩

/-- C05, bound: in every state satisfying the invariant the number of live handles is within the effective maximum -/
theorem table_bounded (s : St) (hI : CInv s) :
    s.hs.live.length ≤ Handles.effMax s.cfg.defaultMaxHandles s.hs.maxRaw := hI.htab.bounded

/-- live handles are unique per path and per id -/
theorem table_injective (s : St) (hI : CInv s) (h1 h2 : Nat) (n1 n2 : Node) (a : nodeOf s h1 = some n1) (b : nodeOf s h2 = some n2)
    (hp : n1.path = n2.path) : h1 = h2 := by
  have g : ∀ (h : Nat) (n : Node), nodeOf s h = some n → (h, n.path) ∈ s.hs.live := by
    intro h n hn
    unfold nodeOf at hn
    split at hn
    · simp at hn
    · rename_i p hget
      simp only [Option.map_eq_some_iff] at hn
      obtain ⟨x, _, hx⟩ := hn
      rw [← hx]
      exact (Handles.get_eq_some_iff hI.htab.idsNodup h p).mp hget
  have m1 := g h1 n1 a
  have m2 := g h2 n2 b
  rw [hp] at m1
  exact Handles.unique_of_nodup_paths hI.htab.pathsNodup m1 m2

end Server
end Absnfs
