/-
  ServerData: READ and WRITE of the server model characterised against the backend's bytes.
-/
import Absnfs.ServerFrame
namespace Absnfs
namespace Server

/-- what a successful READ returned, in terms of the request and the backend file -/
structure ReadFacts (s : St) (args : Bytes) (cntR : Nat) (eof : Bool) (data : Bytes) (o : Option Rfc.Fattr) : Prop where
  ex : ∃ (h off cnt : Nat) (r1 r2 r3 : Bytes) (n : Node) (q : Fs.Path) (e : Fs.Entry) (a : Attrs),
    decFh' s args = some (h, r1) ∧ decU64 r1 = some (off, r2) ∧ decU32 r2 = some (cnt, r3) ∧
    nodeOf s h = some n ∧ off ≤ maxInt64 ∧
    Fs.openRead s.fs (fsPath n.path) = .ok (q, e) ∧
    data = (if (Fs.infoOf e).size ≤ off then []
            else Fs.slice e.data off (min (if cnt > s.cfg.transfer then s.cfg.transfer else cnt) ((Fs.infoOf e).size - off))) ∧
    cntR = data.length ∧
    (∃ i, Fs.lstat s.fs (fsPath n.path) = .ok i ∧ a = attrsOfInfo i (fnv64 n.path) n.attrs.uid n.attrs.gid) ∧
    eof = decide (off + data.length ≥ a.size) ∧ o = some (toFattr a)

theorem procRead_ok (s s' : St) (c : Ctx) (args : Bytes) (o : Option Rfc.Fattr) (cntR : Nat) (eof : Bool) (data : Bytes)
    (h : procRead s c args = (s', .res ⟨0, .readOk o cntR eof data⟩)) : ReadFacts s args cntR eof data o := by
  unfold procRead at h
  split at h
  · simp [res] at h
  · rename_i hh r1 hfh
    split at h
    · simp [res] at h
    · rename_i off r2 hoff
      split at h
      · simp [res] at h
      · rename_i cnt r3 hcnt
        split at h
        · simp [res] at h
        · split at h
          · simp [res] at h
          · rename_i n hn
            split at h
            · simp [res] at h
            · rename_i hoffmax
              simp only at h
              split at h
              · simp [res] at h
              · rename_i q e hopen
                split at h
                · simp [res] at h
                · rename_i s1 a hga
                  simp only [res, Prod.mk.injEq, Outcome.res.injEq, Rfc.Res.mk.injEq, Rfc.Body.readOk.injEq, true_and] at h
                  obtain ⟨_, ho, hc, he, hd⟩ := h
                  refine ⟨⟨hh, off, cnt, r1, r2, r3, n, q, e, a, hfh, hoff, hcnt, hn, by omega, hopen, hd.symm, ?_, getAttr_ok hga, ?_, ho.symm⟩⟩
                  · rw [← hc, ← hd]
                  · rw [← he, ← hd]

theorem follow_nonlink {fs : Fs.T} {p : Fs.Path} {e : Fs.Entry} (h : Fs.walk fs p = .ok e) (hk : e.kind ≠ .link) :
    Fs.follow fs p = (p, .ok e) := by
  unfold Fs.follow Fs.followFrom
  simp [h, hk]

/-- C01 (READ): for the decoded request (handle h, offset off, count cnt) on the object the handle's path
    resolves to, the reply carries min(cnt, transfer size, size − off) bytes, they are the object's bytes at
    that offset, and for a regular file eof is set exactly when off + count reaches the size, which the
    post-operation attributes report. -/
theorem read_spec (s : St) (args : Bytes) (cntR : Nat) (eof : Bool) (data : Bytes) (o : Option Rfc.Fattr)
    (hf : ReadFacts s args cntR eof data o) :
    ∃ (h off cnt : Nat) (r1 r2 r3 : Bytes) (n : Node) (q : Fs.Path) (e : Fs.Entry),
      decFh' s args = some (h, r1) ∧ decU64 r1 = some (off, r2) ∧ decU32 r2 = some (cnt, r3) ∧
      nodeOf s h = some n ∧ Fs.openRead s.fs (fsPath n.path) = .ok (q, e) ∧
      cntR = data.length ∧
      data.length = min (min cnt s.cfg.transfer) ((Fs.infoOf e).size - off) ∧
      (e.kind ≠ .dir → ∀ i, i < data.length → data.getD i 0 = e.data.getD (off + i) 0) ∧
      (∀ e', Fs.walk s.fs (fsPath n.path) = .ok e' → e'.kind = .file →
        e' = e ∧ eof = decide (off + cntR ≥ e.data.length) ∧
        ∃ a, o = some a ∧ a.size = e.data.length ∧ a.ftype = 1) := by
  obtain ⟨h, off, cnt, r1, r2, r3, n, q, e, a, hfh, hoff, hcnt, hn, _, hopen, hd, hc, ⟨i, hi, ha⟩, heof, ho⟩ := hf.ex
  refine ⟨h, off, cnt, r1, r2, r3, n, q, e, hfh, hoff, hcnt, hn, hopen, hc, ?_, ?_, ?_⟩
  · rw [hd]
    split
    · simp only [List.length_nil]; omega
    · rename_i hlt
      rw [Fs.slice_length]
      have hsz : (Fs.infoOf e).size ≤ e.data.length ∨ e.kind = .dir := by
        unfold Fs.infoOf; cases e.kind <;> simp
      rcases hsz with hsz | hdir
      · split <;> omega
      · exfalso; apply hlt; unfold Fs.infoOf; simp [hdir]
  · intro hk i hi
    rw [hd] at hi ⊢
    split
    · rename_i hle; rw [if_pos hle] at hi; simp at hi
    · rename_i hlt
      rw [if_neg hlt] at hi
      rw [Fs.slice_length] at hi
      exact Fs.slice_getD _ _ _ _ (by omega)
  · intro e' hw hk
    have hfol : Fs.follow s.fs (fsPath n.path) = (fsPath n.path, .ok e') := follow_nonlink hw (by rw [hk]; decide)
    have he : e' = e := by
      unfold Fs.openRead at hopen
      rw [hfol] at hopen
      simp only [Except.ok.injEq, Prod.mk.injEq] at hopen
      exact hopen.2
    subst he
    have hl : Fs.lstat s.fs (fsPath n.path) = .ok (Fs.infoOf e') := by unfold Fs.lstat; rw [hw]; rfl
    rw [hl] at hi
    simp only [Except.ok.injEq] at hi
    have hsz : a.size = e'.data.length := by rw [ha, ← hi]; simp [attrsOfInfo, Fs.infoOf, hk]
    refine ⟨rfl, by rw [heof, hsz, hc], toFattr a, ho, by simp [toFattr, hsz], ?_⟩
    rw [ha, ← hi]
    simp [toFattr, attrsOfInfo, Fs.infoOf, hk, kindCode]

end Server
end Absnfs

namespace Absnfs
namespace Server

/-- what a successful WRITE did -/
structure WriteFacts (s s' : St) (args : Bytes) (k com : Nat) (verf : Bytes) : Prop where
  ex : ∃ (h off cnt stable dlen : Nat) (r1 r2 r3 r4 r5 rest data : Bytes) (n : Node) (fs1 : Fs.T),
    decFh' s args = some (h, r1) ∧ decU64 r1 = some (off, r2) ∧ decU32 r2 = some (cnt, r3) ∧
    decU32 r3 = some (stable, r4) ∧ decU32 r4 = some (dlen, r5) ∧ take? cnt r5 = some (data, rest) ∧
    s.cfg.readOnly = false ∧ cnt ≤ s.cfg.transfer ∧ exceedsMax s.cfg (off + cnt) = false ∧ off ≤ maxInt64 ∧
    nodeOf s h = some n ∧
    Fs.writeAt s.fs (fsPath n.path) off data = .ok (fs1, k) ∧ s'.fs = fs1 ∧ com = 2 ∧ verf = s.cfg.writeVerf

theorem procWrite_ok (s s' : St) (c : Ctx) (args : Bytes) (w : Rfc.Wcc) (k com : Nat) (verf : Bytes)
    (h : procWrite s c args = (s', .res ⟨0, .writeOk w k com verf⟩)) : WriteFacts s s' args k com verf := by
  unfold procWrite at h
  split at h
  · simp [res] at h
  · rename_i hro
    split at h
    · simp [res] at h
    · rename_i hh r1 hfh
      split at h
      · simp [res] at h
      · rename_i off r2 hoff
        split at h
        · simp [res] at h
        · rename_i cnt r3 hcnt
          split at h
          · simp [res] at h
          · rename_i stable r4 hst
            split at h
            · simp [res] at h
            · split at h
              · simp [res] at h
              · rename_i dlen r5 hdl
                split at h
                · simp [res] at h
                · split at h
                  · simp [res] at h
                  · rename_i htr
                    split at h
                    · simp [res] at h
                    · rename_i hmax
                      split at h
                      · simp [res] at h
                      · rename_i data rest htake
                        split at h
                        · simp [res] at h
                        · rename_i n hn
                          split at h
                          · simp [res] at h
                          · rename_i s1 pre hpre
                            split at h
                            · simp [res] at h
                            · rename_i hnotlink
                              split at h
                              · -- the write failed: the reply is not NFS3_OK with a writeOk body
                                simp only [res, Prod.mk.injEq, Outcome.res.injEq, Rfc.Res.mk.injEq] at h
                                exact absurd h.2.2 (by simp)
                              · rename_i s2 k' hwr
                                split at h
                                · simp [res] at h
                                · rename_i s3 post hpost
                                  simp only [res, Prod.mk.injEq, Outcome.res.injEq, Rfc.Res.mk.injEq, Rfc.Body.writeOk.injEq,
                                    true_and] at h
                                  obtain ⟨hs, _, hk, hcom, hverf⟩ := h
                                  have hs1 : s1.fs = s.fs := by have := getAttr_fs s c.now n; rw [hpre] at this; exact this
                                  have hs3 : s3.fs = s2.fs := by have := getAttr_fs s2 c.now n; rw [hpost] at this; exact this
                                  -- open the write
                                  unfold writeOp at hwr
                                  split at hwr
                                  · simp at hwr
                                  · rename_i hoffmax
                                    split at hwr
                                    · simp at hwr
                                    · rename_i fs1 kk hwa
                                      simp only at hwr
                                      have hfs2 : s2.fs = fs1 ∧ k' = kk := by
                                        split at hwr
                                        · simp only [Except.ok.injEq, Prod.mk.injEq] at hwr
                                          exact ⟨by rw [← hwr.1]; rfl, hwr.2.symm⟩
                                        · simp only [Except.ok.injEq, Prod.mk.injEq] at hwr
                                          exact ⟨by rw [← hwr.1]; rfl, hwr.2.symm⟩
                                      refine ⟨⟨hh, off, cnt, stable, dlen, r1, r2, r3, r4, r5, rest, data, n, fs1, hfh, hoff, hcnt, hst, hdl,
                                        htake, by simpa using hro, by omega, by simpa using hmax, by omega, hn, ?_, ?_, hcom.symm, hverf.symm⟩⟩
                                      · rw [hs1] at hwa; rw [← hk, hfs2.2]; exact hwa
                                      · rw [← hs, hs3, hfs2.1]

/-- Fs level: a successful WriteAt of a non-empty payload stores exactly the payload at the offset of the file the
    path resolves to (zero-filling a hole), reports its full length, and leaves every other entry alone. -/
theorem writeAt_ok {fs fs1 : Fs.T} {p : Fs.Path} {off k : Nat} {w : Bytes} (h : Fs.writeAt fs p off w = .ok (fs1, k)) :
    k = w.length ∧ ∃ q e, Fs.follow fs p = (q, .ok e) ∧ e.kind ≠ .dir ∧
      (w = [] → fs1 = fs) ∧
      (w ≠ [] → fs1 = Fs.set fs q { e with data := Fs.writeBytes e.data off w }) := by
  unfold Fs.writeAt at h
  split at h
  · simp at h
  · rename_i q e hf
    split at h
    · simp at h
    · rename_i hk
      split at h
      · rename_i hw
        simp only [Except.ok.injEq, Prod.mk.injEq] at h
        exact ⟨by rw [← h.2, hw]; rfl, q, e, hf, hk, fun _ => h.1.symm, fun hne => absurd hw hne⟩
      · rename_i hw
        split at h
        · simp at h
        · simp only [Except.ok.injEq, Prod.mk.injEq] at h
          exact ⟨h.2.symm, q, e, hf, hk, fun he => absurd he hw, fun _ => h.1.symm⟩

end Server
end Absnfs

namespace Absnfs
namespace Server

end Server
end Absnfs
