/-
  Portmap: the built-in portmapper / rpcbind (portmapper.go): registry + handleCall for portmap v2 and
  rpcbind v3/v4, with the caller classified as loopback or not.
-/
import Absnfs.Rpc
namespace Absnfs
namespace Portmap

structure Mapping where
  prog : Nat
  vers : Nat
  prot : Nat
  port : Nat
  deriving DecidableEq, Repr

abbrev Registry := List Mapping

def sameKey (m : Mapping) (prog vers prot : Nat) : Bool := m.prog == prog && m.vers == vers && m.prot == prot

/-- RegisterService: update the port of an existing (prog, vers, prot), else append. -/
def register : Registry → Nat → Nat → Nat → Nat → Registry
  | [], p, v, t, port => [⟨p, v, t, port⟩]
  | m :: ms, p, v, t, port =>
    if sameKey m p v t then { m with port := port } :: ms else m :: register ms p v t port

/-- UnregisterService: remove the first (only) mapping with that key. -/
def unregister (r : Registry) (p v t : Nat) : Registry := r.eraseP (fun m => sameKey m p v t)

/-- GetPort: 0 if absent. -/
def getPort (r : Registry) (p v t : Nat) : Nat :=
  match r.find? (fun m => sameKey m p v t) with
  | some m => m.port
  | none => 0

/-- the registry as a map -/
def lookup (r : Registry) (p v t : Nat) : Option Nat := (r.find? (fun m => sameKey m p v t)).map (·.port)

inductive Caller where
  | loopback   -- loopback address, in-process (nil) caller, or an address whose host is not an IP literal
  | other
  deriving DecidableEq, Repr

def tcp : Nat := 6
def udp : Nat := 17

def encBool (b : Bool) : Bytes := encU32 (if b then 1 else 0)

/-- four u32 arguments of portmap v2 SET/UNSET/GETPORT -/
def dec4 (bs : Bytes) : Option (Nat × Nat × Nat × Nat) :=
  match decU32 bs with
  | none => none
  | some (a, r1) =>
  match decU32 r1 with
  | none => none
  | some (b, r2) =>
  match decU32 r2 with
  | none => none
  | some (c, r3) =>
  match decU32 r3 with
  | none => none
  | some (d, _) => some (a, b, c, d)

def asciiBytes (s : String) : Bytes := s.toUTF8.toList

def netidTcp : Bytes := [116, 99, 112]          -- "tcp"
def netidTcp6 : Bytes := [116, 99, 112, 54]     -- "tcp6"
def netidUdp : Bytes := [117, 100, 112]         -- "udp"
def netidUdp6 : Bytes := [117, 100, 112, 54]    -- "udp6"

def digitsToNat? (bs : Bytes) : Option Nat :=
  if bs = [] then none
  else bs.foldlM (fun acc b => if 48 ≤ b.toNat ∧ b.toNat ≤ 57 then some (acc * 10 + (b.toNat - 48)) else none) 0

def splitOn (sep : UInt8) : Bytes → List Bytes
  | [] => [[]]
  | b :: bs =>
    match splitOn sep bs with
    | [] => [[b]]
    | cur :: rest => if b = sep then [] :: cur :: rest else (b :: cur) :: rest

/-- port encoded in a universal address "a.b.c.d.hi.lo" (unsigned decimal fields); 0 when it does not parse.
    Models Sscanf("%d.%d.%d.%d.%d.%d") on the inputs the correspondence generates (no signs or blanks). -/
def uaddrPort (u : Bytes) : Nat :=
  match (splitOn 46 u).map digitsToNat? with
  | some _ :: some _ :: some _ :: some _ :: some hi :: some lo :: _ => (hi * 256 + lo) % 4294967296
  | _ => 0

def natDigits (n : Nat) : Bytes := asciiBytes (toString n)

/-- universal address for a registered port -/
def uaddrOf (addr : Bytes) (port : Nat) : Bytes :=
  addr ++ [46] ++ natDigits (port / 256) ++ [46] ++ natDigits (port % 256)

def v6Local : Bytes := [58, 58, 49]   -- "::1"

def dumpV2 (r : Registry) : Bytes :=
  (r.flatMap fun m => encU32 1 ++ encU32 m.prog ++ encU32 m.vers ++ encU32 m.prot ++ encU32 m.port) ++ encU32 0

def superuser : Bytes := [115, 117, 112, 101, 114, 117, 115, 101, 114]

def dumpRpcb (addr : Bytes) (r : Registry) : Bytes :=
  (r.flatMap fun m => encU32 1 ++ encU32 m.prog ++ encU32 m.vers ++
      encOpaque (if m.prot = tcp then netidTcp else netidUdp) ++ encOpaque (uaddrOf addr m.port) ++
      encOpaque superuser) ++ encU32 0

/-- result of one procedure: new registry and result bytes -/
structure Out where
  reg : Registry
  res : Bytes

/-- portmap v2 procedures. `checked` = the handler refuses non-loopback callers (regenerated per handler). -/
def v2Set (checked : Bool) (r : Registry) (c : Caller) (args : Bytes) : Out :=
  if checked && c == .other then ⟨r, encBool false⟩ else
  match dec4 args with
  | none => ⟨r, encBool false⟩
  | some (p, v, t, port) => ⟨register r p v t port, encBool true⟩

def v2Unset (checked : Bool) (r : Registry) (c : Caller) (args : Bytes) : Out :=
  if checked && c == .other then ⟨r, encBool false⟩ else
  match dec4 args with
  | none => ⟨r, encBool false⟩
  | some (p, v, t, _) => ⟨unregister r p v t, encBool true⟩

def v2GetPort (r : Registry) (args : Bytes) : Bytes :=
  match dec4 args with
  | none => encU32 0
  | some (p, v, t, _) => encU32 (getPort r p v t)

/-- rpcbind v3/v4: prog, vers, netid, uaddr, owner -/
def rpcbSet (checked : Bool) (maxStr : Nat) (r : Registry) (c : Caller) (args : Bytes) : Out :=
  if checked && c == .other then ⟨r, encBool false⟩ else
  match decU32 args with
  | none => ⟨r, encBool false⟩
  | some (p, r1) =>
  match decU32 r1 with
  | none => ⟨r, encBool false⟩
  | some (v, r2) =>
  match decString maxStr r2 with
  | none => ⟨r, encBool false⟩
  | some (netid, r3) =>
  match decString maxStr r3 with
  | none => ⟨r, encBool false⟩
  | some (uaddr, _) =>
    let prot := if netid = netidUdp ∨ netid = netidUdp6 then udp else tcp
    let port := uaddrPort uaddr
    ⟨if port > 0 then register r p v prot port else r, encBool true⟩

def rpcbUnset (checked : Bool) (maxStr : Nat) (r : Registry) (c : Caller) (args : Bytes) : Out :=
  if checked && c == .other then ⟨r, encBool false⟩ else
  match decU32 args with
  | none => ⟨r, encBool false⟩
  | some (p, r1) =>
  match decU32 r1 with
  | none => ⟨r, encBool false⟩
  | some (v, r2) =>
  match decString maxStr r2 with
  | none => ⟨r, encBool false⟩
  | some (netid, _) =>
    let prot := if netid = netidUdp ∨ netid = netidUdp6 then udp else tcp
    ⟨unregister r p v prot, encBool true⟩

def rpcbGetAddr (maxStr : Nat) (addr : Bytes) (r : Registry) (args : Bytes) : Bytes :=
  match decU32 args with
  | none => encOpaque []
  | some (p, r1) =>
  match decU32 r1 with
  | none => encOpaque []
  | some (v, r2) =>
  match decString maxStr r2 with
  | none => encOpaque []
  | some (netid, _) =>
    let prot := if netid = netidTcp ∨ netid = netidTcp6 then tcp else udp
    let port := getPort r p v prot
    if port > 0 then
      if netid = netidTcp6 ∨ netid = netidUdp6 then encOpaque (uaddrOf v6Local port)
      else encOpaque (uaddrOf addr port)
    else encOpaque []

/-- makeReply: always MSG_ACCEPTED with a null verifier; `mismatchInfo` = PROG_MISMATCH carries low/high. -/
def makeReply (mismatchInfo : Bool) (xid : Nat) (acceptStat : Nat) (data : Bytes) : Bytes :=
  encU32 xid ++ encU32 1 ++ encU32 0 ++ encU32 0 ++ encU32 0 ++
  (if acceptStat = 0 then encU32 0 ++ data
   else encU32 acceptStat ++ (if mismatchInfo && acceptStat = 2 then encU32 2 ++ encU32 4 else []))

/-- skipAuth: flavor, length ≤ maxAuth, body and padding (only when length > 0) -/
def skipAuth (maxAuth : Nat) (bs : Bytes) : Option Bytes :=
  match decU32 bs with
  | none => none
  | some (_, r1) =>
    match decOpaque maxAuth r1 with
    | none => none
    | some (_, r2) => some r2

/-- which handlers test the caller's address (regenerated from the source) -/
structure Checks where
  v2Set : Bool
  v2Unset : Bool
  rpcbSet : Bool
  rpcbUnset : Bool
  mismatchInfo : Bool

/-- handleCall: `none` = the record is dropped without a reply. -/
def handleCall (ck : Checks) (maxAuth maxStr : Nat) (addr : Bytes) (r : Registry) (c : Caller) (data : Bytes) :
    Registry × Option Bytes :=
  match decU32 data with
  | none => (r, none)
  | some (xid, r1) =>
  match decU32 r1 with
  | none => (r, none)
  | some (mt, r2) =>
  if mt ≠ 0 then (r, none) else
  match decU32 r2 with
  | none => (r, none)
  | some (_, r3) =>
  match decU32 r3 with
  | none => (r, none)
  | some (prog, r4) =>
  match decU32 r4 with
  | none => (r, none)
  | some (vers, r5) =>
  match decU32 r5 with
  | none => (r, none)
  | some (proc, r6) =>
  match skipAuth maxAuth r6 with
  | none => (r, none)
  | some r7 =>
  match skipAuth maxAuth r7 with
  | none => (r, none)
  | some args =>
    if prog ≠ 100000 then (r, some (makeReply ck.mismatchInfo xid 1 []))
    else if vers ≠ 2 ∧ vers ≠ 3 ∧ vers ≠ 4 then (r, some (makeReply ck.mismatchInfo xid 2 []))
    else if vers = 2 then
      if proc = 0 then (r, some (makeReply ck.mismatchInfo xid 0 []))
      else if proc = 1 then let o := v2Set ck.v2Set r c args; (o.reg, some (makeReply ck.mismatchInfo xid 0 o.res))
      else if proc = 2 then let o := v2Unset ck.v2Unset r c args; (o.reg, some (makeReply ck.mismatchInfo xid 0 o.res))
      else if proc = 3 then (r, some (makeReply ck.mismatchInfo xid 0 (v2GetPort r args)))
      else if proc = 4 then (r, some (makeReply ck.mismatchInfo xid 0 (dumpV2 r)))
      else (r, some (makeReply ck.mismatchInfo xid 3 []))
    else
      if proc = 0 then (r, some (makeReply ck.mismatchInfo xid 0 []))
      else if proc = 1 then let o := rpcbSet ck.rpcbSet maxStr r c args; (o.reg, some (makeReply ck.mismatchInfo xid 0 o.res))
      else if proc = 2 then let o := rpcbUnset ck.rpcbUnset maxStr r c args; (o.reg, some (makeReply ck.mismatchInfo xid 0 o.res))
      else if proc = 3 then (r, some (makeReply ck.mismatchInfo xid 0 (rpcbGetAddr maxStr addr r args)))
      else if proc = 4 then (r, some (makeReply ck.mismatchInfo xid 0 (dumpRpcb addr r)))
      else (r, some (makeReply ck.mismatchInfo xid 3 []))

/-! ### Registry = finite map -/

def Uniq (r : Registry) : Prop := (r.map fun m => (m.prog, m.vers, m.prot)).Nodup

theorem sameKey_iff (m : Mapping) (p v t : Nat) : sameKey m p v t = true ↔ (m.prog, m.vers, m.prot) = (p, v, t) := by
  simp [sameKey, Prod.ext_iff, and_assoc]

theorem lookup_register_same (r : Registry) (p v t port : Nat) :
    lookup (register r p v t port) p v t = some port := by
  induction r with
  | nil => simp [register, lookup, sameKey]
  | cons m ms ih =>
    simp only [register]
    by_cases h : sameKey m p v t = true
    · have h' : sameKey { m with port := port } p v t = true := by simpa [sameKey] using h
      simp [h, lookup, List.find?_cons, h']
    · have hf : sameKey m p v t = false := by simpa using h
      simp only [hf, Bool.false_eq_true, if_false, lookup, List.find?_cons]
      simp only [lookup] at ih
      exact ih

theorem lookup_register_other (r : Registry) (p v t port p' v' t' : Nat) (hne : (p', v', t') ≠ (p, v, t)) :
    lookup (register r p v t port) p' v' t' = lookup r p' v' t' := by
  induction r with
  | nil =>
    have : sameKey ⟨p, v, t, port⟩ p' v' t' = false := by
      cases hs : sameKey ⟨p, v, t, port⟩ p' v' t' with
      | false => rfl
      | true => exact absurd ((sameKey_iff _ _ _ _).mp hs).symm hne
    simp [register, lookup, List.find?_cons, this]
  | cons m ms ih =>
    simp only [register]
    by_cases h : sameKey m p v t = true
    · have hk := (sameKey_iff m p v t).mp h
      have h1 : sameKey { m with port := port } p' v' t' = false := by
        cases hs : sameKey { m with port := port } p' v' t' with
        | false => rfl
        | true =>
          have := (sameKey_iff _ p' v' t').mp hs
          simp only at this
          exact absurd (this.symm.trans hk) hne
      have h2 : sameKey m p' v' t' = false := by
        cases hs : sameKey m p' v' t' with
        | false => rfl
        | true => exact absurd (((sameKey_iff m p' v' t').mp hs).symm.trans hk) hne
      simp [h, lookup, List.find?_cons, h1, h2]
    · have hf : sameKey m p v t = false := by simpa using h
      simp only [hf, Bool.false_eq_true, if_false, lookup, List.find?_cons]
      simp only [lookup] at ih
      cases hs : sameKey m p' v' t' <;> simp [ih]

theorem keys_register (r : Registry) (p v t port : Nat) :
    (register r p v t port).map (fun m => (m.prog, m.vers, m.prot)) =
      if (p, v, t) ∈ r.map (fun m => (m.prog, m.vers, m.prot)) then r.map (fun m => (m.prog, m.vers, m.prot))
      else r.map (fun m => (m.prog, m.vers, m.prot)) ++ [(p, v, t)] := by
  induction r with
  | nil => simp [register]
  | cons m ms ih =>
    simp only [register]
    by_cases h : sameKey m p v t = true
    · have hk := (sameKey_iff m p v t).mp h
      simp [h, hk]
    · have hf : sameKey m p v t = false := by simpa using h
      have hk : ¬ (m.prog, m.vers, m.prot) = (p, v, t) := fun e => h ((sameKey_iff m p v t).mpr e)
      simp only [hf, Bool.false_eq_true, if_false, List.map_cons, ih, List.mem_cons]
      have hk' : ¬ (p, v, t) = (m.prog, m.vers, m.prot) := fun e => hk e.symm
      simp only [hk', false_or]
      split <;> simp

theorem uniq_register (r : Registry) (p v t port : Nat) (h : Uniq r) : Uniq (register r p v t port) := by
  unfold Uniq at *
  rw [keys_register]
  split
  · exact h
  · rename_i hn
    rw [List.nodup_append]
    refine ⟨h, by simp, ?_⟩
    intro a ha b hb
    simp only [List.mem_singleton] at hb
    subst hb
    intro e; subst e; exact hn ha

theorem uniq_unregister (r : Registry) (p v t : Nat) (h : Uniq r) : Uniq (unregister r p v t) :=
  List.Nodup.sublist ((List.eraseP_sublist).map _) h

theorem lookup_unregister_same (r : Registry) (p v t : Nat) (h : Uniq r) :
    lookup (unregister r p v t) p v t = none := by
  induction r with
  | nil => simp [unregister, lookup]
  | cons m ms ih =>
    simp only [Uniq, List.map_cons, List.nodup_cons] at h
    simp only [unregister, List.eraseP_cons]
    by_cases hs : sameKey m p v t = true
    · simp only [hs, cond_true]
      have hk := (sameKey_iff m p v t).mp hs
      simp only [lookup, Option.map_eq_none_iff, List.find?_eq_none]
      intro x hx hsx
      apply h.1
      rw [hk, ← (sameKey_iff x p v t).mp hsx]
      exact List.mem_map_of_mem (f := fun m => (m.prog, m.vers, m.prot)) hx
    · have hf : sameKey m p v t = false := by simpa using hs
      simp only [hf, cond_false, lookup, List.find?_cons]
      have := ih h.2
      simp only [unregister, lookup] at this
      exact this

end Portmap
end Absnfs
