/-
  ServerDirPlus: following READDIRPLUS cookies lists every entry exactly once (C26), the whole-walk induction
  that ServerDir has for READDIR. The state is threaded through the pages (every page allocates handles); what
  the pages list does not depend on it.
-/
import Absnfs.ServerDir
namespace Absnfs
namespace Server

/-- every entry fits into an otherwise empty READDIRPLUS page -/
def AllFitPlus (limit : Nat) (nodes : List Node) : Prop :=
  ∀ e ∈ nodes, dirListHeader + entrySize (baseName e.path) + plusExtra + dirListTrailer ≤ limit

/-- follow the cookies: concatenate READDIRPLUS pages until eof -/
def walkPagesPlus (limit : Nat) (nodes : List Node) : Nat → St → Nat → Option (List Rfc.DirEntPlus)
  | 0, _, _ => none
  | fuel + 1, s, cookie =>
    match fillDirPlus limit cookie s 0 dirListHeader 0 nodes with
    | (_, .tooSmall) => none
    | (_, .done ents false) => some ents
    | (s', .done ents true) =>
      match ents.getLast? with
      | none => none
      | some last => (walkPagesPlus limit nodes fuel s' last.cookie).map (ents ++ ·)

theorem getLast?_map_stripPlus (ents : List Rfc.DirEntPlus) : (ents.map stripPlus).getLast? = ents.getLast?.map stripPlus := by
  simp [List.getLast?_map]

/-- C26 (READDIRPLUS): following the cookies from any position lists exactly the remaining entries, each once,
    in order, every one with attributes and a handle, and ends with eof — provided each entry fits into a page
    on its own. Whatever the server state at each page. -/
theorem walkPagesPlus_complete (limit : Nat) (nodes : List Node) (hfit : AllFitPlus limit nodes)
    (hl : dirListHeader + dirListTrailer ≤ limit) (fuel : Nat) (s : St) (cookie : Nat)
    (hc : cookie ≤ nodes.length) (hfuel : nodes.length - cookie < fuel) :
    ∃ ents, walkPagesPlus limit nodes fuel s cookie = some ents ∧
      ents.map stripPlus = numbered cookie (nodes.drop cookie) ∧ ∀ e ∈ ents, e.attr.isSome ∧ e.fh.isSome := by
  induction fuel generalizing s cookie with
  | zero => omega
  | succ fuel ih =>
    unfold walkPagesPlus
    have hp := pagePlus_spec limit cookie s nodes hc hl
    generalize fillDirPlus limit cookie s 0 dirListHeader 0 nodes = res at hp
    obtain ⟨s', fl⟩ := res
    cases fl with
    | tooSmall =>
      obtain ⟨_, e, es, hdrop, hbig⟩ := hp
      have hmem : e ∈ nodes := List.mem_of_mem_drop (by rw [hdrop]; exact List.mem_cons_self ..)
      have := hfit e hmem
      omega
    | done ents lim =>
      obtain ⟨k, hk, hents, hsome', hfit', hall, hsome⟩ := hp
      cases lim with
      | false =>
        simp only
        refine ⟨ents, rfl, ?_, hsome'⟩
        rw [hents, hall rfl, List.take_length]
      | true =>
        simp only
        obtain ⟨hpos, hk', _⟩ := hsome rfl
        have hk0 : 0 < k := by omega
        have hlen : ((nodes.drop cookie).take k).length = k := by
          simp only [List.length_take]; omega
        have hne : (nodes.drop cookie).take k ≠ [] := by
          intro h
          rw [h] at hlen
          simp at hlen
          omega
        obtain ⟨last, hlast, hcookie⟩ := numbered_getLast cookie ((nodes.drop cookie).take k) hne
        have hl2 : ents.getLast?.map stripPlus = some last := by rw [← getLast?_map_stripPlus, hents, hlast]
        cases hgl : ents.getLast? with
        | none => rw [hgl] at hl2; simp at hl2
        | some lastp =>
          rw [hgl] at hl2
          simp only [Option.map_some, Option.some.injEq] at hl2
          have hck : lastp.cookie = cookie + k := by
            have : (stripPlus lastp).cookie = last.cookie := by rw [hl2]
            rw [← hlen, ← hcookie, ← this]; rfl
          simp only
          rw [hck]
          have hk'' : k < nodes.length - cookie := by simpa using hk'
          obtain ⟨rest, hwalk, hrest, hrsome⟩ := ih s' (cookie + k) (by omega) (by omega)
          rw [hwalk]
          refine ⟨ents ++ rest, rfl, ?_, ?_⟩
          · rw [List.map_append, hents, hrest]
            have : nodes.drop cookie = (nodes.drop cookie).take k ++ nodes.drop (cookie + k) := by
              rw [← List.drop_drop, List.take_append_drop]
            conv => rhs; rw [this, numbered_append, hlen]
          · intro e he
            rcases List.mem_append.mp he with h1 | h1
            · exact hsome' e h1
            · exact hrsome e h1

end Server
end Absnfs
