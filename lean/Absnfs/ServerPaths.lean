/-
  ServerPaths: the shape of every path the server builds (C07).
-/
import Absnfs.ServerFrame
namespace Absnfs
namespace Server

/-- a name that can be joined to a clean path and keep it clean -/
def NoSep (c : Bytes) : Prop := c ≠ [] ∧ 47 ∉ c ∧ c ≠ [46] ∧ c ≠ [46, 46]

/-- absolute and normalized: "/" or "/c1/c2/…" with every component free of '/', non-empty, not "." or ".." -/
inductive CleanPath : Bytes → Prop
  | root : CleanPath [47]
  | child (d name : Bytes) (hd : CleanPath d) (hn : NoSep name) : CleanPath (joinName d name)

/-- what validateFilename accepts -/
theorem validateFilename_ok (n : Bytes) (h : validateFilename n = 0) :
    n ≠ [] ∧ n.length ≤ 255 ∧ (0 : UInt8) ∉ n ∧ (47 : UInt8) ∉ n ∧ (92 : UInt8) ∉ n ∧ n ≠ [46] ∧ n ≠ [46, 46] := by
  unfold validateFilename at h
  split at h
  · simp at h
  · split at h
    · simp at h
    · split at h
      · simp at h
      · split at h
        · simp at h
        · split at h
          · simp at h
          · rename_i h1 h2 h3 h4 h5
            simp only [List.contains_eq_mem, decide_eq_true_eq, not_or] at h3 h4 h5
            exact ⟨h1, by omega, h3, h4.1, h4.2, h5.1, h5.2⟩

theorem validateFilename_complete (n : Bytes) (h1 : n ≠ []) (h2 : n.length ≤ 255) (h3 : (0 : UInt8) ∉ n) (h4 : (47 : UInt8) ∉ n)
    (h5 : (92 : UInt8) ∉ n) (h6 : n ≠ [46]) (h7 : n ≠ [46, 46]) : validateFilename n = 0 := by
  unfold validateFilename
  simp [h1, h3, h4, h5, h6, h7]
  omega

theorem noSep_of_valid (n : Bytes) (h : validateFilename n = 0) : NoSep n := by
  obtain ⟨a, _, _, d, _, f, g⟩ := validateFilename_ok n h
  exact ⟨a, d, f, g⟩

/-- the path the server builds from a handle's path and a validated name is clean -/
theorem joinName_clean (d name : Bytes) (hd : CleanPath d) (hv : validateFilename name = 0) : CleanPath (joinName d name) :=
  .child d name hd (noSep_of_valid name hv)

/-- names taken from a directory listing pass the same test before they are joined (lookupEach's filter) -/
theorem listing_name_noSep (n : Bytes)
    (h : ¬ (n = [46] ∨ n = [46, 46] ∨ n = [] ∨ n.contains 47 = true ∨ n.contains 92 = true)) : NoSep n := by
  simp only [not_or, List.contains_eq_mem, decide_eq_true_eq] at h
  exact ⟨h.2.2.1, h.2.2.2.1, h.1, h.2.1⟩

/-- the handle table only holds clean paths -/
def HandlesClean (s : St) : Prop := ∀ x ∈ s.hs.live, CleanPath x.2

theorem nodeOf_clean {s : St} {h : Nat} {n : Node} (hc : HandlesClean s) (hn : nodeOf s h = some n) : CleanPath n.path := by
  unfold nodeOf at hn
  cases hp : Handles.get s.hs h with
  | none => simp [hp] at hn
  | some p =>
    simp only [hp] at hn
    cases hf : s.nodes.find? (·.1 == h) with
    | none => simp [hf] at hn
    | some x =>
      simp only [hf, Option.map_some, Option.some.injEq] at hn
      rw [← hn]
      unfold Handles.get at hp
      cases hl : s.hs.live.find? (·.1 == h) with
      | none => simp [hl] at hp
      | some y =>
        simp only [hl, Option.map_some, Option.some.injEq] at hp
        rw [← hp]
        exact hc y (List.mem_of_find?_eq_some hl)

/-- Allocate keeps the table clean when the node's path is -/
theorem allocate_clean (s : St) (n : Node) (hc : HandlesClean s) (hp : CleanPath n.path) : HandlesClean (allocate s n).1 := by
  unfold allocate HandlesClean
  simp only [setNode]
  unfold Handles.alloc
  split
  · exact hc
  · simp only
    split
    · intro x hx
      have hsub := (Handles.evictN_sublist (Handles.evictCount (Handles.effMax s.cfg.defaultMaxHandles s.hs.maxRaw) s.cfg.evictDivisor)
        (Handles.pick s.hs).1 (((Handles.pick s.hs).1, n.path) :: s.hs.live)).subset hx
      simp only [List.mem_cons] at hsub
      rcases hsub with rfl | hm
      · exact hp
      · exact hc x hm
    · intro x hx
      simp only [List.mem_cons] at hx
      rcases hx with rfl | hm
      · exact hp
      · exact hc x hm

/-- Lookup returns a node for the path it was asked about -/
theorem lookupPath_path {s s' : St} {now : Nat} {p : Bytes} {node : Node} (h : lookupPath s now p = (s', .ok node)) :
    node.path = p := by
  unfold lookupPath at h
  split at h
  · simp at h
  · simp only at h
    split at h
    · simp only [Prod.mk.injEq, Except.ok.injEq] at h; rw [← h.2]
    · simp at h
    · split at h
      · simp at h
      · simp only [Prod.mk.injEq, Except.ok.injEq] at h; rw [← h.2]

theorem lookupPath_hs (s : St) (now : Nat) (p : Bytes) : (lookupPath s now p).1.hs = s.hs := by
  unfold lookupPath
  split
  · rfl
  · simp only
    split
    · rfl
    · rfl
    · split
      · split <;> rfl
      · rfl

/-- C07 (LOOKUP): the table stays clean — the only path added is the directory handle's clean path joined with
    the validated name. -/
theorem procLookup_clean (s : St) (c : Ctx) (args : Bytes) (hc : HandlesClean s) : HandlesClean (procLookup s c args).1 := by
  unfold procLookup
  split
  · exact hc
  · split
    · exact hc
    · split
      · exact hc
      · rename_i name _ _ hv
        split
        · exact hc
        · rename_i n hn
          have keep : ∀ (t : St) (k : Attrs → Outcome), HandlesClean t → HandlesClean (lookupDirAttr t c.now n k).1 := by
            intro t k ht x hx
            rw [lookupDirAttr_fst, getAttrOr_hs] at hx
            exact ht x hx
          split
          · exact keep s _ hc
          · split
            · rename_i s1 st hl
              have := lookupPath_hs s c.now (joinName n.path name); rw [hl] at this
              exact keep s1 _ (by intro x hx; rw [this] at hx; exact hc x hx)
            · rename_i s1 ln hl
              have hhs := lookupPath_hs s c.now (joinName n.path name); rw [hl] at hhs
              have hc1 : HandlesClean s1 := by intro x hx; rw [hhs] at hx; exact hc x hx
              have hpath := lookupPath_path hl
              simp only
              apply keep
              apply allocate_clean s1 ln hc1
              rw [hpath]
              exact joinName_clean n.path name (nodeOf_clean hc hn) (by simpa using hv)

/-- SYMLINK only creates links whose target is relative and free of ".." components -/
theorem procSymlink_target_contained (s s' : St) (c : Ctx) (args : Bytes) (body : Rfc.Body)
    (h : procSymlink s c args = (s', .res ⟨0, body⟩)) :
    ∃ (hd : Nat) (r1 r2 r3 r4 name target : Bytes) (sa : Sattr3),
      decFh' s args = some (hd, r1) ∧ decStr s r1 = some (name, r2) ∧ decSattr3 r2 = some (sa, r3) ∧
      decStr s r3 = some (target, r4) ∧
      validateFilename name = 0 ∧ target ≠ [] ∧ target.head? ≠ some 47 ∧ targetHasDotDot target = false := by
  unfold procSymlink at h
  split at h
  · simp [res] at h
  · split at h
    · simp [res] at h
    · rename_i hd r1 hfh
      split at h
      · simp [res] at h
      · rename_i name r2 hname
        split at h
        · rename_i hv
          simp only [res, Prod.mk.injEq, Outcome.res.injEq, Rfc.Res.mk.injEq] at h
          exact absurd h.2.1 hv
        · rename_i hv
          split at h
          · simp [res] at h
          · rename_i sa r3 hsa
            split at h
            · simp [res] at h
            · rename_i target r4 htarget
              split at h
              · simp [res] at h
              · rename_i hne
                split at h
                · simp [res] at h
                · rename_i habs
                  split at h
                  · simp [res] at h
                  · rename_i hdd
                    exact ⟨hd, r1, r2, r3, r4, name, target, sa, hfh, hname, hsa, htarget, by simpa using hv, hne, habs, by simpa using hdd⟩

/-- READLINK never returns a relative target with a ".." component -/
theorem procReadlink_no_dotdot (s s' : St) (c : Ctx) (args : Bytes) (o : Option Rfc.Fattr) (t : Bytes)
    (h : procReadlink s c args = (s', .res ⟨0, .readlinkOk o t⟩)) : t.head? = some 47 ∨ targetHasDotDot t = false := by
  unfold procReadlink at h
  split at h
  · simp [res] at h
  · split at h
    · simp [res] at h
    · split at h
      · simp [res] at h
      · split at h
        · simp [res] at h
        · rename_i t' _
          split at h
          · simp [res] at h
          · rename_i hchk
            split at h
            · simp [res] at h
            · simp only [res, Prod.mk.injEq, Outcome.res.injEq, Rfc.Res.mk.injEq, Rfc.Body.readlinkOk.injEq, true_and] at h
              rw [← h.2.2]
              by_cases ha : t'.head? = some 47
              · exact .inl ha
              · right
                by_cases hd : targetHasDotDot t' = true
                · exact absurd ⟨ha, hd⟩ hchk
                · simpa using hd

end Server
end Absnfs

namespace Absnfs
namespace Server

/-- joining validated components from the root gives a clean path (MNT's path after path.Clean) -/
theorem foldl_join_clean (comps : List Bytes) (h : ∀ c ∈ comps, validateFilename c = 0) (acc : Bytes)
    (hacc : acc = [] ∨ (CleanPath acc ∧ acc ≠ [47])) :
    comps ≠ [] ∨ acc ≠ [] → CleanPath (comps.foldl (fun a c => a ++ 47 :: c) acc) := by
  induction comps generalizing acc with
  | nil =>
    intro hne
    simp only [List.foldl_nil]
    rcases hacc with h0 | h1
    · rcases hne with h2 | h2
      · exact absurd rfl h2
      · exact absurd h0 h2
    · exact h1.1
  | cons c cs ih =>
    intro _
    simp only [List.foldl_cons]
    have hc := h c (List.mem_cons_self ..)
    have hns := noSep_of_valid c hc
    apply ih (fun x hx => h x (List.mem_cons_of_mem _ hx))
    · right
      rcases hacc with h0 | ⟨h1, h2⟩
      · subst h0
        refine ⟨?_, ?_⟩
        · have : ([] : Bytes) ++ 47 :: c = joinName [47] c := by simp [joinName]
          rw [this]; exact .child [47] c .root hns
        · intro heq
          simp only [List.nil_append, List.cons.injEq, true_and] at heq
          exact hns.1 heq
      · refine ⟨?_, ?_⟩
        · have : acc ++ 47 :: c = joinName acc c := by simp [joinName, h2]
          rw [this]; exact .child acc c h1 hns
        · intro heq
          have := congrArg List.length heq
          simp only [List.length_append, List.length_cons, List.length_nil] at this
          have : acc.length = 0 := by omega
          have hnil : acc = [] := List.eq_nil_of_length_eq_zero this
          rw [hnil] at heq
          simp only [List.nil_append, List.cons.injEq, true_and] at heq
          exact hns.1 heq
    · right
      intro heq
      have := congrArg List.length heq
      simp at this

end Server
end Absnfs
