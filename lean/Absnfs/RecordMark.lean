/-
  RecordMark: RFC 1831 §10 record marking.
  Models rpc_transport.go: RecordMarkingReader.ReadRecord, RecordMarkingWriter.WriteRecord.
  The stream is the list of bytes still to be read; a reader returns the record and the remaining stream.
-/
import Absnfs.Xdr
namespace Absnfs

/-- Fragment header: 31-bit length, top bit = last fragment. -/
def fragHdr (last : Bool) (len : Nat) : Bytes :=
  encU32 (if last then 2147483648 + len else len)

/-- ReadRecord's loop. `fuel` bounds the number of fragments (each consumes ≥ 4 bytes of the stream). -/
def readFrags : Nat → Nat → Bytes → Bytes → Option (Bytes × Bytes)
  | 0, _, _, _ => none
  | fuel + 1, maxRec, acc, bs =>
    match decU32 bs with
    | none => none
    | some (hdr, r) =>
      let len := hdr % 2147483648
      if acc.length + len > maxRec then none else
      match take? len r with
      | none => none
      | some (frag, r') =>
        if hdr ≥ 2147483648 then some (acc ++ frag, r')
        else readFrags fuel maxRec (acc ++ frag) r'

/-- ReadRecord: `maxRec` is the effective MaxRecordSize. -/
def readRecord (maxRec : Nat) (bs : Bytes) : Option (Bytes × Bytes) :=
  readFrags (bs.length / 4 + 1) maxRec [] bs

/-- Allocation sizes (`make([]byte, fragmentLen)`) performed by ReadRecord, in order. -/
def readFragsAllocs : Nat → Nat → Nat → Bytes → List Nat
  | 0, _, _, _ => []
  | fuel + 1, maxRec, accLen, bs =>
    match decU32 bs with
    | none => []
    | some (hdr, r) =>
      let len := hdr % 2147483648
      if accLen + len > maxRec then [] else
      len :: (match take? len r with
        | none => []
        | some (_, r') =>
          if hdr ≥ 2147483648 then [] else readFragsAllocs fuel maxRec (accLen + len) r')

/-- A record sent as the given fragments (all but the last without the last-fragment bit). -/
def frame : List Bytes → Bytes
  | [] => []
  | [p] => fragHdr true p.length ++ p
  | p :: q :: ps => fragHdr false p.length ++ p ++ frame (q :: ps)

theorem frame_length_ge : ∀ (ps : List Bytes), 4 * ps.length ≤ (frame ps).length
  | [] => by simp [frame]
  | [p] => by simp [frame, fragHdr]
  | p :: q :: ps => by
    have := frame_length_ge (q :: ps)
    simp [frame, fragHdr] at this ⊢
    omega

theorem readFrags_frame (fuel maxRec : Nat) (acc : Bytes) (pieces : List Bytes) (rest : Bytes)
    (hne : pieces ≠ []) (hfuel : pieces.length ≤ fuel)
    (hsz : acc.length + pieces.flatten.length ≤ maxRec)
    (h31 : ∀ p ∈ pieces, p.length < 2147483648) :
    readFrags fuel maxRec acc (frame pieces ++ rest) = some (acc ++ pieces.flatten, rest) := by
  induction pieces generalizing fuel acc with
  | nil => exact absurd rfl hne
  | cons p ps ih =>
    have hp := h31 p (by simp)
    cases fuel with
    | zero => simp at hfuel
    | succ fuel =>
      cases ps with
      | nil =>
        simp only [frame, fragHdr, readFrags, List.append_assoc, if_true]
        rw [decU32_encU32 _ (by omega)]
        simp only
        have hmod : (2147483648 + p.length) % 2147483648 = p.length := by omega
        simp at hsz
        rw [hmod, if_neg (by omega), take?_append]
        simp
      | cons q qs =>
        simp only [frame, fragHdr, readFrags, List.append_assoc]
        rw [decU32_encU32 _ (by simp; omega)]
        simp only [Bool.false_eq_true, if_false]
        have hmod : p.length % 2147483648 = p.length := by omega
        simp at hsz
        rw [hmod, if_neg (by omega), take?_append]
        simp only
        rw [if_neg (by omega)]
        have := ih fuel (acc ++ p) (by simp) (by simp at hfuel ⊢; omega)
          (by simp; omega) (fun x hx => h31 x (by simp [hx]))
        rw [this]
        simp

/-- Reassembly: any fragmentation of a record (fragments < 2^31 bytes, total ≤ maxRec) reads back as the
    concatenation, leaving exactly the bytes after the record in the stream. -/
theorem readRecord_frame (maxRec : Nat) (pieces : List Bytes) (rest : Bytes)
    (hne : pieces ≠ []) (hsz : pieces.flatten.length ≤ maxRec)
    (h31 : ∀ p ∈ pieces, p.length < 2147483648) :
    readRecord maxRec (frame pieces ++ rest) = some (pieces.flatten, rest) := by
  unfold readRecord
  have hf := frame_length_ge pieces
  have := readFrags_frame ((frame pieces ++ rest).length / 4 + 1) maxRec [] pieces rest hne
    (by simp; omega) (by simpa using hsz) h31
  simpa using this

/-- Fragments of at most `m` bytes, in order; the empty record is one empty (last) fragment. -/
def chunks : Nat → Nat → Bytes → List Bytes
  | 0, _, d => [d]
  | f + 1, m, d => if d.length ≤ m then [d] else d.take m :: chunks f m (d.drop m)

/-- WriteRecord with effective maximum fragment size `m`. -/
def writeRecord (m : Nat) (d : Bytes) : Bytes := frame (chunks d.length m d)

theorem chunks_ne_nil (f m : Nat) (d : Bytes) : chunks f m d ≠ [] := by
  cases f with
  | zero => simp [chunks]
  | succ f => simp only [chunks]; split <;> simp

theorem chunks_flatten (f m : Nat) (d : Bytes) : (chunks f m d).flatten = d := by
  induction f generalizing d with
  | zero => simp [chunks]
  | succ f ih =>
    simp only [chunks]
    split
    · simp
    · simp [ih, List.take_append_drop]

theorem chunks_bounded (f m : Nat) (d : Bytes) (hm : 0 < m) (hf : d.length ≤ f) :
    ∀ p ∈ chunks f m d, p.length ≤ m := by
  induction f generalizing d with
  | zero =>
    intro p hp
    simp [chunks] at hp
    subst hp
    omega
  | succ f ih =>
    intro p hp
    simp only [chunks] at hp
    split at hp
    · simp at hp; subst hp; assumption
    · simp at hp
      rcases hp with rfl | hp
      · simp; omega
      · exact ih (d.drop m) (by simp; omega) p hp

/-- Writing then reading a record is the identity (and leaves the following stream untouched). -/
theorem readRecord_writeRecord (maxRec m : Nat) (d rest : Bytes)
    (hm : 0 < m) (hm31 : m < 2147483648) (hd : d.length ≤ maxRec) :
    readRecord maxRec (writeRecord m d ++ rest) = some (d, rest) := by
  unfold writeRecord
  have := readRecord_frame maxRec (chunks d.length m d) rest (chunks_ne_nil _ _ _)
    (by rw [chunks_flatten]; exact hd)
    (fun p hp => by have := chunks_bounded d.length m d hm (Nat.le_refl _) p hp; omega)
  rw [chunks_flatten] at this
  exact this

/-- A record whose declared size would exceed the limit is refused before its fragment is allocated. -/
theorem readFrags_oversize (fuel maxRec : Nat) (acc : Bytes) (hdr : Nat) (rest : Bytes)
    (h32 : hdr < 4294967296) (hbig : acc.length + hdr % 2147483648 > maxRec) :
    readFrags (fuel + 1) maxRec acc (encU32 hdr ++ rest) = none ∧
    readFragsAllocs (fuel + 1) maxRec acc.length (encU32 hdr ++ rest) = [] := by
  simp only [readFrags, readFragsAllocs]
  rw [decU32_encU32 _ h32]
  simp [hbig]

/-- Every allocation made while reading a record is within the record size limit, and so is their sum. -/
theorem readFragsAllocs_sum (fuel maxRec accLen : Nat) (bs : Bytes) (hacc : accLen ≤ maxRec) :
    accLen + (readFragsAllocs fuel maxRec accLen bs).sum ≤ maxRec := by
  induction fuel generalizing accLen bs with
  | zero => simp [readFragsAllocs]; exact hacc
  | succ fuel ih =>
    simp only [readFragsAllocs]
    split
    · simp; exact hacc
    · rename_i hdr r _
      split
      · simp; exact hacc
      · rename_i hle
        simp only [List.sum_cons]
        split
        · simp; omega
        · split
          · simp; omega
          · rename_i fr r' _ _
            have := ih (accLen + hdr % 2147483648) r' (by omega)
            omega

end Absnfs
