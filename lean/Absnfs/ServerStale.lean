/-
  ServerStale: a request whose file handle is not in the table is refused without touching anything (C06, second
  clause, at handler level): for every NFS procedure that takes a handle, if the handle decodes and the table
  has no entry for it, the state is unchanged, the status is not NFS3_OK, and the reply body carries neither
  attributes nor data.
-/
import Absnfs.Server
namespace Absnfs
namespace Server

/-- the reply bodies of refusals: no attributes, no data -/
def BareBody (b : Rfc.Body) : Prop :=
  b = .statusOnly ∨ b = .postOp none ∨ b = .wcc wcc0 ∨ b = .wcc2 wcc0 wcc0 ∨ b = .linkRes none wcc0

def Refused (s : St) (r : St × Outcome) : Prop :=
  r.1 = s ∧ ∃ st b, r.2 = res st b ∧ st ≠ 0 ∧ BareBody b

theorem refused_mk (s : St) (st : Nat) (b : Rfc.Body) (h1 : st ≠ 0) (h2 : BareBody b) : Refused s (s, res st b) :=
  ⟨rfl, st, b, rfl, h1, h2⟩

macro "refuse" : tactic =>
  `(tactic| first
    | (apply refused_mk <;> first | decide | assumption | simp [BareBody] | (simp_all [BareBody]; done))
    | (exfalso; simp_all; done))

variable {s : St} {c : Ctx} {args r1 : Bytes} {h : Nat}

theorem procGetattr_dead (hfh : decFh' s args = some (h, r1)) (hn : nodeOf s h = none) : Refused s (procGetattr s c args) := by
  unfold procGetattr
  simp only [hfh, hn]
  repeat' split
  all_goals refuse

theorem procSetattr_dead (hfh : decFh' s args = some (h, r1)) (hn : nodeOf s h = none) : Refused s (procSetattr s c args) := by
  unfold procSetattr
  simp only [hfh, hn]
  repeat' split
  all_goals refuse

theorem procLookup_dead (hfh : decFh' s args = some (h, r1)) (hn : nodeOf s h = none) : Refused s (procLookup s c args) := by
  unfold procLookup
  simp only [hfh, hn]
  repeat' split
  all_goals refuse

theorem procAccess_dead (hfh : decFh' s args = some (h, r1)) (hn : nodeOf s h = none) : Refused s (procAccess s c args) := by
  unfold procAccess
  simp only [hfh, hn]
  repeat' split
  all_goals refuse

theorem procReadlink_dead (hfh : decFh' s args = some (h, r1)) (hn : nodeOf s h = none) : Refused s (procReadlink s c args) := by
  unfold procReadlink
  simp only [hfh, hn]
  repeat' split
  all_goals refuse

theorem procRead_dead (hfh : decFh' s args = some (h, r1)) (hn : nodeOf s h = none) : Refused s (procRead s c args) := by
  unfold procRead
  simp only [hfh, hn]
  repeat' split
  all_goals refuse

theorem procWrite_dead (hfh : decFh' s args = some (h, r1)) (hn : nodeOf s h = none) : Refused s (procWrite s c args) := by
  unfold procWrite
  simp only [hfh, hn]
  repeat' split
  all_goals refuse

theorem procCreate_dead (hfh : decFh' s args = some (h, r1)) (hn : nodeOf s h = none) : Refused s (procCreate s c args) := by
  unfold procCreate
  simp only [hfh, hn]
  repeat' split
  all_goals refuse

theorem procMkdir_dead (hfh : decFh' s args = some (h, r1)) (hn : nodeOf s h = none) : Refused s (procMkdir s c args) := by
  unfold procMkdir
  simp only [hfh, hn]
  repeat' split
  all_goals refuse

theorem procSymlink_dead (hfh : decFh' s args = some (h, r1)) (hn : nodeOf s h = none) : Refused s (procSymlink s c args) := by
  unfold procSymlink
  simp only [hfh, hn]
  repeat' split
  all_goals refuse

theorem procRemove_dead (hfh : decFh' s args = some (h, r1)) (hn : nodeOf s h = none) : Refused s (procRemove s c args) := by
  unfold procRemove
  simp only [hfh, hn]
  repeat' split
  all_goals refuse

theorem procRmdir_dead (hfh : decFh' s args = some (h, r1)) (hn : nodeOf s h = none) : Refused s (procRmdir s c args) := by
  unfold procRmdir
  simp only [hfh, hn]
  repeat' split
  all_goals refuse

theorem procRename_dead (hfh : decFh' s args = some (h, r1)) (hn : nodeOf s h = none) : Refused s (procRename s c args) := by
  unfold procRename
  simp only [hfh, hn]
  repeat' split
  all_goals refuse

theorem procReaddir_dead (hfh : decFh' s args = some (h, r1)) (hn : nodeOf s h = none) : Refused s (procReaddir s c args) := by
  unfold procReaddir
  simp only [hfh, hn]
  repeat' split
  all_goals refuse

theorem procReaddirplus_dead (hfh : decFh' s args = some (h, r1)) (hn : nodeOf s h = none) : Refused s (procReaddirplus s c args) := by
  unfold procReaddirplus
  simp only [hfh, hn]
  repeat' split
  all_goals refuse

theorem procCommit_dead (hfh : decFh' s args = some (h, r1)) (hn : nodeOf s h = none) : Refused s (procCommit s c args) := by
  unfold procCommit
  simp only [hfh, hn]
  repeat' split
  all_goals refuse

theorem withObjAttr_dead (k : Rfc.Fattr → Rfc.Body) (hfh : decFh' s args = some (h, r1)) (hn : nodeOf s h = none) :
    Refused s (withObjAttr s c args k) := by
  unfold withObjAttr
  simp only [hfh, hn]
  refuse

/-- RENAME's second (target directory) handle -/
theorem procRename_dead2 {h1 h2 : Nat} {n1 r2 r3 : Bytes} (hfh : decFh' s args = some (h1, r1)) (hs1 : decStr s r1 = some (n1, r2))
    (hfh2 : decFh' s r2 = some (h2, r3)) (hn : nodeOf s h2 = none) : Refused s (procRename s c args) := by
  unfold procRename
  simp only [hfh, hs1, hfh2, hn]
  repeat' split
  all_goals refuse

/-- C06: every NFS procedure that takes a handle (1..21) refuses a handle the table does not hold — state unchanged,
    status not NFS3_OK, no attributes and no data in the reply -/
theorem dead_handle_refused (proc : Nat) (hp : 1 ≤ proc ∧ proc ≤ 21) (hfh : decFh' s args = some (h, r1))
    (hn : nodeOf s h = none) : Refused s (handleNfs s c proc args) := by
  obtain ⟨h1, h2⟩ := hp
  unfold handleNfs
  match proc, h1, h2 with
  | 1, _, _ => exact procGetattr_dead hfh hn
  | 2, _, _ => exact procSetattr_dead hfh hn
  | 3, _, _ => exact procLookup_dead hfh hn
  | 4, _, _ => exact procAccess_dead hfh hn
  | 5, _, _ => exact procReadlink_dead hfh hn
  | 6, _, _ => exact procRead_dead hfh hn
  | 7, _, _ => exact procWrite_dead hfh hn
  | 8, _, _ => exact procCreate_dead hfh hn
  | 9, _, _ => exact procMkdir_dead hfh hn
  | 10, _, _ => exact procSymlink_dead hfh hn
  | 11, _, _ => exact refused_mk s _ _ (by decide) (by simp [BareBody])
  | 12, _, _ => exact procRemove_dead hfh hn
  | 13, _, _ => exact procRmdir_dead hfh hn
  | 14, _, _ => exact procRename_dead hfh hn
  | 15, _, _ => exact refused_mk s _ _ (by decide) (by simp [BareBody])
  | 16, _, _ => exact procReaddir_dead hfh hn
  | 17, _, _ => exact procReaddirplus_dead hfh hn
  | 18, _, _ => exact withObjAttr_dead _ hfh hn
  | 19, _, _ => exact withObjAttr_dead _ hfh hn
  | 20, _, _ => exact withObjAttr_dead _ hfh hn
  | 21, _, _ => exact procCommit_dead hfh hn
  | n + 22, _, h2 => omega

end Server
end Absnfs
