/-
  Access: the ACCESS3 decision (nfs_proc_attr.go: handleAccess).
  `selectPerm` picks the rwx bits of the caller's class; `grant` is the decision on booleans;
  `accessWire` is the function of the request mask word the handler computes.
-/
namespace Absnfs

/-- Requested / granted ACCESS3 bits as booleans. -/
structure AccessBits where
  read : Bool
  lookup : Bool
  modify : Bool
  extend : Bool
  delete : Bool
  execute : Bool
  deriving DecidableEq, Repr

/-- ACCESS3_READ=1, LOOKUP=2, MODIFY=4, EXTEND=8, DELETE=16, EXECUTE=32; higher bits are ignored. -/
def AccessBits.ofNat (m : Nat) : AccessBits :=
  { read := m.testBit 0, lookup := m.testBit 1, modify := m.testBit 2,
    extend := m.testBit 3, delete := m.testBit 4, execute := m.testBit 5 }

def AccessBits.toNat (a : AccessBits) : Nat :=
  (if a.read then 1 else 0) + (if a.lookup then 2 else 0) + (if a.modify then 4 else 0) +
  (if a.extend then 8 else 0) + (if a.delete then 16 else 0) + (if a.execute then 32 else 0)

/-- rwx bits of one permission class. -/
structure Rwx where
  r : Bool
  w : Bool
  x : Bool
  deriving DecidableEq, Repr

def Rwx.ofNat (p : Nat) : Rwx := { r := p.testBit 2, w := p.testBit 1, x := p.testBit 0 }

/-- The decision: what is granted, given the caller's class bits. -/
def grant (p : Rwx) (isDir readOnly : Bool) (q : AccessBits) : AccessBits :=
  { read := q.read && p.r,
    lookup := q.lookup && isDir && p.x,
    execute := q.execute && p.x,
    modify := !readOnly && q.modify && p.w,
    extend := !readOnly && q.extend && p.w,
    delete := !readOnly && q.delete && isDir && p.w }

/-- The word written into ACCESS3resok.access. -/
def accessWire (perm : Nat) (isDir readOnly : Bool) (mask : Nat) : Nat :=
  (grant (Rwx.ofNat perm) isDir readOnly (AccessBits.ofNat mask)).toNat

inductive PermClass where
  | owner | group | other
  deriving DecidableEq, Repr

/-- UNIX class selection as the handler does it (uid match, then primary gid, then auxiliary gids). -/
def selectClass (effUid effGid : Nat) (aux : List Nat) (fUid fGid : Nat) : PermClass :=
  if effUid = fUid then .owner
  else if effGid = fGid then .group
  else if fGid ∈ aux then .group
  else .other

def classShift : PermClass → Nat
  | .owner => 6
  | .group => 3
  | .other => 0

/-- rwx bits that apply to the caller: the class's bits, except that uid 0 gets everything. -/
def selectPerm (mode effUid effGid : Nat) (aux : List Nat) (fUid fGid : Nat) : Nat :=
  if effUid = 0 then 7
  else (mode >>> classShift (selectClass effUid effGid aux fUid fGid)) &&& 7

/-- The full ACCESS computation on a 32-bit request word. -/
def accessReply (mode : Nat) (isDir readOnly : Bool) (effUid effGid : Nat) (aux : List Nat)
    (fUid fGid : Nat) (mask : Nat) : Nat :=
  accessWire (selectPerm mode effUid effGid aux fUid fGid) isDir readOnly mask

theorem AccessBits.ofNat_toNat (a : AccessBits) : AccessBits.ofNat a.toNat = a := by
  cases a with
  | mk r l m e d x => cases r <;> cases l <;> cases m <;> cases e <;> cases d <;> cases x <;> decide

theorem AccessBits.toNat_lt (a : AccessBits) : a.toNat < 64 := by
  cases a with
  | mk r l m e d x => cases r <;> cases l <;> cases m <;> cases e <;> cases d <;> cases x <;> decide

end Absnfs
