/-
  C01's "byte-array model of the file", as an abstract specification, and the refinement: the backend model's
  byte strings under any sequence of WriteAt / Truncate are, position by position, what the specification says —
  for every history, with no bound on its length. READ's answer (`slice`) is then a function of the
  specification alone, and two byte strings with the same abstraction are equal.
-/
import Absnfs.BytesComm

namespace Absnfs.Fs

/-- a file as the property describes it: a size, and a byte at every position -/
structure Spec where
  size : Nat
  byte : Nat → UInt8

/-- what a byte string stands for: its length, its bytes, zero everywhere else -/
def absBytes (d : Bytes) : Spec := ⟨d.length, fun i => d.getD i 0⟩

inductive FileOp where
  | write (off : Nat) (w : Bytes)
  | trunc (n : Nat)

/-- WRITE in the specification: the payload in its range, everything else as before, size grows to cover it;
    an empty payload changes nothing -/
def Spec.write (f : Spec) (off : Nat) (w : Bytes) : Spec :=
  if w = [] then f
  else ⟨max f.size (off + w.length), fun i => if off ≤ i ∧ i < off + w.length then w.getD (i - off) 0 else f.byte i⟩

/-- SETATTR(size) in the specification: bytes below the new size stay, everything from it on is zero -/
def Spec.trunc (f : Spec) (n : Nat) : Spec := ⟨n, fun i => if i < n then f.byte i else 0⟩

def Spec.step (f : Spec) : FileOp → Spec
  | .write off w => f.write off w
  | .trunc n => f.trunc n

def applyFileOp (d : Bytes) : FileOp → Bytes
  | .write off w => writeBytes d off w
  | .trunc n => truncBytes d n

theorem absBytes_write (d : Bytes) (off : Nat) (w : Bytes) : absBytes (writeBytes d off w) = (absBytes d).write off w := by
  by_cases hw : w = []
  · simp only [writeBytes, Spec.write, hw, if_true]
  · simp only [Spec.write, hw, if_false, absBytes, writeBytes_length _ _ _ hw]
    congr 1
    funext i
    exact writeBytes_getD d off w i hw

theorem absBytes_trunc (d : Bytes) (n : Nat) : absBytes (truncBytes d n) = (absBytes d).trunc n := by
  simp only [Spec.trunc, absBytes, truncBytes_length]
  congr 1
  funext i
  exact truncBytes_getD d n i

theorem absBytes_step (d : Bytes) (op : FileOp) : absBytes (applyFileOp d op) = (absBytes d).step op := by
  cases op with
  | write off w => exact absBytes_write d off w
  | trunc n => exact absBytes_trunc d n

/-- refinement, every history: running the operations on byte strings and abstracting = running the specification -/
theorem absBytes_run (d : Bytes) (ops : List FileOp) :
    absBytes (ops.foldl applyFileOp d) = ops.foldl Spec.step (absBytes d) := by
  induction ops generalizing d with
  | nil => rfl
  | cons op ops ih => simp only [List.foldl_cons]; rw [ih, absBytes_step]

/-- a byte string is determined by what it stands for -/
theorem absBytes_injective {a b : Bytes} (h : absBytes a = absBytes b) : a = b := by
  have hs : a.length = b.length := congrArg Spec.size h
  have hb : (fun i => a.getD i 0) = (fun i => b.getD i 0) := congrArg Spec.byte h
  exact bytes_ext_getD hs (fun i _ => congrFun hb i)

/-- beyond the size the specification's bytes are zero -/
theorem absBytes_zero_beyond (d : Bytes) (i : Nat) (h : (absBytes d).size ≤ i) : (absBytes d).byte i = 0 := by
  simp only [absBytes] at *
  rw [List.getD_eq_getElem?_getD, List.getElem?_eq_none h]; rfl

/-- READ's data is a function of the specification: min(count, size - offset) bytes, the i-th being the
    specification's byte at offset + i -/
theorem slice_from_spec (d : Bytes) (off cnt : Nat) :
    (slice d off cnt).length = min cnt ((absBytes d).size - off) ∧
    ∀ i, i < cnt → (slice d off cnt).getD i 0 = (absBytes d).byte (off + i) :=
  ⟨slice_length d off cnt, fun i hi => slice_getD d off cnt i hi⟩

/-- a hole reads as zeros: after a write beyond the old end, the bytes between the old end and the write's
    offset are zero -/
theorem hole_reads_zero (d : Bytes) (off : Nat) (w : Bytes) (hw : w ≠ []) (i : Nat) (h1 : d.length ≤ i) (h2 : i < off) :
    (writeBytes d off w).getD i 0 = 0 := by
  rw [writeBytes_getD _ _ _ _ hw]
  have : ¬ (off ≤ i ∧ i < off + w.length) := by omega
  simp only [this, if_false]
  rw [List.getD_eq_getElem?_getD, List.getElem?_eq_none h1]; rfl

end Absnfs.Fs

namespace Absnfs.Fs

/-- the size test of the server (C25) on one operation: where the operation would end -/
def FileOp.endsAt : FileOp → Nat
  | .write off w => off + w.length
  | .trunc n => n

/-- an operation under a size limit: refused (file unchanged) when it would end beyond the limit -/
def guardedOp (lim : Nat) (d : Bytes) (op : FileOp) : Bytes := if op.endsAt > lim then d else applyFileOp d op

theorem applyFileOp_length_le (d : Bytes) (op : FileOp) (lim : Nat) (hd : d.length ≤ lim) (ho : op.endsAt ≤ lim) :
    (applyFileOp d op).length ≤ lim := by
  cases op with
  | write off w =>
    simp only [applyFileOp, FileOp.endsAt] at *
    by_cases hw : w = []
    · simp only [writeBytes, hw, if_true]; exact hd
    · rw [writeBytes_length _ _ _ hw]; omega
  | trunc n =>
    simp only [applyFileOp, FileOp.endsAt, truncBytes_length] at *; exact ho

/-- every history, any operations at all (accepted or refused), any length: a file within the limit stays within it -/
theorem guarded_run_length_le (lim : Nat) (d : Bytes) (ops : List FileOp) (hd : d.length ≤ lim) :
    (ops.foldl (guardedOp lim) d).length ≤ lim := by
  induction ops generalizing d with
  | nil => exact hd
  | cons op ops ih =>
    simp only [List.foldl_cons]
    apply ih
    unfold guardedOp
    split
    · exact hd
    · exact applyFileOp_length_le d op lim hd (by omega)

/-- and a history that never asks for more than the limit is not affected by the limit at all -/
theorem guarded_run_eq_unguarded (lim : Nat) (d : Bytes) (ops : List FileOp) (h : ∀ op ∈ ops, op.endsAt ≤ lim) :
    ops.foldl (guardedOp lim) d = ops.foldl applyFileOp d := by
  induction ops generalizing d with
  | nil => rfl
  | cons op ops ih =>
    simp only [List.foldl_cons]
    have : guardedOp lim d op = applyFileOp d op := by
      unfold guardedOp
      have := h op List.mem_cons_self
      split
      · omega
      · rfl
    rw [this]
    exact ih _ (fun o ho => h o (List.mem_cons_of_mem _ ho))

end Absnfs.Fs
