/-
  ServerReadOnly: the procedures that never call a modifying backend operation leave the filesystem as it
  is; with the read-only policy in force every procedure does.
-/
import Absnfs.ServerFrame
namespace Absnfs
namespace Server

/-- close goals of the form `(… : St × Outcome).1.fs = s.fs` by splitting every match/if and using the frame lemmas -/
macro "frame_fs" : tactic => `(tactic|
  repeat (first
    | rfl
    | (simp only [getAttr_fs, lookupPath_fs, readDir_fs, refreshEach_fs, fillDirPlus_fs, allocate_fs, acInv_fs, acGet_fs,
        acPut_fs, getAttrOr_fs]; done)
    | split))

theorem getAttr_fs' {s s' : St} {now : Nat} {n : Node} {r : Except Fs.Errno Attrs} (h : getAttr s now n = (s', r)) : s'.fs = s.fs := by
  have := getAttr_fs s now n; rw [h] at this; exact this

theorem lookupPath_fs' {s s' : St} {now : Nat} {p : Bytes} {r : Except Fs.Errno Node} (h : lookupPath s now p = (s', r)) : s'.fs = s.fs := by
  have := lookupPath_fs s now p; rw [h] at this; exact this

theorem readDir_fs' {s s' : St} {now : Nat} {d : Node} {r : Except Fs.Errno (List Node)} (h : readDir s now d = (s', r)) : s'.fs = s.fs := by
  have := readDir_fs s now d; rw [h] at this; exact this

theorem fillDirPlus_fs' {limit cookie : Nat} {s s' : St} {i used cnt : Nat} {l : List Node} {r : Fill Rfc.DirEntPlus}
    (h : fillDirPlus limit cookie s i used cnt l = (s', r)) : s'.fs = s.fs := by
  have := fillDirPlus_fs limit cookie s i used cnt l; rw [h] at this; exact this

theorem procGetattr_fs (s : St) (c : Ctx) (args : Bytes) : (procGetattr s c args).1.fs = s.fs := by
  unfold procGetattr
  split
  · rfl
  · split
    · rfl
    · split
      · rename_i h; exact getAttr_fs' h
      · rename_i h; exact getAttr_fs' h

theorem procLookup_fs (s : St) (c : Ctx) (args : Bytes) : (procLookup s c args).1.fs = s.fs := by
  unfold procLookup
  split
  · rfl
  · split
    · rfl
    · split
      · rfl
      · split
        · rfl
        · split
          · rw [lookupDirAttr_fst, getAttrOr_fs]
          · split
            · rename_i h; rw [lookupDirAttr_fst, getAttrOr_fs]; exact lookupPath_fs' h
            · rename_i h; simp only [lookupDirAttr_fst, getAttrOr_fs, allocate_fs]; exact lookupPath_fs' h

theorem procAccess_fs (s : St) (c : Ctx) (args : Bytes) : (procAccess s c args).1.fs = s.fs := by
  unfold procAccess
  split
  · rfl
  · split
    · rfl
    · split
      · rfl
      · split
        · rename_i h; exact getAttr_fs' h
        · rename_i h; exact getAttr_fs' h

theorem procReadlink_fs (s : St) (c : Ctx) (args : Bytes) : (procReadlink s c args).1.fs = s.fs := by
  unfold procReadlink
  split
  · rfl
  · split
    · rfl
    · split
      · rfl
      · split
        · rfl
        · split
          · rfl
          · split
            · rename_i h; exact getAttr_fs' h
            · rename_i h; exact getAttr_fs' h

theorem procRead_fs (s : St) (c : Ctx) (args : Bytes) : (procRead s c args).1.fs = s.fs := by
  unfold procRead
  split
  · rfl
  · split
    · rfl
    · split
      · rfl
      · split
        · rfl
        · split
          · rfl
          · split
            · rfl
            · simp only
              split
              · rfl
              · split
                · rename_i h; exact getAttr_fs' h
                · rename_i h; exact getAttr_fs' h

theorem withObjAttr_fs (s : St) (c : Ctx) (args : Bytes) (k : Rfc.Fattr → Rfc.Body) :
    (withObjAttr s c args k).1.fs = s.fs := by
  unfold withObjAttr
  split
  · rfl
  · split
    · rfl
    · split
      · rename_i h; exact getAttr_fs' h
      · rename_i h; exact getAttr_fs' h

theorem procReaddir_fs (s : St) (c : Ctx) (args : Bytes) : (procReaddir s c args).1.fs = s.fs := by
  unfold procReaddir
  split
  · rfl
  · split
    · rfl
    · split
      · rfl
      · split
        · rfl
        · split
          · rfl
          · split
            · rfl
            · split
              · rename_i h; exact readDir_fs' h
              · rename_i h1
                split
                · rename_i h2; rw [getAttr_fs' h2]; exact readDir_fs' h1
                · rename_i h2
                  simp only
                  split <;> (simp only; rw [getAttr_fs' h2]; exact readDir_fs' h1)

theorem procReaddirplus_fs (s : St) (c : Ctx) (args : Bytes) : (procReaddirplus s c args).1.fs = s.fs := by
  unfold procReaddirplus
  split
  · rfl
  · split
    · rfl
    · split
      · rfl
      · split
        · rfl
        · split
          · rfl
          · split
            · rfl
            · split
              · rfl
              · split
                · rename_i h; exact readDir_fs' h
                · rename_i h1
                  simp only
                  split
                  · rename_i h2; rw [getAttr_fs' h2, refreshEach_fs]; exact readDir_fs' h1
                  · rename_i h2
                    split
                    · rename_i h3
                      rw [fillDirPlus_fs' h3, getAttr_fs' h2, refreshEach_fs]; exact readDir_fs' h1
                    · rename_i h3
                      rw [fillDirPlus_fs' h3, getAttr_fs' h2, refreshEach_fs]; exact readDir_fs' h1

theorem procMnt_fs (s : St) (c : Ctx) (args : Bytes) : (procMnt s c args).1.fs = s.fs := by
  unfold procMnt
  split
  · rfl
  · split
    · rfl
    · simp only
      generalize (if cleanAbs _ = [47] then 0 else firstBadComponent _) = bad
      split
      · rfl
      · split
        · rename_i h; exact lookupPath_fs' h
        · rename_i h; simp only [allocate_fs]; exact lookupPath_fs' h

theorem handleMount_fs (s : St) (c : Ctx) (proc : Nat) (args : Bytes) : (handleMount s c proc args).1.fs = s.fs := by
  unfold handleMount
  split <;> first | rfl | exact procMnt_fs s c args | (split <;> rfl)

/-- C08 core: with the read-only policy in force no request changes the backing filesystem. -/
theorem readonly_fs_unchanged (s : St) (c : Ctx) (prog vers proc : Nat) (args : Bytes) (hro : s.cfg.readOnly = true) :
    (handle s c prog vers proc args).1.fs = s.fs := by
  unfold handle
  split
  · split
    · rfl
    · exact handleMount_fs s c proc args
  · split
    · split
      · rfl
      · unfold handleNfs
        split
        · rfl
        · exact procGetattr_fs s c args
        · simp [procSetattr, hro]
        · exact procLookup_fs s c args
        · exact procAccess_fs s c args
        · exact procReadlink_fs s c args
        · exact procRead_fs s c args
        · simp [procWrite, hro]
        · simp [procCreate, hro]
        · simp [procMkdir, hro]
        · simp [procSymlink, hro]
        · rfl
        · simp [procRemove, hro]
        · simp [procRmdir, hro]
        · simp [procRename, hro]
        · rfl
        · exact procReaddir_fs s c args
        · exact procReaddirplus_fs s c args
        · exact withObjAttr_fs ..
        · exact withObjAttr_fs ..
        · exact withObjAttr_fs ..
        · simp [procCommit, hro]
        · rfl
    · rfl

/-- the procedures RFC 1813 lists as modifying -/
def mutatingProc (proc : Nat) : Bool := proc ∈ [2, 7, 8, 9, 10, 11, 12, 13, 14, 15, 21]

/-- C08: with the read-only policy in force every mutating procedure fails (NFS3ERR_ROFS, or NOTSUPP for
    MKNOD and LINK), whatever its arguments and credentials. -/
theorem readonly_mutating_fails (s : St) (c : Ctx) (proc : Nat) (args : Bytes) (hro : s.cfg.readOnly = true)
    (hm : mutatingProc proc = true) :
    ∃ b, (handleNfs s c proc args).2 = .res ⟨30, b⟩ ∨ (handleNfs s c proc args).2 = .res ⟨10004, b⟩ := by
  simp only [mutatingProc, List.mem_cons, List.mem_nil_iff, or_false, decide_eq_true_eq] at hm
  rcases hm with rfl | rfl | rfl | rfl | rfl | rfl | rfl | rfl | rfl | rfl | rfl
  · exact ⟨.wcc wcc0, .inl (by simp [handleNfs, procSetattr, hro, res])⟩
  · exact ⟨.wcc wcc0, .inl (by simp [handleNfs, procWrite, hro, res])⟩
  · exact ⟨.wcc wcc0, .inl (by simp [handleNfs, procCreate, hro, res])⟩
  · exact ⟨.wcc wcc0, .inl (by simp [handleNfs, procMkdir, hro, res])⟩
  · exact ⟨.wcc wcc0, .inl (by simp [handleNfs, procSymlink, hro, res])⟩
  · exact ⟨.wcc wcc0, .inr (by simp [handleNfs, res])⟩
  · exact ⟨.wcc wcc0, .inl (by simp [handleNfs, procRemove, hro, res])⟩
  · exact ⟨.wcc wcc0, .inl (by simp [handleNfs, procRmdir, hro, res])⟩
  · exact ⟨.wcc2 wcc0 wcc0, .inl (by simp [handleNfs, procRename, hro, res])⟩
  · exact ⟨.linkRes none wcc0, .inr (by simp [handleNfs, res])⟩
  · exact ⟨.wcc wcc0, .inl (by simp [handleNfs, procCommit, hro, res])⟩

end Server
end Absnfs
