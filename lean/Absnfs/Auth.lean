/-
  Auth: host filtering, secure-port rule, credential flavors and identity squashing.
  Models auth.go: ValidateAuthentication, applySquashing, normalizeIP, isIPAllowed and
  server.go: Server.isIPAllowed (same membership rule).
  Text parsing of addresses (net.ParseIP / net.ParseCIDR) is Go's and is not modelled: the model starts
  from parsed values. An address is its family and its value as a number.
-/
import Absnfs.Rpc
namespace Absnfs

inductive IP where
  | v4 (n : Nat)   -- 32-bit value; includes IPv4-mapped IPv6 after normalizeIP
  | v6 (n : Nat)   -- 128-bit value that is not IPv4-mapped
  deriving DecidableEq, Repr

/-- One AllowedIPs entry after parsing. `bad` = text that does not parse (skipped by the code). -/
inductive AllowEntry where
  | single (ip : IP)
  | cidr (base : IP) (ones : Nat)     -- network number and prefix length in the base's own family
  | bad
  deriving DecidableEq, Repr

def IP.bits : IP → Nat
  | .v4 _ => 32
  | .v6 _ => 128

/-- IPNet.Contains on normalised values: same family and equal leading `ones` bits. -/
def cidrContains (base : IP) (ones : Nat) (ip : IP) : Bool :=
  match base, ip with
  | .v4 b, .v4 a => ones ≤ 32 && (b >>> (32 - ones) == a >>> (32 - ones))
  | .v6 b, .v6 a => ones ≤ 128 && (b >>> (128 - ones) == a >>> (128 - ones))
  | _, _ => false

def entryMatches (e : AllowEntry) (ip : IP) : Bool :=
  match e with
  | .single x => x == ip
  | .cidr b n => cidrContains b n ip
  | .bad => false

/-- isIPAllowed: `none` client = unparsable client address. -/
def ipAllowed (client : Option IP) (entries : List AllowEntry) : Bool :=
  match client with
  | none => false
  | some ip => entries.any (fun e => entryMatches e ip)

/-- The address part of ValidateAuthentication / the accept-time filter: an empty list admits everyone. -/
def hostAdmitted (client : Option IP) (entries : List AllowEntry) : Bool :=
  entries.isEmpty || ipAllowed client entries

/-- normalizeIP on the 16-byte form net.ParseIP returns (as a 128-bit number): IPv4 and IPv4-mapped
    IPv6 text both parse to ::ffff:a.b.c.d, which `To4` turns into the 4-byte form. -/
def normalizeIP (n : Nat) : IP :=
  if n / 4294967296 = 65535 then .v4 (n % 4294967296) else .v6 n

theorem normalizeIP_mapped (a : Nat) (h : a < 4294967296) :
    normalizeIP (4294967296 * 65535 + a) = .v4 a := by
  unfold normalizeIP
  have h1 : (4294967296 * 65535 + a) / 4294967296 = 65535 := by omega
  have h2 : (4294967296 * 65535 + a) % 4294967296 = a := by omega
  simp [h1, h2]

/-! Squashing -/

def nobody : Nat := 65534

def asciiLower (s : Bytes) : Bytes :=
  s.map fun b => if 65 ≤ b.toNat ∧ b.toNat ≤ 90 then UInt8.ofNat (b.toNat + 32) else b

inductive SquashMode where
  | root | all | none | unknown
  deriving DecidableEq, Repr

def strBytes (s : String) : Bytes := s.toUTF8.toList

def squashMode (s : Bytes) : SquashMode :=
  let l := asciiLower s
  if l = [114, 111, 111, 116] then .root          -- "root"
  else if l = [97, 108, 108] then .all             -- "all"
  else if l = [110, 111, 110, 101] ∨ l = [] then .none  -- "none", ""
  else .unknown

structure Identity where
  uid : Nat
  gid : Nat
  aux : List Nat
  deriving DecidableEq, Repr

/-- applySquashing on an AUTH_SYS identity. -/
def squash (m : SquashMode) (c : Identity) : Identity :=
  match m with
  | .root =>
    { uid := if c.uid = 0 then nobody else c.uid,
      gid := if c.uid = 0 then nobody else if c.gid = 0 then nobody else c.gid,
      aux := c.aux.map fun g => if g = 0 then nobody else g }
  | .all => { uid := nobody, gid := nobody, aux := c.aux.map fun _ => nobody }
  | .none => c
  | .unknown => { uid := nobody, gid := nobody, aux := c.aux }

inductive AuthOutcome where
  | denied
  | allowed (id : Identity)
  deriving DecidableEq, Repr

/-- ValidateAuthentication. `maxStr`, `maxGids` are the AUTH_SYS parser limits. -/
def validateAuth (maxStr maxGids : Nat) (client : Option IP) (entries : List AllowEntry)
    (secure : Bool) (port : Nat) (privBound : Nat) (flavor : Nat) (body : Bytes) (sq : Bytes) : AuthOutcome :=
  if !hostAdmitted client entries then .denied
  else if secure && decide (port ≥ privBound) then .denied
  else if flavor = 0 then .allowed { uid := nobody, gid := nobody, aux := [] }
  else if flavor = 1 then
    match parseAuthSys maxStr maxGids body with
    | none => .denied
    | some a => .allowed (squash (squashMode sq) { uid := a.uid, gid := a.gid, aux := a.gids })
  else .denied

/-! Lemmas -/

theorem cidrContains_iff_v4 (b a ones : Nat) (h : ones ≤ 32) :
    cidrContains (.v4 b) ones (.v4 a) = true ↔ b / 2 ^ (32 - ones) = a / 2 ^ (32 - ones) := by
  simp [cidrContains, h, Nat.shiftRight_eq_div_pow]

theorem cidrContains_iff_v6 (b a ones : Nat) (h : ones ≤ 128) :
    cidrContains (.v6 b) ones (.v6 a) = true ↔ b / 2 ^ (128 - ones) = a / 2 ^ (128 - ones) := by
  simp [cidrContains, h, Nat.shiftRight_eq_div_pow]

theorem cidrContains_family (base ip : IP) (ones : Nat) (h : cidrContains base ones ip = true) :
    base.bits = ip.bits := by
  cases base <;> cases ip <;> simp [cidrContains, IP.bits] at *

theorem ipAllowed_iff (ip : IP) (entries : List AllowEntry) :
    ipAllowed (some ip) entries = true ↔ ∃ e ∈ entries, entryMatches e ip = true := by
  simp [ipAllowed, List.any_eq_true]

theorem squash_aux_length (m : SquashMode) (c : Identity) : (squash m c).aux.length = c.aux.length := by
  cases m <;> simp [squash]

end Absnfs
