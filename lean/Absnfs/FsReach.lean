/-
  FsReach: every backend tree that can be built from the empty tree with the backend's own operations is
  well-formed (`Fs.WF`) — the hypothesis about the backend under which the server invariant `CInv` starts.
-/
import Absnfs.FsRename
namespace Absnfs
namespace Fs

theorem followFrom_err_walk {fs : T} {fuel : Nat} {p q : Path} {e : Errno} (h : followFrom fs fuel p = (q, .error e)) :
    e = .ELOOP ∨ walk fs q = .error e := by
  induction fuel generalizing p with
  | zero => simp only [followFrom, Prod.mk.injEq, Except.error.injEq] at h; exact .inl h.2.symm
  | succ n ih =>
    simp only [followFrom] at h
    split at h
    · rename_i e' hw
      simp only [Prod.mk.injEq, Except.error.injEq] at h
      right; rw [← h.1, ← h.2]; exact hw
    · split at h
      · exact ih h
      · simp at h

/-- Create in general (the name may exist, or be a link whose destination is created) keeps the model well-formed -/
theorem create_wf {fs fs1 : T} {p : Path} (h : create fs p = .ok fs1) (hw : WF fs) : WF fs1 := by
  unfold create at h
  split at h
  · rename_i q e hf
    split at h
    · simp at h
    · simp only [Except.ok.injEq] at h
      subst h
      exact wf_set_samekind hw (follow_ok_get hf) rfl
  · rename_i q hf
    split at h
    · simp at h
    · rename_i hc
      split at h
      · simp at h
      · simp only [Except.ok.injEq] at h
        subst h
        obtain ⟨hne, par, hpar, hdir⟩ := canCreate_ok hc
        have hnone : get fs q = none := by
          rcases followFrom_err_walk hf with h1 | h1
          · simp at h1
          · exact get_none_of_walk_err hw h1
        exact wf_nextIno (wf_set_new hw hnone hne (walk_ok_get hpar) hdir) _
  · simp at h

/-- the backend's operations, as data -/
inductive Op where
  | mkdir (p : Path) (perm : Nat)
  | symlink (target : Bytes) (p : Path)
  | create (p : Path)
  | writeAt (p : Path) (off : Nat) (w : Bytes)
  | truncate (p : Path) (n : Nat)
  | chmod (p : Path) (perm : Nat)
  | chown (p : Path) (uid gid : Nat)
  | lchown (p : Path) (uid gid : Nat)
  | remove (p : Path)
  | rename (a b : Path)

/-- apply an operation; a failing operation leaves the tree as it was -/
def applyOp (fs : T) : Op → T
  | .mkdir p perm => match mkdir fs p perm with | .ok f => f | .error _ => fs
  | .symlink t p => match symlink fs t p with | .ok f => f | .error _ => fs
  | .create p => match create fs p with | .ok f => f | .error _ => fs
  | .writeAt p off w => match writeAt fs p off w with | .ok (f, _) => f | .error _ => fs
  | .truncate p n => match truncate fs p n with | .ok f => f | .error _ => fs
  | .chmod p m => match chmod fs p m with | .ok f => f | .error _ => fs
  | .chown p u g => match chown fs p u g with | .ok f => f | .error _ => fs
  | .lchown p u g => match lchown fs p u g with | .ok f => f | .error _ => fs
  | .remove p => match remove fs p with | .ok f => f | .error _ => fs
  | .rename a b => match rename fs a b with | .ok f => f | .error _ => fs

theorem applyOp_wf (fs : T) (op : Op) (hw : WF fs) : WF (applyOp fs op) := by
  cases op with
  | mkdir p perm =>
    simp only [applyOp]; split
    · rename_i h; exact (mkdir_frame h hw).1
    · exact hw
  | symlink t p =>
    simp only [applyOp]; split
    · rename_i h; exact (symlink_frame h hw).1
    · exact hw
  | create p =>
    simp only [applyOp]; split
    · rename_i h; exact create_wf h hw
    · exact hw
  | writeAt p off w =>
    simp only [applyOp]; split
    · rename_i f k h
      obtain ⟨_, _, _, hw1, _⟩ := writeAt_frame h hw
      exact hw1
    · exact hw
  | truncate p n =>
    simp only [applyOp]; split
    · rename_i h
      obtain ⟨_, _, _, hw1, _⟩ := truncate_frame h hw
      exact hw1
    · exact hw
  | chmod p m =>
    simp only [applyOp]; split
    · rename_i h
      obtain ⟨_, _, _, hw1, _⟩ := chmod_frame h hw
      exact hw1
    · exact hw
  | chown p u g =>
    simp only [applyOp]; split
    · rename_i h; exact (chown_frame h hw).1
    · exact hw
  | lchown p u g =>
    simp only [applyOp]; split
    · rename_i h; exact (lchown_frame h hw).1
    · exact hw
  | remove p =>
    simp only [applyOp]; split
    · rename_i h; exact (remove_frame h hw).1
    · exact hw
  | rename a b =>
    simp only [applyOp]; split
    · rename_i h; exact (rename_frame h hw).1
    · exact hw

/-- every tree reachable from the empty one is well-formed -/
theorem reachable_wf (m : Nat) (ops : List Op) : WF (ops.foldl applyOp (empty m)) := by
  have : ∀ (fs : T), WF fs → WF (ops.foldl applyOp fs) := by
    induction ops with
    | nil => intro fs h; exact h
    | cons op ops ih => intro fs h; exact ih _ (applyOp_wf fs op h)
  exact this _ (wf_empty m)

end Fs
end Absnfs
