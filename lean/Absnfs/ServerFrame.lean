/-
  ServerFrame: frame lemmas for the server model — which parts of the state each building block can change.
-/
import Absnfs.Server
namespace Absnfs
namespace Server

@[simp] theorem acGet_fs (s : St) (now : Nat) (p : Bytes) : (acGet s now p).1.fs = s.fs := rfl
@[simp] theorem acGet_cfg (s : St) (now : Nat) (p : Bytes) : (acGet s now p).1.cfg = s.cfg := rfl
@[simp] theorem acPut_fs (s : St) (now : Nat) (p : Bytes) (a : Attrs) : (acPut s now p a).fs = s.fs := rfl
@[simp] theorem acPut_cfg (s : St) (now : Nat) (p : Bytes) (a : Attrs) : (acPut s now p a).cfg = s.cfg := rfl
@[simp] theorem acPutNeg_fs (s : St) (now : Nat) (p : Bytes) : (acPutNeg s now p).fs = s.fs := rfl
@[simp] theorem acPutNeg_cfg (s : St) (now : Nat) (p : Bytes) : (acPutNeg s now p).cfg = s.cfg := rfl
@[simp] theorem acInv_fs (s : St) (p : Bytes) : (acInv s p).fs = s.fs := rfl
@[simp] theorem acInv_cfg (s : St) (p : Bytes) : (acInv s p).cfg = s.cfg := rfl
@[simp] theorem setNode_fs (s : St) (h : Nat) (a : Attrs) : (setNode s h a).fs = s.fs := rfl
@[simp] theorem setNode_cfg (s : St) (h : Nat) (a : Attrs) : (setNode s h a).cfg = s.cfg := rfl
@[simp] theorem allocate_fs (s : St) (n : Node) : (allocate s n).1.fs = s.fs := rfl
@[simp] theorem allocate_cfg (s : St) (n : Node) : (allocate s n).1.cfg = s.cfg := rfl
@[simp] theorem updNodeAt_fs (s : St) (h : Nat) (f : Attrs → Attrs) : (updNodeAt s h f).fs = s.fs := rfl

theorem lookupPath_fs (s : St) (now : Nat) (p : Bytes) : (lookupPath s now p).1.fs = s.fs := by
  unfold lookupPath
  split
  · rfl
  · simp only
    split
    · rfl
    · rfl
    · split
      · split <;> rfl
      · rfl

theorem lookupPath_cfg (s : St) (now : Nat) (p : Bytes) : (lookupPath s now p).1.cfg = s.cfg := by
  unfold lookupPath
  split
  · rfl
  · simp only
    split
    · rfl
    · rfl
    · split
      · split <;> rfl
      · rfl

theorem getAttr_fs (s : St) (now : Nat) (n : Node) : (getAttr s now n).1.fs = s.fs := by
  unfold getAttr
  simp only
  split <;> rfl

theorem getAttr_cfg (s : St) (now : Nat) (n : Node) : (getAttr s now n).1.cfg = s.cfg := by
  unfold getAttr
  simp only
  split <;> rfl

theorem getAttrOr_fs (s : St) (now : Nat) (n : Node) (d : Attrs) : (getAttrOr s now n d).1.fs = s.fs := by
  unfold getAttrOr
  have := getAttr_fs s now n
  split <;> simp_all

theorem getAttr_hs (s : St) (now : Nat) (n : Node) : (getAttr s now n).1.hs = s.hs := by
  unfold getAttr
  simp only
  split <;> rfl

theorem getAttrOr_hs (s : St) (now : Nat) (n : Node) (d : Attrs) : (getAttrOr s now n d).1.hs = s.hs := by
  unfold getAttrOr
  have := getAttr_hs s now n
  split <;> simp_all

theorem lookupDirAttr_fst (s : St) (now : Nat) (n : Node) (k : Attrs → Outcome) :
    (lookupDirAttr s now n k).1 = (getAttrOr s now n n.attrs).1 := rfl

theorem lookupDirAttr_snd (s : St) (now : Nat) (n : Node) (k : Attrs → Outcome) :
    (lookupDirAttr s now n k).2 = k (getAttrOr s now n n.attrs).2 := rfl

theorem getAttrOr_cfg (s : St) (now : Nat) (n : Node) (d : Attrs) : (getAttrOr s now n d).1.cfg = s.cfg := by
  unfold getAttrOr
  have := getAttr_cfg s now n
  split <;> simp_all

/-- what GetAttr reports is the backend's lstat of the node's path, with the fileid of that path -/
theorem getAttr_ok {s : St} {now : Nat} {n : Node} {s' : St} {a : Attrs} (h : getAttr s now n = (s', .ok a)) :
    ∃ i, Fs.lstat s.fs (fsPath n.path) = .ok i ∧ a = attrsOfInfo i (fnv64 n.path) n.attrs.uid n.attrs.gid := by
  unfold getAttr at h
  simp only at h
  split at h
  · simp at h
  · rename_i i hi
    simp only [Prod.mk.injEq, Except.ok.injEq] at h
    exact ⟨i, by simpa using hi, h.2.symm⟩

theorem getAttr_err {s : St} {now : Nat} {n : Node} {s' : St} {e : Fs.Errno} (h : getAttr s now n = (s', .error e)) :
    Fs.lstat s.fs (fsPath n.path) = .error e := by
  unfold getAttr at h
  simp only at h
  split at h
  · rename_i e' he
    simp only [Prod.mk.injEq, Except.error.injEq] at h
    rw [← h.2]; simpa using he
  · simp at h

theorem mapErrno_ne_zero (e : Fs.Errno) : mapErrno e ≠ 0 := by cases e <;> simp [mapErrno]

theorem lookupEach_fs (s : St) (now : Nat) (dir : Bytes) (names : List Bytes) :
    (lookupEach s now dir names).1.fs = s.fs := by
  induction names generalizing s with
  | nil => rfl
  | cons n ns ih =>
    unfold lookupEach
    split
    · exact ih s
    · split
      · exact ih s
      · rename_i p _
        have hl := lookupPath_fs s now p
        split
        · rename_i s1 _ heq
          rw [ih s1]; rw [heq] at hl; exact hl
        · rename_i s1 node heq
          simp only
          rw [ih s1]; rw [heq] at hl; exact hl

theorem lookupEach_cfg (s : St) (now : Nat) (dir : Bytes) (names : List Bytes) :
    (lookupEach s now dir names).1.cfg = s.cfg := by
  induction names generalizing s with
  | nil => rfl
  | cons n ns ih =>
    unfold lookupEach
    split
    · exact ih s
    · split
      · exact ih s
      · rename_i p _
        have hl := lookupPath_cfg s now p
        split
        · rename_i s1 _ heq
          rw [ih s1]; rw [heq] at hl; exact hl
        · rename_i s1 node heq
          simp only
          rw [ih s1]; rw [heq] at hl; exact hl

theorem readDir_fs (s : St) (now : Nat) (d : Node) : (readDir s now d).1.fs = s.fs := by
  unfold readDir
  simp only
  split
  · rename_i s1 names heq
    simp only
    rw [lookupEach_fs]
    -- s1 comes from the cached branch: only the directory cache changed
    split at heq
    · simp at heq
    · split at heq
      · simp only [Option.some.injEq, Prod.mk.injEq] at heq
        rw [← heq.1]
      · simp at heq
  · split
    · rfl
    · simp only
      rw [lookupEach_fs]

theorem refreshEach_fs (s : St) (now : Nat) (l : List Node) : (refreshEach s now l).1.fs = s.fs := by
  induction l generalizing s with
  | nil => rfl
  | cons n ns ih =>
    unfold refreshEach
    simp only
    split
    · simp only; rw [ih]; rfl
    · simp only; rw [ih]; rfl

theorem fillDirPlus_fs (limit cookie : Nat) (s : St) (i used cnt : Nat) (l : List Node) :
    (fillDirPlus limit cookie s i used cnt l).1.fs = s.fs := by
  induction l generalizing s i used cnt with
  | nil => rfl
  | cons e es ih =>
    unfold fillDirPlus
    split
    · exact ih ..
    · simp only
      split
      · rfl
      · have := ih (allocate s e).1 (i + 1) (used + entrySize (baseName e.path) + plusExtra) (cnt + 1)
        split <;> simp_all

end Server
end Absnfs
