/-
  Fs: the backing filesystem as the server sees it through absfs.SymlinkFileSystem.
  This is the reference semantics the harness's `refbackend` implements (harness/refbackend.go), under the
  documented absfs/POSIX contract (DESIGN §4): a flat map from clean absolute paths (lists of components) to
  entries; resolution does not follow intermediate symlinks; Stat/Open/Create/Chmod/Chown/Chtimes/Truncate/
  ReadDir follow a final symlink (at most 9 hops); WriteAt beyond EOF zero-fills; Rename replaces an existing
  non-directory. Times are not modelled.
-/
import Absnfs.Bytes
namespace Absnfs
namespace Fs

abbrev Name := Bytes
abbrev Path := List Name      -- [] is the root

inductive Kind where
  | file | dir | link
  deriving DecidableEq, Repr

inductive Errno where
  | ENOENT | EEXIST | ENOTDIR | EISDIR | ENOTEMPTY | EINVAL | EFBIG | ELOOP | EBADF | EIO
  deriving DecidableEq, Repr

structure Entry where
  kind : Kind
  perm : Nat          -- permission bits (0..0o777)
  uid : Nat
  gid : Nat
  data : Bytes        -- file contents, or the link target
  ino : Nat           -- identity of the object (ghost: never shown to clients)
  deriving DecidableEq, Repr

structure T where
  ents : List (Path × Entry)   -- always contains the root ([], dir)
  nextIno : Nat
  maxSize : Nat                -- sizes above this are refused with EFBIG
  deriving Repr

def empty (maxSize : Nat) : T :=
  { ents := [([], { kind := .dir, perm := 0o755, uid := 0, gid := 0, data := [], ino := 1 })], nextIno := 2,
    maxSize := maxSize }

def get (fs : T) (p : Path) : Option Entry := (fs.ents.find? (·.1 == p)).map (·.2)

def set (fs : T) (p : Path) (e : Entry) : T :=
  { fs with ents := (p, e) :: fs.ents.filter (·.1 != p) }

def del (fs : T) (p : Path) : T := { fs with ents := fs.ents.filter (·.1 != p) }

/-- direct children of `p`: (name, entry) -/
def children (fs : T) (p : Path) : List (Name × Entry) :=
  fs.ents.filterMap fun (q, e) =>
    if q.length = p.length + 1 ∧ q.take p.length = p then some (q.getLast!, e) else none

/-- Resolve without following any symlink, component by component (`walk` in refbackend). -/
def walkFrom (fs : T) : Path → List Name → Except Errno Entry
  | pre, [] => match get fs pre with
    | some e => .ok e
    | none => .error .ENOENT
  | pre, c :: cs =>
    match get fs pre with
    | none => .error .ENOENT
    | some cur =>
      if cur.kind ≠ .dir then .error .ENOTDIR
      else match get fs (pre ++ [c]) with
        | none => .error .ENOENT
        | some _ => walkFrom fs (pre ++ [c]) cs

def walk (fs : T) (p : Path) : Except Errno Entry := walkFrom fs [] p

/-- the missing final component can be created: every proper prefix resolves and the parent is a directory -/
def canCreate (fs : T) (p : Path) : Except Errno Unit :=
  match p with
  | [] => .error .EEXIST
  | _ =>
    match walk fs p.dropLast with
    | .error e => .error e
    | .ok par => if par.kind ≠ .dir then .error .ENOTDIR else .ok ()

/-- path.Clean(path.Join(base, target)) on component lists -/
def applyTarget (base : Path) (target : Bytes) : Path :=
  let comps := splitOnByte 47 target
  let start : Path := if target.head? = some 47 then [] else base
  comps.foldl (fun acc c =>
    if c = [] ∨ c = [46] then acc
    else if c = [46, 46] then acc.dropLast
    else acc ++ [c]) start

/-- Resolve following a final symlink. Returns the final path and the entry there (or the error together with
    the last path tried, so that creation can happen at the link's destination). -/
def followFrom (fs : T) : Nat → Path → Path × Except Errno Entry
  | 0, p => (p, .error .ELOOP)
  | fuel + 1, p =>
    match walk fs p with
    | .error e => (p, .error e)
    | .ok e =>
      if e.kind = .link then followFrom fs fuel (applyTarget p.dropLast e.data)
      else (p, .ok e)

def follow (fs : T) (p : Path) : Path × Except Errno Entry := followFrom fs 9 p

/-! ### Operations. An error leaves the filesystem unchanged. -/

structure Info where
  kind : Kind
  perm : Nat
  size : Nat
  uid : Nat
  gid : Nat
  ino : Nat
  deriving DecidableEq, Repr

def infoOf (e : Entry) : Info :=
  { kind := e.kind, perm := e.perm, uid := e.uid, gid := e.gid, ino := e.ino,
    size := match e.kind with | .dir => 0 | _ => e.data.length }

def lstat (fs : T) (p : Path) : Except Errno Info := (walk fs p).map infoOf
def stat (fs : T) (p : Path) : Except Errno Info := (follow fs p).2.map infoOf

def readlink (fs : T) (p : Path) : Except Errno Bytes :=
  match walk fs p with
  | .error e => .error e
  | .ok e => if e.kind = .link then .ok e.data else .error .EINVAL

/-- bytes [off, off+cnt) of `d` -/
def slice (d : Bytes) (off cnt : Nat) : Bytes := (d.drop off).take cnt

/-- WriteAt semantics on a byte string: zero-fill a hole, overwrite, keep the tail -/
def writeBytes (d : Bytes) (off : Nat) (w : Bytes) : Bytes :=
  if w = [] then d
  else (d ++ zeros (off - d.length)).take off ++ w ++ d.drop (off + w.length)

/-- Truncate semantics: cut, or extend with zeros -/
def truncBytes (d : Bytes) (n : Nat) : Bytes := (d ++ zeros (n - d.length)).take n

/-- OpenFile(O_RDONLY) + Stat: the size the READ path sees (directories have size 0) -/
def openRead (fs : T) (p : Path) : Except Errno (Path × Entry) :=
  match follow fs p with
  | (_, .error e) => .error e
  | (q, .ok e) => .ok (q, e)

/-- OpenFile(O_WRONLY) then WriteAt -/
def writeAt (fs : T) (p : Path) (off : Nat) (w : Bytes) : Except Errno (T × Nat) :=
  match follow fs p with
  | (_, .error e) => .error e
  | (q, .ok e) =>
    if e.kind = .dir then .error .EISDIR
    else if w = [] then .ok (fs, 0)
    else if off > fs.maxSize ∨ off + w.length > fs.maxSize then .error .EFBIG
    else .ok (set fs q { e with data := writeBytes e.data off w }, w.length)

def truncate (fs : T) (p : Path) (n : Nat) : Except Errno T :=
  match follow fs p with
  | (_, .error e) => .error e
  | (q, .ok e) =>
    if e.kind = .dir then .error .EISDIR
    else if n > fs.maxSize then .error .EFBIG
    else .ok (set fs q { e with data := truncBytes e.data n })

/-- Create = OpenFile(O_RDWR|O_CREATE|O_TRUNC, 0666): follows a final symlink; truncates an existing file -/
def create (fs : T) (p : Path) : Except Errno T :=
  match follow fs p with
  | (q, .ok e) =>
    if e.kind = .dir then .error .EISDIR
    else .ok (set fs q { e with data := [] })
  | (q, .error .ENOENT) =>
    match canCreate fs q with
    | .error e => .error e
    | .ok () =>
      -- the parent chain resolves: is it the final component that is missing?
      match walk fs q.dropLast with
      | .error e => .error e
      | .ok _ =>
        .ok { (set fs q { kind := .file, perm := 0o666, uid := 0, gid := 0, data := [], ino := fs.nextIno }) with
              nextIno := fs.nextIno + 1 }
  | (_, .error e) => .error e

def mkdir (fs : T) (p : Path) (perm : Nat) : Except Errno T :=
  match walk fs p with
  | .ok _ => .error .EEXIST
  | .error .ENOENT =>
    match canCreate fs p with
    | .error e => .error e
    | .ok () =>
      .ok { (set fs p { kind := .dir, perm := perm % 512, uid := 0, gid := 0, data := [], ino := fs.nextIno }) with
            nextIno := fs.nextIno + 1 }
  | .error e => .error e

def symlink (fs : T) (target : Bytes) (p : Path) : Except Errno T :=
  match walk fs p with
  | .ok _ => .error .EEXIST
  | .error .ENOENT =>
    match canCreate fs p with
    | .error e => .error e
    | .ok () =>
      .ok { (set fs p { kind := .link, perm := 0o777, uid := 0, gid := 0, data := target, ino := fs.nextIno }) with
            nextIno := fs.nextIno + 1 }
  | .error e => .error e

def isPrefix (a b : Path) : Bool := a.isPrefixOf b

def remove (fs : T) (p : Path) : Except Errno T :=
  match walk fs p with
  | .error e => .error e
  | .ok e =>
    if p = [] then .error .EINVAL
    else if e.kind = .dir ∧ (children fs p) ≠ [] then .error .ENOTEMPTY
    else .ok (del fs p)

/-- move the subtree at `a` to `b` (re-prefix every entry under `a`) -/
def moveTree (fs : T) (a b : Path) : T :=
  { fs with ents := (fs.ents.filter fun (q, _) => !(isPrefix b q)).map fun (q, e) =>
      if isPrefix a q then (b ++ q.drop a.length, e) else (q, e) }

def rename (fs : T) (a b : Path) : Except Errno T :=
  match walk fs a with
  | .error e => .error e
  | .ok ea =>
    if a = [] then .error .EINVAL else
    match walk fs b with
    | .error .ENOENT =>
      (match canCreate fs b with
       | .error e => .error e
       | .ok () =>
         if ea.kind = .dir ∧ isPrefix a b.dropLast then .error .EINVAL
         else .ok (moveTree fs a b))
    | .error e => .error e
    | .ok eb =>
      if b = [] then .error .EINVAL
      else if a = b then .ok fs
      else if ea.kind = .dir ∧ isPrefix a b.dropLast then .error .EINVAL
      else if ea.kind = .dir ∧ eb.kind ≠ .dir then .error .ENOTDIR
      else if ea.kind ≠ .dir ∧ eb.kind = .dir then .error .EISDIR
      else if ea.kind = .dir ∧ children fs b ≠ [] then .error .ENOTEMPTY
      else .ok (moveTree fs a b)

def chmod (fs : T) (p : Path) (perm : Nat) : Except Errno T :=
  match follow fs p with
  | (_, .error e) => .error e
  | (q, .ok e) => .ok (set fs q { e with perm := perm % 512 })

def chownAt (fs : T) (q : Path) (e : Entry) (uid gid : Nat) : T := set fs q { e with uid := uid, gid := gid }

def chown (fs : T) (p : Path) (uid gid : Nat) : Except Errno T :=
  match follow fs p with
  | (_, .error e) => .error e
  | (q, .ok e) => .ok (chownAt fs q e uid gid)

def lchown (fs : T) (p : Path) (uid gid : Nat) : Except Errno T :=
  match walk fs p with
  | .error e => .error e
  | .ok e => .ok (chownAt fs p e uid gid)

/-- Chtimes: only the existence check is observable here -/
def chtimes (fs : T) (p : Path) : Except Errno Unit :=
  match follow fs p with
  | (_, .error e) => .error e
  | (_, .ok _) => .ok ()

def bytesLt : Bytes → Bytes → Bool
  | [], [] => false
  | [], _ :: _ => true
  | _ :: _, [] => false
  | a :: as, b :: bs => if a < b then true else if b < a then false else bytesLt as bs

/-- insertion sort by name (sort.Strings is bytewise) -/
def insertSorted (x : Name × Entry) : List (Name × Entry) → List (Name × Entry)
  | [] => [x]
  | y :: ys => if bytesLt x.1 y.1 then x :: y :: ys else y :: insertSorted x ys

def sortByName (l : List (Name × Entry)) : List (Name × Entry) := l.foldr insertSorted []

/-- OpenFile(O_RDONLY) + Readdir(-1): follows a final symlink, must be a directory -/
def readdir (fs : T) (p : Path) : Except Errno (List (Name × Info)) :=
  match follow fs p with
  | (_, .error e) => .error e
  | (q, .ok e) =>
    if e.kind ≠ .dir then .error .ENOTDIR
    else .ok ((sortByName (children fs q)).map fun (n, x) => (n, infoOf x))

/-! ### Byte-level facts (C01) -/

theorem writeBytes_length (d : Bytes) (off : Nat) (w : Bytes) (hw : w ≠ []) :
    (writeBytes d off w).length = max d.length (off + w.length) := by
  simp only [writeBytes, hw, if_false, List.length_append, List.length_take, List.length_drop, zeros_length]
  omega

theorem truncBytes_length (d : Bytes) (n : Nat) : (truncBytes d n).length = n := by
  simp only [truncBytes, List.length_take, List.length_append, zeros_length]; omega

theorem getD_zeros (n i : Nat) : (zeros n).getD i 0 = 0 := by
  simp only [zeros, List.getD_eq_getElem?_getD, List.getElem?_replicate]
  split <;> rfl

/-- the byte at position i after a write: the payload inside the written range, the old byte elsewhere
    within the old length, zero in a hole -/
theorem writeBytes_getD (d : Bytes) (off : Nat) (w : Bytes) (i : Nat) (hw : w ≠ []) :
    (writeBytes d off w).getD i 0 =
      if off ≤ i ∧ i < off + w.length then w.getD (i - off) 0 else d.getD i 0 := by
  simp only [writeBytes, hw, if_false, List.getD_eq_getElem?_getD]
  have hlen : ((d ++ zeros (off - d.length)).take off).length = off := by
    simp only [List.length_take, List.length_append, zeros_length]; omega
  by_cases h1 : i < off
  · have : ¬ (off ≤ i ∧ i < off + w.length) := by omega
    simp only [this, if_false]
    rw [List.append_assoc, List.getElem?_append_left (by rw [hlen]; exact h1)]
    rw [List.getElem?_take_of_lt h1]
    by_cases h2 : i < d.length
    · rw [List.getElem?_append_left h2]
    · rw [List.getElem?_append_right (by omega)]
      have : d[i]? = none := List.getElem?_eq_none (by omega)
      rw [this]
      have := getD_zeros (off - d.length) (i - d.length)
      simp only [List.getD_eq_getElem?_getD] at this
      simpa using this
  · by_cases h3 : i < off + w.length
    · have : off ≤ i ∧ i < off + w.length := ⟨by omega, h3⟩
      simp only [this, and_self, if_true]
      rw [List.append_assoc, List.getElem?_append_right (by rw [hlen]; omega), hlen]
      rw [List.getElem?_append_left (by omega)]
    · have : ¬ (off ≤ i ∧ i < off + w.length) := by omega
      simp only [this, if_false]
      rw [List.append_assoc, List.getElem?_append_right (by rw [hlen]; omega), hlen]
      rw [List.getElem?_append_right (by omega)]
      rw [List.getElem?_drop]
      congr 2
      omega

theorem truncBytes_getD (d : Bytes) (n i : Nat) :
    (truncBytes d n).getD i 0 = if i < n then d.getD i 0 else 0 := by
  simp only [truncBytes, List.getD_eq_getElem?_getD]
  by_cases h : i < n
  · simp only [h, if_true]
    rw [List.getElem?_take_of_lt h]
    by_cases h2 : i < d.length
    · rw [List.getElem?_append_left h2]
    · rw [List.getElem?_append_right (by omega)]
      have : d[i]? = none := List.getElem?_eq_none (by omega)
      rw [this]
      have := getD_zeros (n - d.length) (i - d.length)
      simp only [List.getD_eq_getElem?_getD] at this
      simpa using this
  · simp only [h, if_false]
    have : ((d ++ zeros (n - d.length)).take n)[i]? = none := by
      apply List.getElem?_eq_none
      simp only [List.length_take, List.length_append, zeros_length]; omega
    rw [this]; rfl

theorem slice_getD (d : Bytes) (off cnt i : Nat) (hi : i < cnt) : (slice d off cnt).getD i 0 = d.getD (off + i) 0 := by
  simp only [slice, List.getD_eq_getElem?_getD]
  rw [List.getElem?_take_of_lt hi, List.getElem?_drop]

theorem slice_length (d : Bytes) (off cnt : Nat) : (slice d off cnt).length = min cnt (d.length - off) := by
  simp only [slice, List.length_take, List.length_drop]

end Fs
end Absnfs
