/-
  ServerFailed: a request that is answered with an error status leaves the backend tree exactly as it was
  (C02: "A failed request leaves the tree unchanged"), for the namespace-changing procedures. The only places
  where a handler could report an error after its backend call succeeded are the attribute fetches that follow
  it; under the cache invariant (well-formed backend) those cannot fail, because the operation does not change
  what Lstat shows at the directory.
-/
import Absnfs.ServerInvProcs
namespace Absnfs
namespace Server

theorem getAttr_ok_of_lstat {s : St} {now : Nat} {n : Node} {i : Fs.Info} (h : Fs.lstat s.fs (fsPath n.path) = .ok i) :
    ∃ s' a, getAttr s now n = (s', .ok a) := by
  unfold getAttr
  simp only [acGet, h]
  exact ⟨_, _, rfl⟩

theorem getAttr_not_error {s s' : St} {now : Nat} {n : Node} {e : Fs.Errno} {i : Fs.Info}
    (h : Fs.lstat s.fs (fsPath n.path) = .ok i) (heq : getAttr s now n = (s', .error e)) : False := by
  obtain ⟨s2, a, h2⟩ := getAttr_ok_of_lstat (now := now) h
  rw [h2] at heq
  simp at heq

/-- Lstat of a path keeps succeeding across a backend change that does not touch what it shows there -/
theorem lstat_ok_transfer {fs fs1 : Fs.T} (hw1 : Fs.WF fs1) {q : Fs.Path} {i : Fs.Info} (h : Fs.lstat fs q = .ok i)
    (hv : Fs.viewAt fs1 q = Fs.viewAt fs q) : ∃ i', Fs.lstat fs1 q = .ok i' := by
  have := Fs.lstat_ok_view h
  rw [← hv] at this
  obtain ⟨i', hi', _⟩ := Fs.lstat_of_view hw1 this
  exact ⟨i', hi'⟩

theorem fsPath_child_ne (d name : Bytes) (hn : NoSep name) : fsPath d ≠ fsPath (joinName d name) := by
  rw [fsPath_joinName d name hn]
  intro h
  have := congrArg List.length h
  simp at this

theorem removeOp_fs {s1 s2 : St} {n : Node} {name : Bytes} (heq : removeOp s1 n name = .ok s2) :
    ∃ fs1, Fs.remove s1.fs (fsPath (joinName n.path name)) = .ok fs1 ∧ s2.fs = fs1 := by
  unfold removeOp at heq
  split at heq
  · simp at heq
  · rename_i p hp
    rw [sanitize_some hp] at heq
    split at heq
    · simp at heq
    · rename_i fs1 hrm
      simp only [Except.ok.injEq] at heq
      exact ⟨fs1, hrm, by rw [← heq]; rfl⟩

theorem removeOp_err_fs {s1 : St} {n : Node} {name : Bytes} {e : Fs.Errno} (_ : removeOp s1 n name = .error e) : True := trivial

/-- REMOVE answered with an error status: the backend tree is unchanged -/
theorem procRemove_failed (s s' : St) (c : Ctx) (args : Bytes) (st : Nat) (body : Rfc.Body) (h : CInv s)
    (heq : procRemove s c args = (s', .res ⟨st, body⟩)) (hst : st ≠ 0) : s'.fs = s.fs := by
  unfold procRemove at heq
  split at heq
  · simp only [Prod.mk.injEq] at heq; rw [← heq.1]
  · split at heq
    · simp only [Prod.mk.injEq] at heq; rw [← heq.1]
    · split at heq
      · simp only [Prod.mk.injEq] at heq; rw [← heq.1]
      · rename_i name _ _
        split at heq
        · simp only [Prod.mk.injEq] at heq; rw [← heq.1]
        · rename_i hv
          have hns : NoSep name := noSep_of_valid name (by simpa using hv)
          split at heq
          · simp only [Prod.mk.injEq] at heq; rw [← heq.1]
          · rename_i n hn
            have hnc := nodeOf_cleanI h hn
            split at heq
            · simp only [Prod.mk.injEq] at heq; rw [← heq.1]
            · split at heq
              · rename_i s1 e hg
                simp only [Prod.mk.injEq] at heq; rw [← heq.1]; exact getAttr_fs' hg
              · rename_i s1 pre hg
                have hfs1 : s1.fs = s.fs := getAttr_fs' hg
                have h1 := getAttr_cinv' hg h hnc
                obtain ⟨i, hi, _⟩ := getAttr_ok hg
                split at heq
                · simp only [Prod.mk.injEq] at heq
                  rw [← heq.1, getAttrOr_fs, hfs1]
                · rename_i s2 hro
                  obtain ⟨fs1, hrm, hs2⟩ := removeOp_fs hro
                  obtain ⟨hw1, hview, _⟩ := Fs.remove_frame hrm h1.wf
                  have hdir : ∃ i', Fs.lstat s2.fs (fsPath n.path) = .ok i' := by
                    rw [hs2]
                    exact lstat_ok_transfer hw1 (by rw [hfs1]; exact hi) (hview _ (fsPath_child_ne n.path name hns))
                  obtain ⟨i', hi'⟩ := hdir
                  split at heq
                  · rename_i hg2; exact (getAttr_not_error hi' hg2).elim
                  · simp only [res, Prod.mk.injEq, Outcome.res.injEq, Rfc.Res.mk.injEq] at heq
                    exact absurd heq.2.1.symm hst


/-- RMDIR answered with an error status: the backend tree is unchanged -/
theorem procRmdir_failed (s s' : St) (c : Ctx) (args : Bytes) (st : Nat) (body : Rfc.Body) (h : CInv s)
    (heq : procRmdir s c args = (s', .res ⟨st, body⟩)) (hst : st ≠ 0) : s'.fs = s.fs := by
  unfold procRmdir at heq
  split at heq
  · simp only [Prod.mk.injEq] at heq; rw [← heq.1]
  · split at heq
    · simp only [Prod.mk.injEq] at heq; rw [← heq.1]
    · split at heq
      · simp only [Prod.mk.injEq] at heq; rw [← heq.1]
      · rename_i name _ _
        split at heq
        · simp only [Prod.mk.injEq] at heq; rw [← heq.1]
        · rename_i hv
          have hns : NoSep name := noSep_of_valid name (by simpa using hv)
          split at heq
          · simp only [Prod.mk.injEq] at heq; rw [← heq.1]
          · rename_i n hn
            have hnc := nodeOf_cleanI h hn
            split at heq
            · simp only [Prod.mk.injEq] at heq; rw [← heq.1]
            · split at heq
              · rename_i s1 e hg
                simp only [Prod.mk.injEq] at heq; rw [← heq.1]; exact getAttr_fs' hg
              · rename_i s1 pre hg
                have hfs1 : s1.fs = s.fs := getAttr_fs' hg
                have h1 := getAttr_cinv' hg h hnc
                obtain ⟨i, hi, _⟩ := getAttr_ok hg
                simp only at heq
                split at heq
                · simp only [Prod.mk.injEq] at heq; rw [← heq.1, hfs1]
                · split at heq
                  · simp only [Prod.mk.injEq] at heq; rw [← heq.1, hfs1]
                  · split at heq
                    · simp only [Prod.mk.injEq] at heq
                      rw [← heq.1, getAttrOr_fs, hfs1]
                    · rename_i fs1 hrm
                      obtain ⟨hw1, hview, _⟩ := Fs.remove_frame hrm h1.wf
                      obtain ⟨i', hi'⟩ := lstat_ok_transfer hw1 (by rw [hfs1]; exact hi) (hview _ (fsPath_child_ne n.path name hns))
                      split at heq
                      · rename_i hg2
                        exact (getAttr_not_error (s := dcInv (dcInv (acInv (acInv { s1 with fs := fs1 } (joinName n.path name)) n.path) n.path)
                          (joinName n.path name)) hi' hg2).elim
                      · simp only [res, Prod.mk.injEq, Outcome.res.injEq, Rfc.Res.mk.injEq] at heq
                        exact absurd heq.2.1.symm hst

/-- a Lookup of a path the backend has cannot fail when the cache is coherent -/
theorem lookupPath_not_error {s s' : St} {now : Nat} {p : Bytes} {e : Fs.Errno} {i : Fs.Info} (hc : AcCoherent s)
    (hp : p ≠ []) (hi : Fs.lstat s.fs (fsPath p) = .ok i) (heq : lookupPath s now p = (s', .error e)) : False := by
  rcases (lookupPath_sound (s' := s') hc).2 e heq with h | ⟨err, herr⟩
  · exact hp h
  · rw [hi] at herr; simp at herr

theorem chownQuiet_lstat {s : St} (hw : Fs.WF s.fs) (p : Bytes) (u g : Nat) (q : Fs.Path) {i : Fs.Info}
    (hi : Fs.lstat s.fs q = .ok i) : ∃ i', Fs.lstat (chownQuiet s p u g).fs q = .ok i' := by
  unfold chownQuiet
  split
  · rename_i f hf
    obtain ⟨hw1, hv⟩ := Fs.chown_frame hf hw
    exact lstat_ok_transfer hw1 hi (hv q)
  · exact ⟨i, hi⟩

theorem lchownQuiet_lstat {s : St} (hw : Fs.WF s.fs) (p : Bytes) (u g : Nat) (q : Fs.Path) {i : Fs.Info}
    (hi : Fs.lstat s.fs q = .ok i) : ∃ i', Fs.lstat (lchownQuiet s p u g).fs q = .ok i' := by
  unfold lchownQuiet
  split
  · rename_i f hf
    obtain ⟨hw1, hv⟩ := Fs.lchown_frame hf hw
    exact lstat_ok_transfer hw1 hi (hv q)
  · exact ⟨i, hi⟩

/-- MKDIR answered with an error status: the backend tree is unchanged -/
theorem procMkdir_failed (s s' : St) (c : Ctx) (args : Bytes) (st : Nat) (body : Rfc.Body) (h : CInv s)
    (heq : procMkdir s c args = (s', .res ⟨st, body⟩)) (hst : st ≠ 0) : s'.fs = s.fs := by
  unfold procMkdir at heq
  split at heq
  · simp only [Prod.mk.injEq] at heq; rw [← heq.1]
  · split at heq
    · simp only [Prod.mk.injEq] at heq; rw [← heq.1]
    · split at heq
      · simp only [Prod.mk.injEq] at heq; rw [← heq.1]
      · rename_i name _ _
        split at heq
        · simp only [Prod.mk.injEq] at heq; rw [← heq.1]
        · rename_i hv
          have hpv : validateFilename name = 0 := by simpa using hv
          have hns : NoSep name := noSep_of_valid name hpv
          split at heq
          · simp only [Prod.mk.injEq] at heq; rw [← heq.1]
          · simp only at heq
            split at heq
            · simp only [Prod.mk.injEq] at heq; rw [← heq.1]
            · split at heq
              · simp only [Prod.mk.injEq] at heq; rw [← heq.1]
              · rename_i n hn
                have hnc := nodeOf_cleanI h hn
                have hpc : CleanPath (joinName n.path name) := joinName_clean n.path name hnc hpv
                split at heq
                · rename_i s1 e hg
                  simp only [Prod.mk.injEq] at heq; rw [← heq.1]; exact getAttr_fs' hg
                · rename_i s1 pre hg
                  have hfs1 : s1.fs = s.fs := getAttr_fs' hg
                  have h1 := getAttr_cinv' hg h hnc
                  obtain ⟨i, hi, _⟩ := getAttr_ok hg
                  split at heq
                  · simp only [Prod.mk.injEq] at heq
                    rw [← heq.1, getAttrOr_fs, hfs1]
                  · rename_i fs1 hmk
                    exfalso
                    obtain ⟨hw1, hview, _⟩ := Fs.mkdir_frame hmk h1.wf
                    have hsub := invalidateForNew_sub (s := { s1 with fs := fs1 }) h1.lru n.path (joinName n.path name)
                    have h2 : CInv (invalidateForNew { s1 with fs := fs1 } n.path (joinName n.path name)) :=
                      cinv_change_at h1 hpc hw1 hview rfl hsub.1 hsub.2
                    have h3 := fun u g => chownQuiet_cinv h2 (joinName n.path name) u g
                    -- the new directory and its parent are there
                    obtain ⟨enew, hwnew, _⟩ := Fs.mkdir_then_walk hmk
                    have hinew : Fs.lstat fs1 (fsPath (joinName n.path name)) = .ok (Fs.infoOf enew) := by
                      unfold Fs.lstat; rw [hwnew]; rfl
                    obtain ⟨idir, hidir⟩ := lstat_ok_transfer hw1 (by rw [hfs1]; exact hi)
                      (hview _ (fsPath_child_ne n.path name hns))
                    split at heq
                    · rename_i s4 e hl
                      obtain ⟨i3, hi3⟩ := chownQuiet_lstat (s := invalidateForNew { s1 with fs := fs1 } n.path (joinName n.path name))
                        hw1 (joinName n.path name) _ _ _ hinew
                      exact lookupPath_not_error (h3 _ _).coh (cleanPath_ne_nil hpc) hi3 hl
                    · rename_i s4 node hl
                      have hfs4 : s4.fs = _ := lookupPath_fs' hl
                      obtain ⟨i3, hi3⟩ := chownQuiet_lstat (s := invalidateForNew { s1 with fs := fs1 } n.path (joinName n.path name))
                        hw1 (joinName n.path name) _ _ _ hidir
                      split at heq
                      · rename_i hg2
                        exact getAttr_not_error (by rw [hfs4]; exact hi3) hg2
                      · simp only [res, Prod.mk.injEq, Outcome.res.injEq, Rfc.Res.mk.injEq] at heq
                        exact hst heq.2.1.symm


/-- Symlink (the operation): it reports an error only if the backend call failed — then nothing changed;
    when it succeeds, the directory's Lstat still succeeds -/
theorem symlinkOp_outcome {s s' : St} {now : Nat} {dir : Node} {name target : Bytes} {r : Except Fs.Errno Node}
    (heq : symlinkOp s now dir name target = (s', r)) (h : CInv s) (hd : CleanPath dir.path) (hn : NoSep name)
    {idir : Fs.Info} (hidir : Fs.lstat s.fs (fsPath dir.path) = .ok idir) :
    (∀ e, r = .error e → s'.fs = s.fs) ∧ ∃ i', Fs.lstat s'.fs (fsPath dir.path) = .ok i' := by
  unfold symlinkOp at heq
  split at heq
  · simp only [Prod.mk.injEq] at heq
    rw [← heq.1]; exact ⟨fun _ _ => rfl, idir, hidir⟩
  · rename_i p hp
    have hpe := sanitize_some hp
    have hpc : CleanPath p := by rw [hpe]; exact .child dir.path name hd hn
    split at heq
    · simp only [Prod.mk.injEq] at heq
      rw [← heq.1]; exact ⟨fun _ _ => rfl, idir, hidir⟩
    · rename_i fs1 hsl
      obtain ⟨hw1, hview, _⟩ := Fs.symlink_frame hsl h.wf
      have hsub := invalidateForNew_sub (s := { s with fs := fs1 }) h.lru dir.path p
      have h2 : CInv (invalidateForNew { s with fs := fs1 } dir.path p) :=
        cinv_change_at h hpc hw1 hview rfl hsub.1 hsub.2
      have hfs : s'.fs = fs1 := lookupPath_fs' heq
      have hinew : ∃ inew, Fs.lstat fs1 (fsPath p) = .ok inew := by
        unfold Fs.lstat; rw [Fs.symlink_then_walk hsl]; exact ⟨_, rfl⟩
      obtain ⟨inew, hinew⟩ := hinew
      constructor
      · intro e he
        subst he
        exact (lookupPath_not_error h2.coh (cleanPath_ne_nil hpc) hinew heq).elim
      · rw [hfs]
        refine lstat_ok_transfer hw1 hidir (hview _ ?_)
        rw [hpe]; exact fsPath_child_ne dir.path name hn

/-- SYMLINK answered with an error status: the backend tree is unchanged -/
theorem procSymlink_failed (s s' : St) (c : Ctx) (args : Bytes) (st : Nat) (body : Rfc.Body) (h : CInv s)
    (heq : procSymlink s c args = (s', .res ⟨st, body⟩)) (hst : st ≠ 0) : s'.fs = s.fs := by
  unfold procSymlink at heq
  split at heq
  · simp only [Prod.mk.injEq] at heq; rw [← heq.1]
  · split at heq
    · simp only [Prod.mk.injEq] at heq; rw [← heq.1]
    · split at heq
      · simp only [Prod.mk.injEq] at heq; rw [← heq.1]
      · rename_i name _ _
        split at heq
        · simp only [Prod.mk.injEq] at heq; rw [← heq.1]
        · rename_i hv
          have hns : NoSep name := noSep_of_valid name (by simpa using hv)
          split at heq
          · simp only [Prod.mk.injEq] at heq; rw [← heq.1]
          · split at heq
            · simp only [Prod.mk.injEq] at heq; rw [← heq.1]
            · split at heq
              · simp only [Prod.mk.injEq] at heq; rw [← heq.1]
              · split at heq
                · simp only [Prod.mk.injEq] at heq; rw [← heq.1]
                · split at heq
                  · simp only [Prod.mk.injEq] at heq; rw [← heq.1]
                  · split at heq
                    · simp only [Prod.mk.injEq] at heq; rw [← heq.1]
                    · rename_i n hn
                      have hnc := nodeOf_cleanI h hn
                      split at heq
                      · rename_i s1 e hg
                        simp only [Prod.mk.injEq] at heq; rw [← heq.1]; exact getAttr_fs' hg
                      · rename_i s1 pre hg
                        have hfs1 : s1.fs = s.fs := getAttr_fs' hg
                        have h1 := getAttr_cinv' hg h hnc
                        obtain ⟨i, hi, _⟩ := getAttr_ok hg
                        have hi1 : Fs.lstat s1.fs (fsPath n.path) = .ok i := by rw [hfs1]; exact hi
                        split at heq
                        · rename_i s2 e hso
                          obtain ⟨hunch, _⟩ := symlinkOp_outcome hso h1 hnc hns hi1
                          simp only [Prod.mk.injEq] at heq
                          rw [← heq.1, getAttrOr_fs, hunch e rfl, hfs1]
                        · rename_i s2 node hso
                          exfalso
                          obtain ⟨_, i2, hi2⟩ := symlinkOp_outcome hso h1 hnc hns hi1
                          have h2 := symlinkOp_cinv' hso h1 hnc hns
                          obtain ⟨i3, hi3⟩ := lchownQuiet_lstat h2.wf (joinName n.path name) (ownerUid c _) (ownerGid c _) _ hi2
                          simp only at heq
                          split at heq
                          · rename_i hg2; exact getAttr_not_error hi3 hg2
                          · simp only [res, Prod.mk.injEq, Outcome.res.injEq, Rfc.Res.mk.injEq] at heq
                            exact hst heq.2.1.symm

theorem renameOp_outcome {s2 s3 : St} {d1 d2 : Node} {n1 n2 : Bytes} (heq : renameOp s2 d1 n1 d2 n2 = .ok s3) (h : CInv s2)
    (hn1 : NoSep n1) (hn2 : NoSep n2) {i1 i2 : Fs.Info}
    (hi1 : Fs.lstat s2.fs (fsPath d1.path) = .ok i1) (hi2 : Fs.lstat s2.fs (fsPath d2.path) = .ok i2) :
    (∃ j1, Fs.lstat s3.fs (fsPath d1.path) = .ok j1) ∧ (∃ j2, Fs.lstat s3.fs (fsPath d2.path) = .ok j2) := by
  unfold renameOp at heq
  split at heq
  · rename_i p1 p2 hp1 hp2
    split at heq
    · simp at heq
    · rename_i fs1 hrn
      simp only [Except.ok.injEq] at heq
      rw [sanitize_some hp1, sanitize_some hp2, fsPath_joinName d1.path n1 hn1, fsPath_joinName d2.path n2 hn2] at hrn
      obtain ⟨hw1, _⟩ := Fs.rename_frame hrn h.wf
      obtain ⟨v1, v2⟩ := Fs.rename_parents hrn h.wf
      have hfs : s3.fs = fs1 := by rw [← heq]; rfl
      rw [hfs]
      exact ⟨lstat_ok_transfer hw1 hi1 v1, lstat_ok_transfer hw1 hi2 v2⟩
  · simp at heq

/-- RENAME answered with an error status: the backend tree is unchanged -/
theorem procRename_failed (s s' : St) (c : Ctx) (args : Bytes) (st : Nat) (body : Rfc.Body) (h : CInv s)
    (heq : procRename s c args = (s', .res ⟨st, body⟩)) (hst : st ≠ 0) : s'.fs = s.fs := by
  unfold procRename at heq
  split at heq
  · simp only [Prod.mk.injEq] at heq; rw [← heq.1]
  · split at heq
    · simp only [Prod.mk.injEq] at heq; rw [← heq.1]
    · split at heq
      · simp only [Prod.mk.injEq] at heq; rw [← heq.1]
      · rename_i n1 _ _
        split at heq
        · simp only [Prod.mk.injEq] at heq; rw [← heq.1]
        · rename_i hv1
          have hns1 : NoSep n1 := noSep_of_valid n1 (by simpa using hv1)
          split at heq
          · simp only [Prod.mk.injEq] at heq; rw [← heq.1]
          · split at heq
            · simp only [Prod.mk.injEq] at heq; rw [← heq.1]
            · rename_i n2 _ _
              split at heq
              · simp only [Prod.mk.injEq] at heq; rw [← heq.1]
              · rename_i hv2
                have hns2 : NoSep n2 := noSep_of_valid n2 (by simpa using hv2)
                split at heq
                · simp only [Prod.mk.injEq] at heq; rw [← heq.1]
                · rename_i d1 hd1
                  have hc1 := nodeOf_cleanI h hd1
                  split at heq
                  · simp only [Prod.mk.injEq] at heq; rw [← heq.1]
                  · rename_i d2 hd2
                    have hc2 := nodeOf_cleanI h hd2
                    split at heq
                    · rename_i s1 e hg
                      simp only [Prod.mk.injEq] at heq; rw [← heq.1]; exact getAttr_fs' hg
                    · rename_i s1 pre1 hg1
                      have hfs1 : s1.fs = s.fs := getAttr_fs' hg1
                      have h1 := getAttr_cinv' hg1 h hc1
                      obtain ⟨i1, hi1, _⟩ := getAttr_ok hg1
                      split at heq
                      · rename_i s2 e hg
                        simp only [Prod.mk.injEq] at heq; rw [← heq.1, getAttr_fs' hg, hfs1]
                      · rename_i s2 pre2 hg2
                        have hfs2 : s2.fs = s.fs := by rw [getAttr_fs' hg2, hfs1]
                        have h2 := getAttr_cinv' hg2 h1 hc2
                        obtain ⟨i2, hi2, _⟩ := getAttr_ok hg2
                        split at heq
                        · simp only [Prod.mk.injEq] at heq
                          rw [← heq.1, getAttrOr_fs, getAttrOr_fs, hfs2]
                        · rename_i s3 hro
                          exfalso
                          obtain ⟨⟨j1, hj1⟩, ⟨j2, hj2⟩⟩ := renameOp_outcome hro h2 hns1 hns2
                            (by rw [hfs2]; exact hi1) (by rw [hfs2, ← hfs1]; exact hi2)
                          split at heq
                          · rename_i hg; exact getAttr_not_error hj1 hg
                          · rename_i s4 post1 hg
                            have hfs4 : s4.fs = s3.fs := getAttr_fs' hg
                            split at heq
                            · rename_i hg'; exact getAttr_not_error (by rw [hfs4]; exact hj2) hg'
                            · simp only [res, Prod.mk.injEq, Outcome.res.injEq, Rfc.Res.mk.injEq] at heq
                              exact hst heq.2.1.symm


/-! ### CREATE -/

/-- Create (the operation), for a name Lstat does not find: an error means nothing changed; on success the
    directory's Lstat still succeeds -/
theorem createOp_outcome {s s' : St} {now : Nat} {dir : Node} {name : Bytes} {perm : Nat} {r : Except Fs.Errno Node}
    (heq : createOp s now dir name perm = (s', r)) (h : CInv s) (hd : CleanPath dir.path) (hn : NoSep name)
    (hmiss : ∃ err, Fs.lstat s.fs (fsPath (joinName dir.path name)) = .error err)
    {idir : Fs.Info} (hidir : Fs.lstat s.fs (fsPath dir.path) = .ok idir) :
    (∀ e, r = .error e → s'.fs = s.fs) ∧ ∃ i', Fs.lstat s'.fs (fsPath dir.path) = .ok i' := by
  unfold createOp at heq
  split at heq
  · simp only [Prod.mk.injEq] at heq
    rw [← heq.1]; exact ⟨fun _ _ => rfl, idir, hidir⟩
  · rename_i p hp
    have hpe := sanitize_some hp
    have hpc : CleanPath p := by rw [hpe]; exact .child dir.path name hd hn
    obtain ⟨err, herr⟩ := hmiss
    rw [← hpe] at herr
    have hwk := Fs.lstat_err_walk herr
    split at heq
    · simp only [Prod.mk.injEq] at heq
      rw [← heq.1]; exact ⟨fun _ _ => rfl, idir, hidir⟩
    · rename_i fs1 hcr
      obtain ⟨hw1, hview1, e, hwe, hke⟩ := Fs.create_new_frame hwk hcr h.wf
      have hnl : e.kind ≠ .link := by rw [hke]; decide
      split at heq
      · rename_i e' hch
        obtain ⟨fs2, hok⟩ := Fs.chmod_ok_of_nonlink (perm := perm % 512) hwe hnl
        rw [hok] at hch
        simp at hch
      · rename_i fs2 hch
        obtain ⟨hw2, hview2⟩ := Fs.chmod_at_nonlink hwe hnl hch hw1
        obtain ⟨e2, hwe2, _⟩ := Fs.chmod_nonlink_result hwe hnl hch hw1
        have hsub := invalidateForNew_sub (s := { s with fs := fs2 }) h.lru dir.path p
        have h2 : CInv (invalidateForNew { s with fs := fs2 } dir.path p) :=
          cinv_change_at h hpc hw2 (fun q hq => (hview2 q hq).trans (hview1 q hq)) rfl hsub.1 hsub.2
        have hfs : s'.fs = fs2 := lookupPath_fs' heq
        have hinew : Fs.lstat fs2 (fsPath p) = .ok (Fs.infoOf e2) := by unfold Fs.lstat; rw [hwe2]; rfl
        constructor
        · intro e3 he
          subst he
          exact (lookupPath_not_error h2.coh (cleanPath_ne_nil hpc) hinew heq).elim
        · rw [hfs]
          have hne : fsPath dir.path ≠ fsPath p := by rw [hpe]; exact fsPath_child_ne dir.path name hn
          exact lstat_ok_transfer hw2 hidir ((hview2 _ hne).trans (hview1 _ hne))

theorem createNew_failed (s1 s' : St) (c : Ctx) (n : Node) (pre : Attrs) (name : Bytes) (mode how : Nat) (sa : Sattr3) (verf : Bytes)
    (st : Nat) (body : Rfc.Body) (h1 : CInv s1) (hnc : CleanPath n.path) (hns : NoSep name)
    (hmiss : ∃ err, Fs.lstat s1.fs (fsPath (joinName n.path name)) = .error err)
    {idir : Fs.Info} (hidir : Fs.lstat s1.fs (fsPath n.path) = .ok idir)
    (heq : createNew s1 c n pre name mode how sa verf = (s', .res ⟨st, body⟩)) (hst : st ≠ 0) : s'.fs = s1.fs := by
  unfold createNew at heq
  split at heq
  · rename_i s2 e hco
    obtain ⟨hunch, _⟩ := createOp_outcome hco h1 hnc hns hmiss hidir
    simp only [Prod.mk.injEq] at heq
    rw [← heq.1, getAttrOr_fs, hunch e rfl]
  · rename_i s2 node hco
    exfalso
    obtain ⟨_, i2, hi2⟩ := createOp_outcome hco h1 hnc hns hmiss hidir
    have h2 := createOp_cinv' hco h1 hnc hns hmiss
    have h3 : CInv (if how = 2 then rememberExclusive s2 node.path verf else s2) := by
      split
      · exact rememberExclusive_cinv h2 _ _
      · exact h2
    have hi3 : Fs.lstat (if how = 2 then rememberExclusive s2 node.path verf else s2).fs (fsPath n.path) = .ok i2 := by
      split
      · exact hi2
      · exact hi2
    obtain ⟨i4, hi4⟩ := chownQuiet_lstat h3.wf node.path (ownerUid c sa) (ownerGid c sa) _ hi3
    simp only at heq
    split at heq
    · rename_i hg; exact getAttr_not_error hi4 hg
    · simp only [res, Prod.mk.injEq, Outcome.res.injEq, Rfc.Res.mk.injEq] at heq
      exact hst heq.2.1.symm

/-- the decision half of CREATE over a taken name: a non-zero status means the backend was not touched; status 0
    leaves the object in place (possibly resized) -/
theorem createStep1_outcome (s1 : St) (p : Bytes) (info : Fs.Info) (how : Nat) (sa : Sattr3) (verf : Bytes) (h1 : CInv s1)
    (hinfo : Fs.lstat s1.fs (fsPath p) = .ok info) :
    ((createStep1 s1 p info how sa verf).2 ≠ 0 → (createStep1 s1 p info how sa verf).1.fs = s1.fs) ∧
    (∃ i', Fs.lstat (createStep1 s1 p info how sa verf).1.fs (fsPath p) = .ok i') ∧
    (∀ q, q ≠ fsPath p → Fs.viewAt (createStep1 s1 p info how sa verf).1.fs q = Fs.viewAt s1.fs q) ∧
    Fs.WF (createStep1 s1 p info how sa verf).1.fs := by
  unfold createStep1
  split
  · exact ⟨fun _ => rfl, ⟨info, hinfo⟩, fun _ _ => rfl, h1.wf⟩
  · rename_i hfile
    split
    · exact ⟨fun _ => rfl, ⟨info, hinfo⟩, fun _ _ => rfl, h1.wf⟩
    · split
      · simp only
        split
        · exact ⟨fun _ => rfl, ⟨info, hinfo⟩, fun _ _ => rfl, h1.wf⟩
        · split
          · exact ⟨fun _ => rfl, ⟨info, hinfo⟩, fun _ _ => rfl, h1.wf⟩
          · split
            · exact ⟨fun _ => rfl, ⟨info, hinfo⟩, fun _ _ => rfl, h1.wf⟩
            · rename_i fs1 htr
              obtain ⟨e, hwe, hie⟩ := Fs.lstat_ok_walk hinfo
              have hk : e.kind ≠ .link := by
                have : info.kind = .file := by
                  simp only [not_or, Decidable.not_not] at hfile
                  exact hfile.2
                have : e.kind = .file := by rw [← hie] at this; exact this
                rw [this]; decide
              obtain ⟨hw1, hview⟩ := Fs.truncate_at_nonlink hwe hk htr h1.wf
              refine ⟨fun hne => absurd rfl hne, ?_, hview, hw1⟩
              -- the truncated file is still there
              unfold Fs.truncate at htr
              rw [Fs.follow_of_walk_nonlink hwe hk] at htr
              simp only at htr
              split at htr
              · simp at htr
              · split at htr
                · simp at htr
                · simp only [Except.ok.injEq] at htr
                  subst htr
                  refine ⟨Fs.infoOf { e with data := Fs.truncBytes e.data (sa.size.getD 0) }, ?_⟩
                  show Fs.lstat (Fs.set s1.fs (fsPath p) { e with data := Fs.truncBytes e.data (sa.size.getD 0) }) (fsPath p) = _
                  unfold Fs.lstat
                  rw [Fs.walk_eq_of_get hw1 (Fs.get_set_same ..)]
                  rfl
      · exact ⟨fun _ => rfl, ⟨info, hinfo⟩, fun _ _ => rfl, h1.wf⟩


theorem createExisting_failed (s1 s' : St) (c : Ctx) (n : Node) (pre : Attrs) (p : Bytes) (info : Fs.Info) (how : Nat) (sa : Sattr3)
    (verf : Bytes) (st : Nat) (body : Rfc.Body) (h1 : CInv s1) (hpc : CleanPath p)
    (hinfo : Fs.lstat s1.fs (fsPath p) = .ok info)
    (heq : createExisting s1 c n pre p info how sa verf = (s', .res ⟨st, body⟩)) (hst : st ≠ 0) : s'.fs = s1.fs := by
  unfold createExisting createFinish at heq
  obtain ⟨hunch, ⟨i2, hi2⟩, _, _⟩ := createStep1_outcome s1 p info how sa verf h1 hinfo
  have h2 := createStep1_cinv s1 p info how sa verf h1 hpc hinfo
  split at heq
  · rename_i hne
    simp only [Prod.mk.injEq] at heq
    rw [← heq.1, getAttrOr_fs, hunch hne]
  · split at heq
    · rename_i s3 e hl
      exact (lookupPath_not_error h2.coh (cleanPath_ne_nil hpc) hi2 hl).elim
    · simp only [res, Prod.mk.injEq, Outcome.res.injEq, Rfc.Res.mk.injEq] at heq
      exact absurd heq.2.1.symm hst

/-- CREATE answered with an error status: the backend tree is unchanged -/
theorem procCreate_failed (s s' : St) (c : Ctx) (args : Bytes) (st : Nat) (body : Rfc.Body) (h : CInv s)
    (heq : procCreate s c args = (s', .res ⟨st, body⟩)) (hst : st ≠ 0) : s'.fs = s.fs := by
  unfold procCreate at heq
  split at heq
  · simp only [Prod.mk.injEq] at heq; rw [← heq.1]
  · split at heq
    · simp only [Prod.mk.injEq] at heq; rw [← heq.1]
    · split at heq
      · simp only [Prod.mk.injEq] at heq; rw [← heq.1]
      · rename_i name _ _
        split at heq
        · simp only [Prod.mk.injEq] at heq; rw [← heq.1]
        · rename_i hv
          have hpv : validateFilename name = 0 := by simpa using hv
          have hns : NoSep name := noSep_of_valid name hpv
          split at heq
          · simp only [Prod.mk.injEq] at heq; rw [← heq.1]
          · split at heq
            · simp only [Prod.mk.injEq] at heq; rw [← heq.1]
            · simp only at heq
              split at heq
              · simp only [Prod.mk.injEq] at heq; rw [← heq.1]
              · split at heq
                · simp only [Prod.mk.injEq] at heq; rw [← heq.1]
                · rename_i n hn
                  have hnc := nodeOf_cleanI h hn
                  have hpc : CleanPath (joinName n.path name) := joinName_clean n.path name hnc hpv
                  split at heq
                  · rename_i s1 e hg
                    simp only [Prod.mk.injEq] at heq; rw [← heq.1]; exact getAttr_fs' hg
                  · rename_i s1 pre hg
                    have hfs1 : s1.fs = s.fs := getAttr_fs' hg
                    have h1 := getAttr_cinv' hg h hnc
                    obtain ⟨i, hi, _⟩ := getAttr_ok hg
                    split at heq
                    · rename_i info hinfo
                      rw [← hfs1]
                      exact createExisting_failed s1 s' c n pre _ info _ _ _ st body h1 hpc hinfo heq hst
                    · rename_i err herr
                      rw [← hfs1]
                      exact createNew_failed s1 s' c n pre name _ _ _ _ st body h1 hnc hns ⟨err, herr⟩
                        (by rw [hfs1]; exact hi) heq hst

end Server
end Absnfs
