/-
  ConnLoop: one record-marking connection (server.go: handleConnectionLoop over recordMarkingConnIO) at the level
  of whole records. Records are read one at a time; a record that decodes as an RPC call is handled and
  answered before the next one is read; the first record that does not decode ends the loop (the connection is
  closed). Reading a record and decoding a call are the models of C13 (`RecordMark.readRecord`) and C12
  (`Rpc.decCall`), whose allocation bounds are proved there.
-/
import Absnfs.Rpc
import Absnfs.RecordMark
namespace Absnfs
namespace ConnLoop

/-- reply XIDs in order, and whether the server closed the connection -/
def serve (maxAuth : Nat) : List Bytes → List Nat × Bool
  | [] => ([], false)
  | r :: rs =>
    match decCall maxAuth r with
    | none => ([], true)
    | some (c, _) => ((c.xid :: (serve maxAuth rs).1), (serve maxAuth rs).2)

/-- the XID of a record that decodes as a call -/
def xidOf (maxAuth : Nat) (r : Bytes) : Option Nat := (decCall maxAuth r).map (·.1.xid)

/-- the longest prefix of records that all decode -/
def decodablePrefix (maxAuth : Nat) : List Bytes → List Bytes
  | [] => []
  | r :: rs => if (decCall maxAuth r).isSome then r :: decodablePrefix maxAuth rs else []

theorem serve_replies (maxAuth : Nat) (recs : List Bytes) :
    (serve maxAuth recs).1 = (decodablePrefix maxAuth recs).filterMap (xidOf maxAuth) := by
  induction recs with
  | nil => rfl
  | cons r rs ih =>
    unfold serve decodablePrefix
    cases h : decCall maxAuth r with
    | none => simp
    | some x => simp [ih, xidOf, h]

/-- C15: each decodable call is answered at most once, in arrival order, with its own XID: the replies are exactly
    the XIDs of the records before the first undecodable one, in the same order (`serve_replies`), so there are
    as many replies as such records and each reply XID is the XID of a record that was sent -/
theorem one_reply_per_call (maxAuth : Nat) (recs : List Bytes) :
    (serve maxAuth recs).1.length = (decodablePrefix maxAuth recs).length ∧
    ∀ x ∈ (serve maxAuth recs).1, ∃ r ∈ recs, xidOf maxAuth r = some x := by
  induction recs with
  | nil => exact ⟨rfl, fun x h => by simp [serve] at h⟩
  | cons r rs ih =>
    unfold serve decodablePrefix
    cases h : decCall maxAuth r with
    | none => exact ⟨by simp, fun x hx => by simp at hx⟩
    | some y =>
      simp only [Option.isSome_some, if_true, List.length_cons]
      refine ⟨by rw [ih.1], fun x hx => ?_⟩
      simp only [List.mem_cons] at hx
      rcases hx with rfl | hx
      · exact ⟨r, List.mem_cons_self .., by simp [xidOf, h]⟩
      · obtain ⟨r', hr', hx'⟩ := ih.2 x hx
        exact ⟨r', List.mem_cons_of_mem _ hr', hx'⟩

/-- C15: the connection is closed exactly when some record does not decode; nothing after it is answered -/
theorem closed_iff_undecodable (maxAuth : Nat) (recs : List Bytes) :
    (serve maxAuth recs).2 = true ↔ ∃ r ∈ recs, decCall maxAuth r = none := by
  induction recs with
  | nil => simp [serve]
  | cons r rs ih =>
    unfold serve
    cases h : decCall maxAuth r with
    | none => simp [h]
    | some x =>
      simp only [ih, List.mem_cons]
      constructor
      · rintro ⟨r', hr', hn⟩; exact ⟨r', .inr hr', hn⟩
      · rintro ⟨r', hr' | hr', hn⟩
        · subst hr'; rw [h] at hn; simp at hn
        · exact ⟨r', hr', hn⟩

theorem nothing_after_undecodable (maxAuth : Nat) (pre : List Bytes) (bad : Bytes) (post : List Bytes)
    (hb : decCall maxAuth bad = none) : (serve maxAuth (pre ++ bad :: post)).1 = (serve maxAuth (pre ++ [bad])).1 := by
  induction pre with
  | nil => simp [serve, hb]
  | cons r rs ih =>
    simp only [List.cons_append]
    unfold serve
    cases decCall maxAuth r with
    | none => rfl
    | some x => simp only [ih]

end ConnLoop
end Absnfs
