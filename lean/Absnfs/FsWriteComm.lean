/-
  Fs level of BytesComm (C29): two WriteAt calls on non-overlapping ranges of the same file, through any path
  that resolves to it, succeed in either order and leave the same backing filesystem.
-/
import Absnfs.BytesComm
import Absnfs.ServerData3

namespace Absnfs.Fs

theorem set_set_same (fs : T) (q : Path) (a b : Entry) : set (set fs q a) q b = set fs q b := by
  unfold set
  simp [List.filter_filter]

/-- WriteAt of a non-empty payload within the size limit, through a path that resolves to a non-directory -/
theorem writeAt_of_follow {fs : T} {p q : Path} {e : Entry} (hf : follow fs p = (q, .ok e)) (hk : e.kind = .file)
    (off : Nat) (w : Bytes) (hw : w ≠ []) (hsz : off + w.length ≤ fs.maxSize) :
    writeAt fs p off w = .ok (set fs q { e with data := writeBytes e.data off w }, w.length) := by
  unfold writeAt
  rw [hf]
  have h1 : ¬ (e.kind = .dir) := by rw [hk]; decide
  have h2 : ¬ (off > fs.maxSize ∨ off + w.length > fs.maxSize) := by omega
  simp only [h1, hw, h2, if_false]

/-- both orders of two non-overlapping writes to one file succeed and leave the same filesystem -/
theorem writeAt_comm_disjoint {fs : T} (hwf : WF fs) {p p' q : Path} {e : Entry}
    (hf : follow fs p = (q, .ok e)) (hf' : follow fs p' = (q, .ok e)) (hk : e.kind = .file)
    (o1 o2 : Nat) (w1 w2 : Bytes) (h1 : w1 ≠ []) (h2 : w2 ≠ [])
    (hs1 : o1 + w1.length ≤ fs.maxSize) (hs2 : o2 + w2.length ≤ fs.maxSize)
    (hd : o1 + w1.length ≤ o2 ∨ o2 + w2.length ≤ o1) :
    ∃ fa fb fin, writeAt fs p o1 w1 = .ok (fa, w1.length) ∧ writeAt fa p' o2 w2 = .ok (fin, w2.length) ∧
                 writeAt fs p' o2 w2 = .ok (fb, w2.length) ∧ writeAt fb p o1 w1 = .ok (fin, w1.length) ∧
                 get fin q = some { e with data := writeBytes (writeBytes e.data o1 w1) o2 w2 } := by
  have hnl : e.kind ≠ .link := by rw [hk]; decide
  let e1 : Entry := { e with data := writeBytes e.data o1 w1 }
  let e2 : Entry := { e with data := writeBytes e.data o2 w2 }
  have hfa' : follow (set fs q e1) p' = (q, .ok e1) := followFrom_set_target hwf (e := e) (e' := e1) rfl hnl 9 p' hf'
  have hfb : follow (set fs q e2) p = (q, .ok e2) := followFrom_set_target hwf (e := e) (e' := e2) rfl hnl 9 p hf
  refine ⟨set fs q e1, set fs q e2, set fs q { e with data := writeBytes (writeBytes e.data o1 w1) o2 w2 },
    writeAt_of_follow hf hk o1 w1 h1 hs1, ?_, writeAt_of_follow hf' hk o2 w2 h2 hs2, ?_, get_set_same ..⟩
  · have := writeAt_of_follow hfa' (e := e1) hk o2 w2 h2 hs2
    rw [this, set_set_same]
  · have := writeAt_of_follow hfb (e := e2) hk o1 w1 h1 hs1
    rw [this, set_set_same]
    have hc := writeBytes_comm_disjoint e.data o1 o2 w1 w2 h1 h2 hd
    simp only [e2, hc]

end Absnfs.Fs
