/-
  ServerAttrs2: handler-level provenance of the attributes in LOOKUP / MKDIR / SYMLINK / MNT replies (C04), on
  top of the cache invariant.
-/
import Absnfs.ServerInvProcs
namespace Absnfs
namespace Server

/-- the directory attributes LOOKUP sends: the backend's lstat of the handle's path whenever that succeeds -/
theorem getAttrOr_matches {s : St} {now : Nat} {n : Node} {d : Attrs} {i : Fs.Info}
    (hi : Fs.lstat s.fs (fsPath n.path) = .ok i) : MatchesLstat s.fs n.path (getAttrOr s now n d).2 := by
  unfold getAttrOr
  split
  · rename_i s1 a hg
    exact getAttr_matches hg
  · rename_i s1 e hg
    have := getAttr_err hg
    rw [hi] at this
    simp at this

/-- LOOKUP: the object attributes in an OK reply are the backend's lstat of dir-path/name (type, size, mode)
    with that path's fileid — from the cache or not — and the directory attributes are the backend's lstat of
    the directory handle's path. -/
theorem procLookup_matches (s s' : St) (c : Ctx) (args : Bytes) (fh : Nat) (fa : Rfc.Fattr) (da : Option Rfc.Fattr)
    (hc : AcCoherent s) (h : procLookup s c args = (s', .res ⟨0, .lookupOk fh (some fa) da⟩)) :
    ∃ hd r1 name r2 n a, decFh' s args = some (hd, r1) ∧ decStr s r1 = some (name, r2) ∧ nodeOf s hd = some n ∧
      MatchesLstat s.fs (joinName n.path name) a ∧ fa = toFattr a ∧
      (∀ i, Fs.lstat s.fs (fsPath n.path) = .ok i → ∃ b, MatchesLstat s.fs n.path b ∧ da = some (toFattr b)) := by
  unfold procLookup at h
  split at h
  · simp [res] at h
  · rename_i hd r1 hfh
    split at h
    · simp [res] at h
    · rename_i name r2 hname
      split at h
      · simp [res] at h
      · split at h
        · simp [res] at h
        · rename_i n hn
          split at h
          · simp [res, lookupDirAttr] at h
          · split at h
            · rename_i s1 st hl
              simp only [lookupDirAttr, res, Prod.mk.injEq, Outcome.res.injEq, Rfc.Res.mk.injEq] at h
              exact absurd h.2.2 (by simp)
            · rename_i s1 ln hl
              simp only [lookupDirAttr, res, Prod.mk.injEq, Outcome.res.injEq, Rfc.Res.mk.injEq, Rfc.Body.lookupOk.injEq,
                Option.some.injEq, true_and] at h
              obtain ⟨_, hm⟩ := (lookupPath_sound (s' := s1) hc).1 ln hl
              refine ⟨hd, r1, name, r2, n, ln.attrs, hfh, hname, hn, hm, h.2.2.1.symm, ?_⟩
              intro i hi
              have hfs : (allocate s1 ln).1.fs = s.fs := by rw [allocate_fs]; exact lookupPath_fs' hl
              have := getAttrOr_matches (s := (allocate s1 ln).1) (now := c.now) (n := n) (d := n.attrs) (by rw [hfs]; exact hi)
              rw [hfs] at this
              exact ⟨_, this, h.2.2.2.symm⟩

/-- … hence after any history of requests on a new server -/
theorem procLookup_matches_after (s0 : St) (rs : List Req) (h0 : CInv s0) (s' : St) (c : Ctx) (args : Bytes) (fh : Nat)
    (fa : Rfc.Fattr) (da : Option Rfc.Fattr)
    (h : procLookup (runReqs s0 rs) c args = (s', .res ⟨0, .lookupOk fh (some fa) da⟩)) :
    ∃ hd r1 name r2 n a, decFh' (runReqs s0 rs) args = some (hd, r1) ∧ decStr (runReqs s0 rs) r1 = some (name, r2) ∧
      nodeOf (runReqs s0 rs) hd = some n ∧ MatchesLstat (runReqs s0 rs).fs (joinName n.path name) a ∧ fa = toFattr a ∧
      (∀ i, Fs.lstat (runReqs s0 rs).fs (fsPath n.path) = .ok i → ∃ b, MatchesLstat (runReqs s0 rs).fs n.path b ∧ da = some (toFattr b)) :=
  procLookup_matches _ s' c args fh fa da (runReqs_cinv s0 rs h0).coh h

/-- MNT: a handle is only given for a path the backend has -/
theorem procMnt_exists (s s' : St) (c : Ctx) (args : Bytes) (fhb : Bytes) (auth : List Nat) (hc : AcCoherent s)
    (h : procMnt s c args = (s', .res ⟨0, .mntOk fhb auth⟩)) :
    ∃ raw r a, decStr s args = some (raw, r) ∧ MatchesLstat s.fs (cleanAbs raw) a := by
  unfold procMnt at h
  split at h
  · simp at h
  · rename_i raw r hraw
    split at h
    · simp [res] at h
    · simp only at h
      generalize (if cleanAbs raw = [47] then 0 else firstBadComponent _) = bad at h
      split at h
      · rename_i hb
        simp only [res, Prod.mk.injEq, Outcome.res.injEq, Rfc.Res.mk.injEq] at h
        exact absurd h.2.1 hb
      · split at h
        · simp [res] at h
        · rename_i s1 node hl
          obtain ⟨_, hm⟩ := (lookupPath_sound (s' := s1) hc).1 node hl
          exact ⟨raw, r, node.attrs, hraw, hm⟩


end Server
end Absnfs
