/-
  Server: the NFSv3 / MOUNTv3 procedure handlers (nfs_proc_*.go, mount_handlers.go, operations.go) as one
  sequential state machine over the backing filesystem (`Fs`), the file-handle table (`Handles`), the
  attribute cache and the directory cache (`Lru`), and the per-handle node attributes.

  One request = `handle : St → Ctx → prog → vers → proc → args → St × Outcome`. Arguments are the XDR bytes of
  the call body; the outcome is the typed RFC 1813 result (`Rfc.Res`) or an RPC accept-level error.

  Not modelled (assumptions recorded in DESIGN.md): times (attribute times are not part of `Rfc.Fattr`;
  a sattrguard3 check is assumed to mismatch), operation timeouts, rate limiting inside handlers (disabled in
  the configurations the correspondence runs), logging and metrics, authentication denial (C09/C10 model it;
  the caller's credential is an input here and squashing is applied with `Auth.squash`).
-/
import Absnfs.Fs
import Absnfs.Lru
import Absnfs.Handles
import Absnfs.Xdr
import Absnfs.Access
import Absnfs.Auth
import Absnfs.Rfc1813
namespace Absnfs
namespace Server
open Fs (Kind Errno)

/-- NFSAttrs without the times -/
structure Attrs where
  kind : Kind
  perm : Nat
  size : Nat
  fileId : Nat
  uid : Nat
  gid : Nat
  deriving DecidableEq, Repr

structure Node where
  path : Bytes
  attrs : Attrs
  deriving DecidableEq, Repr

structure Cfg where
  transfer : Nat            -- effective TransferSize
  readOnly : Bool
  maxFileSize : Int
  squash : SquashMode
  maxStr : Nat              -- xdrDecodeString limit
  fhMax : Nat
  defaultMaxHandles : Nat
  evictDivisor : Nat
  dcMaxDirSize : Nat
  maxRecord : Nat           -- DefaultMaxRecordSize
  writeVerf : Bytes
  deriving Repr

structure St where
  fs : Fs.T
  hs : Handles.St
  nodes : List (Nat × Attrs)               -- handle id -> attributes of the node stored under it
  ac : Lru.Cache Attrs
  dc : Option (Lru.Cache (List Bytes))     -- directory path -> entry names
  excl : List (Bytes × Bytes)              -- path -> verifier of the EXCLUSIVE CREATE that made it
  cfg : Cfg
  deriving Repr

/-- the caller: effective identity after squashing, and the virtual time of the request -/
structure Ctx where
  now : Nat
  uid : Nat
  gid : Nat
  aux : List Nat
  deriving Repr

inductive Outcome where
  | res (r : Rfc.Res)
  | garbageArgs
  | procUnavail
  | progMismatch
  | progUnavail
  deriving DecidableEq, Repr

/-! ### small helpers -/

def u32Max : Nat := 4294967296
def u64Max : Nat := 18446744073709551616
def maxInt64 : Nat := 9223372036854775807

/-- FNV-1a, 64 bit (hash/fnv) -/
def fnv64 (bs : Bytes) : Nat :=
  bs.foldl (fun h b => (1099511628211 * (h ^^^ b.toNat)) % 18446744073709551616) 14695981039346656037

def fsPath (p : Bytes) : Fs.Path := (splitOnByte 47 p).filter fun c => c ≠ [] ∧ c ≠ [46]

/-- path.Join(dir, name) for a clean absolute dir and a single component -/
def joinName (dir name : Bytes) : Bytes := if dir = [47] then 47 :: name else dir ++ 47 :: name

/-- path.Base of a clean absolute path -/
def baseName (p : Bytes) : Bytes :=
  match (splitOnByte 47 p).filter (· ≠ []) with
  | [] => [47]
  | l => l.getLast!

def mapErrno : Errno → Nat
  | .ENOENT => 2 | .EEXIST => 17 | .ENOTDIR => 20 | .EISDIR => 21 | .ENOTEMPTY => 17
  | .EINVAL => 5 | .EFBIG => 27 | .ELOOP => 5 | .EBADF => 5 | .EIO => 5

def hasDotDot : Bytes → Bool
  | 46 :: 46 :: _ => true
  | _ :: r => hasDotDot r
  | [] => false

/-- validateFilename -/
def validateFilename (n : Bytes) : Nat :=
  if n = [] then 22
  else if n.length > 255 then 63
  else if n.contains 0 then 22
  else if n.contains 47 ∨ n.contains 92 then 22
  else if n = [46] ∨ n = [46, 46] then 22
  else 0

/-- sanitizePath(dir, name) for a name that passed validateFilename: the joined path, unless it contains ".." -/
def sanitize (dir name : Bytes) : Option Bytes :=
  let p := joinName dir name
  if hasDotDot p then none else some p

/-- validateMode -/
def validateMode (mode : Nat) : Nat :=
  if mode &&& 0o170000 ≠ 0 then 22 else if mode / 4096 ≠ 0 then 22 else 0

def kindCode : Kind → Nat
  | .file => 1 | .dir => 2 | .link => 5

def toFattr (a : Attrs) : Rfc.Fattr :=
  { ftype := kindCode a.kind, mode := a.perm % 512, nlink := if a.kind = .dir then 2 else 1,
    uid := a.uid, gid := a.gid, size := a.size, used := a.size, fileid := a.fileId }

def wcc0 : Rfc.Wcc := { pre := none, post := none }
def wccOf (pre post : Attrs) : Rfc.Wcc := { pre := some pre.size, post := some (toFattr post) }

def exceedsMax (c : Cfg) (size : Nat) : Bool := decide (c.maxFileSize > 0 ∧ (size : Int) > c.maxFileSize)

def attrsOfInfo (i : Fs.Info) (fileId uid gid : Nat) : Attrs :=
  { kind := i.kind, perm := i.perm, size := i.size, fileId := fileId, uid := uid, gid := gid }

/-! ### caches, handle table -/

def acGet (s : St) (now : Nat) (p : Bytes) : St × Lru.Res Attrs :=
  let r := Lru.get s.ac now p
  ({ s with ac := r.1 }, r.2)

def acPut (s : St) (now : Nat) (p : Bytes) (a : Attrs) : St := { s with ac := Lru.put s.ac now p a }
def acPutNeg (s : St) (now : Nat) (p : Bytes) : St := { s with ac := Lru.putNegative s.ac now p }
def acInv (s : St) (p : Bytes) : St := { s with ac := Lru.invalidate s.ac p }
def acInvNegIn (s : St) (d : Bytes) : St := { s with ac := Lru.invalidateNegativeInDir s.ac d }
def acInvPrefix (s : St) (p : Bytes) : St := { s with ac := Lru.invalidatePrefix s.ac p }
def dcInv (s : St) (p : Bytes) : St := { s with dc := s.dc.map fun c => Lru.invalidate c p }
def dcInvPrefix (s : St) (p : Bytes) : St := { s with dc := s.dc.map fun c => Lru.invalidatePrefix c p }

def nodeOf (s : St) (h : Nat) : Option Node :=
  match Handles.get s.hs h with
  | none => none
  | some p => (s.nodes.find? (·.1 == h)).map fun x => { path := p, attrs := x.2 }

def setNode (s : St) (h : Nat) (a : Attrs) : St := { s with nodes := (h, a) :: s.nodes.filter (·.1 != h) }

/-- fileMap.Allocate(node): an existing handle for the path gets the new node -/
def allocate (s : St) (n : Node) : St × Nat :=
  let r := Handles.alloc s.cfg.defaultMaxHandles s.cfg.evictDivisor s.hs n.path
  (setNode { s with hs := r.1 } r.2 n.attrs, r.2)

/-- the node stored for the handle of path p, if any, gets new attributes (writes through `node.attrs`) -/
def updNodeAt (s : St) (h : Nat) (f : Attrs → Attrs) : St :=
  { s with nodes := s.nodes.map fun x => if x.1 = h then (x.1, f x.2) else x }

/-! ### operations.go -/

/-- LookupWithContext -/
def lookupPath (s : St) (now : Nat) (p : Bytes) : St × Except Errno Node :=
  if p = [] then (s, .error .EIO) else
  let (s1, r) := acGet s now p
  match r with
  | .hit a => (s1, .ok { path := p, attrs := a })
  | .neg => (s1, .error .ENOENT)
  | .miss =>
    match Fs.lstat s1.fs (fsPath p) with
    | .error e => ((if e = .ENOENT then acPutNeg s1 now p else s1), .error e)
    | .ok i =>
      let a := attrsOfInfo i (fnv64 p) 0 0
      (acPut s1 now p a, .ok { path := p, attrs := a })

/-- GetAttr: the cached copy is never "valid", so the cache is only touched and refreshed -/
def getAttr (s : St) (now : Nat) (n : Node) : St × Except Errno Attrs :=
  let (s1, _) := acGet s now n.path
  match Fs.lstat s1.fs (fsPath n.path) with
  | .error e => (s1, .error e)
  | .ok i =>
    let a := attrsOfInfo i (fnv64 n.path) n.attrs.uid n.attrs.gid
    (acPut s1 now n.path a, .ok a)

/-- `postAttrs, _ := GetAttr(node); if postAttrs == nil { postAttrs = preAttrs }` -/
def getAttrOr (s : St) (now : Nat) (n : Node) (dflt : Attrs) : St × Attrs :=
  match getAttr s now n with
  | (s1, .ok a) => (s1, a)
  | (s1, .error _) => (s1, dflt)

/-- invalidations shared by Create, Symlink and MKDIR -/
def invalidateForNew (s : St) (dir path : Bytes) : St :=
  dcInv (acInv (acInvNegIn (acInv s dir) dir) path) dir

/-- ReadDirWithContext: the names (from the directory cache or the backend), then a Lookup per name -/
def lookupEach (s : St) (now : Nat) (dir : Bytes) : List Bytes → St × List Node
  | [] => (s, [])
  | n :: ns =>
    if n = [46] ∨ n = [46, 46] ∨ n = [] ∨ n.contains 47 ∨ n.contains 92 then lookupEach s now dir ns
    else match sanitize dir n with
      | none => lookupEach s now dir ns
      | some p =>
        match lookupPath s now p with
        | (s1, .error _) => lookupEach s1 now dir ns
        | (s1, .ok node) =>
          let r := lookupEach s1 now dir ns
          (r.1, node :: r.2)

def readDir (s : St) (now : Nat) (dir : Node) : St × Except Errno (List Node) :=
  let cached : Option (St × List Bytes) :=
    match s.dc with
    | none => none
    | some c =>
      match Lru.get c now dir.path with
      | (c1, .hit names) => some ({ s with dc := some c1 }, names)
      | _ => none
  match cached with
  | some (s1, names) =>
    let r := lookupEach s1 now dir.path names
    (r.1, .ok r.2)
  | none =>
    -- the miss path of DirCache.Get has the same effect on the cache as `get` (removal of an expired entry)
    let s0 : St := { s with dc := s.dc.map fun c => (Lru.get c now dir.path).1 }
    match Fs.readdir s0.fs (fsPath dir.path) with
    | .error e => (s0, .error e)
    | .ok ents =>
      let names := ents.map (·.1)
      let s1 : St := { s0 with dc := s0.dc.map fun c =>
        if names.length > s0.cfg.dcMaxDirSize then c else Lru.put c now dir.path names }
      let r := lookupEach s1 now dir.path names
      (r.1, .ok r.2)

/-- ReadDirPlus: refresh the attributes of every entry with Lstat (keeping FileId, uid, gid) -/
def refreshEach (s : St) (now : Nat) : List Node → St × List Node
  | [] => (s, [])
  | n :: ns =>
    let (s1, _) := acGet s now n.path
    match Fs.lstat s1.fs (fsPath n.path) with
    | .error _ =>
      let r := refreshEach s1 now ns
      (r.1, n :: r.2)
    | .ok i =>
      let a := attrsOfInfo i n.attrs.fileId n.attrs.uid n.attrs.gid
      let r := refreshEach (acPut s1 now n.path a) now ns
      (r.1, { n with attrs := a } :: r.2)

/-! ### argument decoding -/

def decFh' (s : St) (bs : Bytes) : Option (Nat × Bytes) := decFh s.cfg.fhMax 8 bs
def decStr (s : St) (bs : Bytes) : Option (Bytes × Bytes) := decString s.cfg.maxStr bs

def res (st : Nat) (b : Rfc.Body) : Outcome := .res { status := st, body := b }

/-! ### procedures -/

def procGetattr (s : St) (c : Ctx) (args : Bytes) : St × Outcome :=
  match decFh' s args with
  | none => (s, res 4 .statusOnly)
  | some (h, _) =>
    match nodeOf s h with
    | none => (s, res 70 .statusOnly)
    | some n =>
      match getAttr s c.now n with
      | (s1, .error st) => (s1, res (mapErrno st) .statusOnly)
      | (s1, .ok a) => (s1, res 0 (.attr (toFattr a)))

/-- SetAttr (operations.go) on the node stored under handle h; returns the error status if any -/
def setAttrOp (s : St) (h : Nat) (n : Node) (a : Attrs) (timesSet : Bool) : St × Option Nat :=
  match Fs.lstat s.fs (fsPath n.path) with
  | .error e => (s, some (mapErrno e))
  | .ok i =>
    let isLink := i.kind = .link
    let r1 : Except Errno Fs.T :=
      if ¬ isLink ∧ a.perm % 512 ≠ n.attrs.perm % 512 then Fs.chmod s.fs (fsPath n.path) (a.perm % 512) else .ok s.fs
    match r1 with
    | .error e => (s, some (mapErrno e))
    | .ok fs1 =>
      let r2 : Except Errno Fs.T :=
        if a.uid ≠ n.attrs.uid ∨ a.gid ≠ n.attrs.gid then
          (if isLink then Fs.lchown fs1 (fsPath n.path) a.uid a.gid else Fs.chown fs1 (fsPath n.path) a.uid a.gid)
        else .ok fs1
      match r2 with
      | .error e => ({ s with fs := fs1 }, some (mapErrno e))
      | .ok fs2 =>
        let r3 : Except Errno Unit := if ¬ isLink ∧ timesSet then Fs.chtimes fs2 (fsPath n.path) else .ok ()
        match r3 with
        | .error e => ({ s with fs := fs2 }, some (mapErrno e))
        | .ok () => (acInv (updNodeAt { s with fs := fs2 } h fun _ => a) n.path, none)

/-- SETATTR, the size part (applied first): Truncate, invalidate, refresh the node's size -/
def setattrSize (s1 : St) (h : Nat) (n : Node) (pre : Attrs) : Option Nat → Except Nat St
  | none => .ok s1
  | some sz =>
    if sz > maxInt64 then .error 22
    else if exceedsMax s1.cfg sz then .error 27
    else if pre.kind = .link then .error 22
    else match Fs.truncate s1.fs (fsPath n.path) sz with
      | .error e => .error (mapErrno e)
      | .ok fs1 =>
        let s2 := acInv { s1 with fs := fs1 } n.path
        match Fs.stat s2.fs (fsPath n.path) with
        | .error _ => .ok s2
        | .ok i => .ok (updNodeAt s2 h fun a => { a with size := i.size })

/-- owner of a new object: the caller's effective identity, or sattr3's uid/gid for an effective root -/
def ownerUid (c : Ctx) (sa : Sattr3) : Nat := match sa.uid with | some u => if c.uid = 0 then u else c.uid | none => c.uid
def ownerGid (c : Ctx) (sa : Sattr3) : Nat := match sa.gid with | some g => if c.uid = 0 then g else c.gid | none => c.gid

/-- the attributes SETATTR asks SetAttr to apply, from the node's current ones -/
def setattrTarget (c : Ctx) (sa : Sattr3) (a0 : Attrs) : Attrs :=
  let a1 : Attrs := match sa.mode with | some m => { a0 with perm := m % 512 } | none => a0
  let a2 : Attrs := match sa.uid with | some u => if c.uid = 0 then { a1 with uid := u } else a1 | none => a1
  match sa.gid with | some g => if c.uid = 0 then { a2 with gid := g } else a2 | none => a2

/-- SETATTR, the rest: build the target attributes from the node, SetAttr, reply with wcc -/
def setattrApply (s2 : St) (c : Ctx) (h : Nat) (sa : Sattr3) (pre : Attrs) : St × Outcome :=
  match nodeOf s2 h with
  | none => (s2, res 5 (.wcc wcc0))
  | some n2 =>
  let a3 : Attrs := setattrTarget c sa n2.attrs
  let timesSet : Bool := (sa.atimeHow = 1 ∨ sa.atimeHow = 2 ∨ sa.mtimeHow = 1 ∨ sa.mtimeHow = 2)
  match setAttrOp s2 h n2 a3 timesSet with
  | (s3, some st) => (s3, res st (.wcc wcc0))
  | (s3, none) =>
  match getAttr s3 c.now { n2 with attrs := a3 } with
  | (s4, .error st) => (s4, res (mapErrno st) (.wcc wcc0))
  | (s4, .ok post) => (s4, res 0 (.wcc (wccOf pre post)))

/-- sattrguard3 after its discriminant: nothing more for 0, else two more words -/
def guardDecodes (guard : Nat) (r3 : Bytes) : Bool :=
  decide (guard = 0) || (match decU32 r3 with
    | none => false
    | some (_, r4) => (decU32 r4).isSome)

/-- `sattr.SetMode && sattr.Mode&0x8000 != 0` -/
def badModeBit (sa : Sattr3) : Bool := match sa.mode with | some m => decide (m &&& 0x8000 ≠ 0) | none => false

def procSetattr (s : St) (c : Ctx) (args : Bytes) : St × Outcome :=
  if s.cfg.readOnly then (s, res 30 (.wcc wcc0)) else
  match decFh' s args with
  | none => (s, res 4 (.wcc wcc0))
  | some (h, r1) =>
  match decSattr3 r1 with
  | none => (s, res 4 (.wcc wcc0))
  | some (sa, r2) =>
  match decU32 r2 with
  | none => (s, res 4 (.wcc wcc0))
  | some (guard, r3) =>
  if ¬ guardDecodes guard r3 then (s, res 4 (.wcc wcc0)) else
  if badModeBit sa then (s, res 22 (.wcc wcc0)) else
  match nodeOf s h with
  | none => (s, res 70 (.wcc wcc0))
  | some n =>
  match getAttr s c.now n with
  | (s1, .error st) => (s1, res (mapErrno st) (.wcc wcc0))
  | (s1, .ok pre) =>
  if guard ≠ 0 then (s1, res 10002 (.wcc wcc0)) else
  match setattrSize s1 h n pre sa.size with
  | .error st => (s1, res st (.wcc wcc0))
  | .ok s2 => setattrApply s2 c h sa pre

/-- LOOKUP's reply carries the directory's post-op attributes: a fresh GetAttr, or the handle's snapshot if that fails -/
def lookupDirAttr (s : St) (now : Nat) (n : Node) (k : Attrs → Outcome) : St × Outcome :=
  ((getAttrOr s now n n.attrs).1, k (getAttrOr s now n n.attrs).2)

def procLookup (s : St) (c : Ctx) (args : Bytes) : St × Outcome :=
  match decFh' s args with
  | none => (s, res 4 (.postOp none))
  | some (h, r1) =>
  match decStr s r1 with
  | none => (s, res 4 (.postOp none))
  | some (name, _) =>
  if validateFilename name ≠ 0 then (s, res 13 (.postOp none)) else
  match nodeOf s h with
  | none => (s, res 70 (.postOp none))
  | some n =>
  -- the directory's attributes in the reply come from GetAttr (falling back to the handle's snapshot)
  if n.attrs.kind ≠ .dir then (lookupDirAttr s c.now n (fun da => res 20 (.postOp (some (toFattr da))))) else
  match lookupPath s c.now (joinName n.path name) with
  | (s1, .error st) => lookupDirAttr s1 c.now n (fun da => res (mapErrno st) (.postOp (some (toFattr da))))
  | (s1, .ok ln) =>
    let (s2, fh) := allocate s1 ln
    lookupDirAttr s2 c.now n (fun da => res 0 (.lookupOk fh (some (toFattr ln.attrs)) (some (toFattr da))))

def procAccess (s : St) (c : Ctx) (args : Bytes) : St × Outcome :=
  match decFh' s args with
  | none => (s, res 4 (.postOp none))
  | some (h, r1) =>
  match decU32 r1 with
  | none => (s, res 4 (.postOp none))
  | some (mask, _) =>
  match nodeOf s h with
  | none => (s, res 70 (.postOp none))
  | some n =>
  match getAttr s c.now n with
  | (s1, .error st) => (s1, res (mapErrno st) (.postOp none))
  | (s1, .ok a) =>
    (s1, res 0 (.accessOk (some (toFattr a))
      (accessReply a.perm (a.kind = .dir) s.cfg.readOnly c.uid c.gid c.aux a.uid a.gid mask)))

def targetHasDotDot (t : Bytes) : Bool := (splitOnByte 47 t).any (· = [46, 46])

def procReadlink (s : St) (c : Ctx) (args : Bytes) : St × Outcome :=
  match decFh' s args with
  | none => (s, res 4 (.postOp none))
  | some (h, _) =>
  match nodeOf s h with
  | none => (s, res 70 (.postOp none))
  | some n =>
  if n.attrs.kind ≠ .link then (s, res 22 (.postOp none)) else
  match Fs.readlink s.fs (fsPath n.path) with
  | .error e => (s, res (mapErrno e) (.postOp none))
  | .ok t =>
    if t.head? ≠ some 47 ∧ targetHasDotDot t then (s, res 5 (.postOp none)) else
    match getAttr s c.now n with
    | (s1, .error st) => (s1, res (mapErrno st) (.postOp none))
    | (s1, .ok a) => (s1, res 0 (.readlinkOk (some (toFattr a)) t))

def procRead (s : St) (c : Ctx) (args : Bytes) : St × Outcome :=
  match decFh' s args with
  | none => (s, res 4 (.postOp none))
  | some (h, r1) =>
  match decU64 r1 with
  | none => (s, res 4 (.postOp none))
  | some (off, r2) =>
  match decU32 r2 with
  | none => (s, res 4 (.postOp none))
  | some (cnt, _) =>
  if off + cnt ≥ u64Max then (s, res 22 (.postOp none)) else
  match nodeOf s h with
  | none => (s, res 70 (.postOp none))
  | some n =>
  if off > maxInt64 then (s, res 5 (.postOp none)) else
  let cnt' := if cnt > s.cfg.transfer then s.cfg.transfer else cnt
  match Fs.openRead s.fs (fsPath n.path) with
  | .error e => (s, res (mapErrno e) (.postOp none))
  | .ok (_, e) =>
    let size := (Fs.infoOf e).size
    let data : Bytes := if size ≤ off then [] else Fs.slice e.data off (min cnt' (size - off))
    match getAttr s c.now n with
    | (s1, .error st) => (s1, res (mapErrno st) (.postOp none))
    | (s1, .ok a) =>
      (s1, res 0 (.readOk (some (toFattr a)) data.length (decide (off + data.length ≥ a.size)) data))

/-- WriteWithContext: a negative offset (as int64) is refused; OpenFile(O_WRONLY) + WriteAt + Sync; then the
    cache entry is dropped and the node's size refreshed from Stat -/
def writeOp (s1 : St) (h : Nat) (n : Node) (off : Nat) (data : Bytes) : Except Errno (St × Nat) :=
  if off > maxInt64 then .error .EIO
  else match Fs.writeAt s1.fs (fsPath n.path) off data with
    | .error e => .error e
    | .ok (fs1, k) =>
      let s2 := acInv { s1 with fs := fs1 } n.path
      match Fs.stat s2.fs (fsPath n.path) with
      | .error _ => .ok (s2, k)
      | .ok i => .ok (updNodeAt s2 h fun a => { a with size := i.size }, k)

def procWrite (s : St) (c : Ctx) (args : Bytes) : St × Outcome :=
  if s.cfg.readOnly then (s, res 30 (.wcc wcc0)) else
  match decFh' s args with
  | none => (s, res 4 (.wcc wcc0))
  | some (h, r1) =>
  match decU64 r1 with
  | none => (s, res 4 (.wcc wcc0))
  | some (off, r2) =>
  match decU32 r2 with
  | none => (s, res 4 (.wcc wcc0))
  | some (cnt, r3) =>
  match decU32 r3 with
  | none => (s, res 4 (.wcc wcc0))
  | some (_stable, r4) =>
  if off + cnt ≥ u64Max then (s, res 22 (.wcc wcc0)) else
  match decU32 r4 with
  | none => (s, res 4 (.wcc wcc0))
  | some (dlen, r5) =>
  if dlen ≠ cnt then (s, res 4 (.wcc wcc0)) else
  if cnt > s.cfg.transfer then (s, res 22 (.wcc wcc0)) else
  if exceedsMax s.cfg (off + cnt) then (s, res 27 (.wcc wcc0)) else
  match take? cnt r5 with
  | none => (s, res 4 (.wcc wcc0))
  | some (data, _) =>
  match nodeOf s h with
  | none => (s, res 70 (.wcc wcc0))
  | some n =>
  match getAttr s c.now n with
  | (s1, .error st) => (s1, res (mapErrno st) (.wcc wcc0))
  | (s1, .ok pre) =>
  if pre.kind = .link then (s1, res 22 (.wcc wcc0)) else
  match writeOp s1 h n off data with
  | .error e =>
    let (s2, post) := getAttrOr s1 c.now n pre
    (s2, res (mapErrno e) (.wcc (wccOf pre post)))
  | .ok (s2, k) =>
    match getAttr s2 c.now n with
    | (s3, .error st) => (s3, res (mapErrno st) (.wcc wcc0))
    | (s3, .ok post) => (s3, res 0 (.writeOk (wccOf pre post) k 2 s.cfg.writeVerf))

/-- CreateWithContext / Symlink: the backend call, then the invalidations and the Lookup of the new path -/
def createOp (s : St) (now : Nat) (dir : Node) (name : Bytes) (perm : Nat) : St × Except Errno Node :=
  match sanitize dir.path name with
  | none => (s, .error .EIO)
  | some p =>
    match Fs.create s.fs (fsPath p) with
    | .error e => (s, .error e)
    | .ok fs1 =>
      match Fs.chmod fs1 (fsPath p) (perm % 512) with
      | .error e =>
        -- s.fs.Remove(path)
        let fs2 := match Fs.remove fs1 (fsPath p) with | .ok f => f | .error _ => fs1
        ({ s with fs := fs2 }, .error e)
      | .ok fs2 => lookupPath (invalidateForNew { s with fs := fs2 } dir.path p) now p

def symlinkOp (s : St) (now : Nat) (dir : Node) (name target : Bytes) : St × Except Errno Node :=
  match sanitize dir.path name with
  | none => (s, .error .EIO)
  | some p =>
    match Fs.symlink s.fs target (fsPath p) with
    | .error e => (s, .error e)
    | .ok fs1 => lookupPath (invalidateForNew { s with fs := fs1 } dir.path p) now p

def sameExclusive (s : St) (p verf : Bytes) : Bool :=
  match s.excl.find? (·.1 == p) with
  | none => true
  | some x => x.2 == verf

def rememberExclusive (s : St) (p verf : Bytes) : St :=
  let base := if s.excl.length ≥ 1024 then [] else s.excl.filter (·.1 != p)
  { s with excl := (p, verf) :: base }

/-- CREATE when the name is taken, first half: the decision, and the one change CREATE may make to an
    existing object (the explicit size of an UNCHECKED create over a regular file) -/
def createStep1 (s1 : St) (p : Bytes) (info : Fs.Info) (how : Nat) (sa : Sattr3) (verf : Bytes) : St × Nat :=
  if how = 1 ∨ info.kind ≠ .file then (s1, 17)
  else if how = 2 ∧ ¬ sameExclusive s1 p verf then (s1, 17)
  else if ¬ how = 2 ∧ sa.size.isSome then
    let sz := sa.size.getD 0
    if sz > maxInt64 then (acInv s1 p, 22)
    else if exceedsMax s1.cfg sz then (acInv s1 p, 27)
    else match Fs.truncate s1.fs (fsPath p) sz with
      | .error e => (acInv s1 p, mapErrno e)
      | .ok fs1 => (acInv { s1 with fs := fs1 } p, 0)
  else (s1, 0)

/-- second half: look the object up, build the reply -/
def createFinish (s2 : St) (st : Nat) (c : Ctx) (n : Node) (pre : Attrs) (p : Bytes) : St × Outcome :=
  if st ≠ 0 then
    let (s4, post) := getAttrOr s2 c.now n pre
    (s4, res st (.wcc (wccOf pre post)))
  else match lookupPath s2 c.now p with
    | (s3, .error e) =>
      let (s4, post) := getAttrOr s3 c.now n pre
      (s4, res (mapErrno e) (.wcc (wccOf pre post)))
    | (s3, .ok node) =>
      let (s4, post) := getAttrOr s3 c.now n pre
      let (s5, fh) := allocate s4 node
      (s5, res 0 (.createOk (some fh) (some (toFattr node.attrs)) (wccOf pre post)))

def createExisting (s1 : St) (c : Ctx) (n : Node) (pre : Attrs) (p : Bytes) (info : Fs.Info) (how : Nat) (sa : Sattr3)
    (verf : Bytes) : St × Outcome :=
  createFinish (createStep1 s1 p info how sa verf).1 (createStep1 s1 p info how sa verf).2 c n pre p

/-- Chown whose failure is only logged -/
def chownQuiet (s : St) (p : Bytes) (uid gid : Nat) : St :=
  match Fs.chown s.fs (fsPath p) uid gid with
  | .ok f => { s with fs := f }
  | .error _ => s

def lchownQuiet (s : St) (p : Bytes) (uid gid : Nat) : St :=
  match Fs.lchown s.fs (fsPath p) uid gid with
  | .ok f => { s with fs := f }
  | .error _ => s

/-- CREATE of a name that is free: Create(), remember an EXCLUSIVE verifier, Chown, reply -/
def createNew (s1 : St) (c : Ctx) (n : Node) (pre : Attrs) (name : Bytes) (mode how : Nat) (sa : Sattr3) (verf : Bytes) :
    St × Outcome :=
  match createOp s1 c.now n name mode with
  | (s2, .error st) =>
    let (s3, post) := getAttrOr s2 c.now n pre
    (s3, res (mapErrno st) (.wcc (wccOf pre post)))
  | (s2, .ok node) =>
    let s3 := if how = 2 then rememberExclusive s2 node.path verf else s2
    let s4 := chownQuiet s3 node.path (ownerUid c sa) (ownerGid c sa)
    match getAttr s4 c.now n with
    | (s5, .error st) => (s5, res (mapErrno st) (.wcc wcc0))
    | (s5, .ok post) =>
      let (s6, fh) := allocate s5 node
      (s6, res 0 (.createOk (some fh) (some (toFattr node.attrs)) (wccOf pre post)))

/-- the arguments of CREATE after the directory handle and the name: createhow3 and its payload
    (sattr3 for UNCHECKED/GUARDED, the 8-byte verifier for EXCLUSIVE; other discriminants read nothing) -/
def parseCreateHow (how : Nat) (r3 : Bytes) : Option (Sattr3 × Bytes) :=
  if how = 0 ∨ how = 1 then (decSattr3 r3).map fun x => (x.1, [])
  else if how = 2 then (take? 8 r3).map fun x => ({}, x.1)
  else some ({}, [])

def procCreate (s : St) (c : Ctx) (args : Bytes) : St × Outcome :=
  if s.cfg.readOnly then (s, res 30 (.wcc wcc0)) else
  match decFh' s args with
  | none => (s, res 4 (.wcc wcc0))
  | some (h, r1) =>
  match decStr s r1 with
  | none => (s, res 4 (.wcc wcc0))
  | some (name, r2) =>
  if validateFilename name ≠ 0 then (s, res (validateFilename name) (.wcc wcc0)) else
  match decU32 r2 with
  | none => (s, res 4 (.wcc wcc0))
  | some (how, r3) =>
  match parseCreateHow how r3 with
  | none => (s, res 4 (.wcc wcc0))
  | some (sa, verf) =>
  let mode := sa.mode.getD 0o644
  if validateMode mode ≠ 0 then (s, res 22 (.wcc wcc0)) else
  match nodeOf s h with
  | none => (s, res 70 (.wcc wcc0))
  | some n =>
  match getAttr s c.now n with
  | (s1, .error st) => (s1, res (mapErrno st) (.wcc wcc0))
  | (s1, .ok pre) =>
  let p := joinName n.path name
  match Fs.lstat s1.fs (fsPath p) with
  | .ok info => createExisting s1 c n pre p info how sa verf
  | .error _ => createNew s1 c n pre name mode how sa verf

def procMkdir (s : St) (c : Ctx) (args : Bytes) : St × Outcome :=
  if s.cfg.readOnly then (s, res 30 (.wcc wcc0)) else
  match decFh' s args with
  | none => (s, res 4 (.wcc wcc0))
  | some (h, r1) =>
  match decStr s r1 with
  | none => (s, res 4 (.wcc wcc0))
  | some (name, r2) =>
  if validateFilename name ≠ 0 then (s, res (validateFilename name) (.wcc wcc0)) else
  match decSattr3 r2 with
  | none => (s, res 4 (.wcc wcc0))
  | some (sa, _) =>
  let mode := sa.mode.getD 0o755
  if validateMode mode ≠ 0 then (s, res 22 (.wcc wcc0)) else
  match nodeOf s h with
  | none => (s, res 70 (.wcc wcc0))
  | some n =>
  match getAttr s c.now n with
  | (s1, .error st) => (s1, res (mapErrno st) (.wcc wcc0))
  | (s1, .ok pre) =>
  let p := joinName n.path name
  match Fs.mkdir s1.fs (fsPath p) mode with
  | .error e =>
    let (s2, post) := getAttrOr s1 c.now n pre
    (s2, res (mapErrno e) (.wcc (wccOf pre post)))
  | .ok fs1 =>
    let s2 := invalidateForNew { s1 with fs := fs1 } n.path p
    let s3 : St := chownQuiet s2 p (ownerUid c sa) (ownerGid c sa)
    match lookupPath s3 c.now p with
    | (s4, .error st) => (s4, res (mapErrno st) (.wcc wcc0))
    | (s4, .ok node) =>
      match getAttr s4 c.now n with
      | (s5, .error st) => (s5, res (mapErrno st) (.wcc wcc0))
      | (s5, .ok post) =>
        let (s6, fh) := allocate s5 node
        (s6, res 0 (.createOk (some fh) (some (toFattr node.attrs)) (wccOf pre post)))

def procSymlink (s : St) (c : Ctx) (args : Bytes) : St × Outcome :=
  if s.cfg.readOnly then (s, res 30 (.wcc wcc0)) else
  match decFh' s args with
  | none => (s, res 4 (.wcc wcc0))
  | some (h, r1) =>
  match decStr s r1 with
  | none => (s, res 4 (.wcc wcc0))
  | some (name, r2) =>
  if validateFilename name ≠ 0 then (s, res (validateFilename name) (.wcc wcc0)) else
  match decSattr3 r2 with
  | none => (s, res 4 (.wcc wcc0))
  | some (sa, r3) =>
  match decStr s r3 with
  | none => (s, res 4 (.wcc wcc0))
  | some (target, _) =>
  if target = [] then (s, res 22 (.wcc wcc0)) else
  if target.head? = some 47 then (s, res 13 (.wcc wcc0)) else
  if targetHasDotDot target then (s, res 13 (.wcc wcc0)) else
  match nodeOf s h with
  | none => (s, res 70 (.wcc wcc0))
  | some n =>
  match getAttr s c.now n with
  | (s1, .error st) => (s1, res (mapErrno st) (.wcc wcc0))
  | (s1, .ok pre) =>
  match symlinkOp s1 c.now n name target with
  | (s2, .error st) =>
    let (s3, post) := getAttrOr s2 c.now n pre
    (s3, res (mapErrno st) (.wcc (wccOf pre post)))
  | (s2, .ok node) =>
    let s3 : St := lchownQuiet s2 (joinName n.path name) (ownerUid c sa) (ownerGid c sa)
    match getAttr s3 c.now n with
    | (s4, .error st) => (s4, res (mapErrno st) (.wcc wcc0))
    | (s4, .ok post) =>
      let (s5, fh) := allocate s4 node
      (s5, res 0 (.createOk (some fh) (some (toFattr node.attrs)) (wccOf pre post)))

/-- RemoveWithContext: sanitize, backend Remove, then the invalidations -/
def removeOp (s1 : St) (n : Node) (name : Bytes) : Except Errno St :=
  match sanitize n.path name with
  | none => .error .EIO
  | some p =>
    match Fs.remove s1.fs (fsPath p) with
    | .error e => .error e
    | .ok fs1 => .ok (dcInv (acInv (acInv { s1 with fs := fs1 } p) n.path) n.path)

def procRemove (s : St) (c : Ctx) (args : Bytes) : St × Outcome :=
  if s.cfg.readOnly then (s, res 30 (.wcc wcc0)) else
  match decFh' s args with
  | none => (s, res 4 (.wcc wcc0))
  | some (h, r1) =>
  match decStr s r1 with
  | none => (s, res 4 (.wcc wcc0))
  | some (name, _) =>
  if validateFilename name ≠ 0 then (s, res (validateFilename name) (.wcc wcc0)) else
  match nodeOf s h with
  | none => (s, res 70 (.wcc wcc0))
  | some n =>
  if n.attrs.kind ≠ .dir then (s, res 20 (.wcc wcc0)) else
  match getAttr s c.now n with
  | (s1, .error st) => (s1, res (mapErrno st) (.wcc wcc0))
  | (s1, .ok pre) =>
  match removeOp s1 n name with
  | .error e =>
    let (s2, post) := getAttrOr s1 c.now n pre
    (s2, res (mapErrno e) (.wcc (wccOf pre post)))
  | .ok s2 =>
    match getAttr s2 c.now n with
    | (s3, .error st) => (s3, res (mapErrno st) (.wcc wcc0))
    | (s3, .ok post) => (s3, res 0 (.wcc (wccOf pre post)))

def procRmdir (s : St) (c : Ctx) (args : Bytes) : St × Outcome :=
  if s.cfg.readOnly then (s, res 30 (.wcc wcc0)) else
  match decFh' s args with
  | none => (s, res 4 (.wcc wcc0))
  | some (h, r1) =>
  match decStr s r1 with
  | none => (s, res 4 (.wcc wcc0))
  | some (name, _) =>
  if validateFilename name ≠ 0 then (s, res 13 (.wcc wcc0)) else
  match nodeOf s h with
  | none => (s, res 70 (.wcc wcc0))
  | some n =>
  if n.attrs.kind ≠ .dir then (s, res 20 (.wcc wcc0)) else
  match getAttr s c.now n with
  | (s1, .error st) => (s1, res (mapErrno st) (.wcc wcc0))
  | (s1, .ok pre) =>
  let p := joinName n.path name
  match Fs.lstat s1.fs (fsPath p) with
  | .error _ => (s1, res 2 (.wcc (wccOf pre pre)))
  | .ok i =>
    if i.kind ≠ .dir then (s1, res 20 (.wcc (wccOf pre pre))) else
    match Fs.remove s1.fs (fsPath p) with
    | .error e =>
      let (s2, post) := getAttrOr s1 c.now n pre
      let code := if e = .ENOENT then 2 else (if mapErrno e = 17 ∨ mapErrno e = 5 then 66 else mapErrno e)
      (s2, res code (.wcc (wccOf pre post)))
    | .ok fs1 =>
      let s2 := dcInv (dcInv (acInv (acInv { s1 with fs := fs1 } p) n.path) n.path) p
      match getAttr s2 c.now n with
      | (s3, .error st) => (s3, res (mapErrno st) (.wcc wcc0))
      | (s3, .ok post) => (s3, res 0 (.wcc (wccOf pre post)))

/-- RenameWithContext: sanitize both, backend Rename, then the invalidations (prefix invalidation for both paths) -/
def renameOp (s2 : St) (d1 : Node) (n1 : Bytes) (d2 : Node) (n2 : Bytes) : Except Errno St :=
  match sanitize d1.path n1, sanitize d2.path n2 with
  | some p1, some p2 =>
    (match Fs.rename s2.fs (fsPath p1) (fsPath p2) with
     | .error e => .error e
     | .ok fs1 =>
       let a := acInvNegIn (acInvNegIn (acInv (acInv (acInvPrefix (acInvPrefix { s2 with fs := fs1 } p1) p2) d1.path) d2.path) d1.path) d2.path
       .ok (dcInvPrefix (dcInvPrefix (dcInv (dcInv a d1.path) d2.path) p1) p2))
  | _, _ => .error .EIO

def procRename (s : St) (c : Ctx) (args : Bytes) : St × Outcome :=
  if s.cfg.readOnly then (s, res 30 (.wcc2 wcc0 wcc0)) else
  match decFh' s args with
  | none => (s, res 4 (.wcc2 wcc0 wcc0))
  | some (h1, r1) =>
  match decStr s r1 with
  | none => (s, res 4 (.wcc2 wcc0 wcc0))
  | some (n1, r2) =>
  if validateFilename n1 ≠ 0 then (s, res (validateFilename n1) (.wcc2 wcc0 wcc0)) else
  match decFh' s r2 with
  | none => (s, res 4 (.wcc2 wcc0 wcc0))
  | some (h2, r3) =>
  match decStr s r3 with
  | none => (s, res 4 (.wcc2 wcc0 wcc0))
  | some (n2, _) =>
  if validateFilename n2 ≠ 0 then (s, res (validateFilename n2) (.wcc2 wcc0 wcc0)) else
  match nodeOf s h1 with
  | none => (s, res 70 (.wcc2 wcc0 wcc0))
  | some d1 =>
  match nodeOf s h2 with
  | none => (s, res 70 (.wcc2 wcc0 wcc0))
  | some d2 =>
  match getAttr s c.now d1 with
  | (s1, .error st) => (s1, res (mapErrno st) (.wcc2 wcc0 wcc0))
  | (s1, .ok pre1) =>
  match getAttr s1 c.now d2 with
  | (s2, .error st) => (s2, res (mapErrno st) (.wcc2 wcc0 wcc0))
  | (s2, .ok pre2) =>
  match renameOp s2 d1 n1 d2 n2 with
  | .error e =>
    let (s3, post1) := getAttrOr s2 c.now d1 pre1
    let (s4, post2) := getAttrOr s3 c.now d2 pre2
    (s4, res (mapErrno e) (.wcc2 (wccOf pre1 post1) (wccOf pre2 post2)))
  | .ok s3 =>
    match getAttr s3 c.now d1 with
    | (s4, .error st) => (s4, res (mapErrno st) (.wcc2 wcc0 wcc0))
    | (s4, .ok post1) =>
      match getAttr s4 c.now d2 with
      | (s5, .error st) => (s5, res (mapErrno st) (.wcc2 wcc0 wcc0))
      | (s5, .ok post2) => (s5, res 0 (.wcc2 (wccOf pre1 post1) (wccOf pre2 post2)))

/-- encoded size of one entry3 / the extra of an entryplus3 (nfs_proc_dir.go) -/
def entrySize (name : Bytes) : Nat := 4 + 8 + 4 + (name.length + 3) / 4 * 4 + 8
def dirListHeader : Nat := 4 + 84 + 8
def dirListTrailer : Nat := 8
def plusExtra : Nat := 4 + 84 + 4 + 4 + 8
def minReaddirReply : Nat := dirListHeader + 4 + 8 + 4 + 256 + 8 + dirListTrailer
def minReaddirplusReply : Nat := minReaddirReply + plusExtra

inductive Fill (α : Type) where
  | tooSmall
  | done (ents : List α) (limit : Bool)

/-- the READDIR entry loop: `used` is the size of READDIR3resok so far -/
def fillDir (limit cookie : Nat) : Nat → Nat → Nat → List Node → Fill Rfc.DirEnt
  | _, _, _, [] => .done [] false
  | i, used, cnt, e :: es =>
    if i < cookie then fillDir limit cookie (i + 1) used cnt es
    else
      let name := baseName e.path
      if used + entrySize name + dirListTrailer > limit then
        (if cnt = 0 then .tooSmall else .done [] true)
      else match fillDir limit cookie (i + 1) (used + entrySize name) (cnt + 1) es with
        | .tooSmall => .tooSmall
        | .done l lim => .done ({ fileid := e.attrs.fileId, name := name, cookie := i + 1 } :: l) lim

def procReaddir (s : St) (c : Ctx) (args : Bytes) : St × Outcome :=
  match decFh' s args with
  | none => (s, res 4 (.postOp none))
  | some (h, r1) =>
  match decU64 r1 with
  | none => (s, res 4 (.postOp none))
  | some (cookie, r2) =>
  match take? 8 r2 with
  | none => (s, res 4 (.postOp none))
  | some (verf, r3) =>
  match decU32 r3 with
  | none => (s, res 4 (.postOp none))
  | some (count, _) =>
  match nodeOf s h with
  | none => (s, res 70 (.postOp none))
  | some n =>
  if n.attrs.kind ≠ .dir then (s, res 20 (.postOp none)) else
  match readDir s c.now n with
  | (s1, .error st) => (s1, res (mapErrno st) (.postOp none))
  | (s1, .ok nodes) =>
  match getAttr s1 c.now n with
  | (s2, .error st) => (s2, res (mapErrno st) (.postOp none))
  | (s2, .ok a) =>
    let limit := if count < dirListHeader + dirListTrailer then minReaddirReply else count
    match fillDir limit cookie 0 dirListHeader 0 nodes with
    | .tooSmall => (s2, res 10005 (.postOp none))
    | .done ents lim => (s2, res 0 (.readdirOk (some (toFattr a)) verf ents (!lim)))

/-- the READDIRPLUS entry loop; a handle is allocated for every entry that is written -/
def fillDirPlus (limit cookie : Nat) : St → Nat → Nat → Nat → List Node → St × Fill Rfc.DirEntPlus
  | s, _, _, _, [] => (s, .done [] false)
  | s, i, used, cnt, e :: es =>
    if i < cookie then fillDirPlus limit cookie s (i + 1) used cnt es
    else
      let name := baseName e.path
      if used + entrySize name + plusExtra + dirListTrailer > limit then
        (s, if cnt = 0 then .tooSmall else .done [] true)
      else
        let (s1, fh) := allocate s e
        match fillDirPlus limit cookie s1 (i + 1) (used + entrySize name + plusExtra) (cnt + 1) es with
        | (s2, .tooSmall) => (s2, .tooSmall)
        | (s2, .done l lim) =>
          (s2, .done ({ fileid := e.attrs.fileId, name := name, cookie := i + 1,
                        attr := some (toFattr e.attrs), fh := some fh } :: l) lim)

def procReaddirplus (s : St) (c : Ctx) (args : Bytes) : St × Outcome :=
  match decFh' s args with
  | none => (s, res 4 (.postOp none))
  | some (h, r1) =>
  match decU64 r1 with
  | none => (s, res 4 (.postOp none))
  | some (cookie, r2) =>
  match take? 8 r2 with
  | none => (s, res 4 (.postOp none))
  | some (verf, r3) =>
  match decU32 r3 with
  | none => (s, res 4 (.postOp none))
  | some (_dircount, r4) =>
  match decU32 r4 with
  | none => (s, res 4 (.postOp none))
  | some (maxcount, _) =>
  match nodeOf s h with
  | none => (s, res 70 (.postOp none))
  | some n =>
  if n.attrs.kind ≠ .dir then (s, res 20 (.postOp none)) else
  match readDir s c.now n with
  | (s1, .error st) => (s1, res (mapErrno st) (.postOp none))
  | (s1, .ok nodes0) =>
  let (s2, nodes) := refreshEach s1 c.now nodes0
  match getAttr s2 c.now n with
  | (s3, .error st) => (s3, res (mapErrno st) (.postOp none))
  | (s3, .ok a) =>
    let limit := if maxcount < dirListHeader + dirListTrailer then minReaddirplusReply else maxcount
    match fillDirPlus limit cookie s3 0 dirListHeader 0 nodes with
    | (s4, .tooSmall) => (s4, res 10005 (.postOp none))
    | (s4, .done ents lim) => (s4, res 0 (.readdirplusOk (some (toFattr a)) verf ents (!lim)))

/-- FSSTAT / FSINFO / PATHCONF share their prologue -/
def withObjAttr (s : St) (c : Ctx) (args : Bytes) (k : Rfc.Fattr → Rfc.Body) : St × Outcome :=
  match decFh' s args with
  | none => (s, res 4 (.postOp none))
  | some (h, _) =>
  match nodeOf s h with
  | none => (s, res 70 (.postOp none))
  | some n =>
  match getAttr s c.now n with
  | (s1, .error st) => (s1, res (mapErrno st) (.postOp none))
  | (s1, .ok a) => (s1, res 0 (k (toFattr a)))

def fsinfoBody (cfg : Cfg) (a : Rfc.Fattr) : Rfc.Body :=
  let m0 := if cfg.transfer > 0 ∧ cfg.transfer < 1048576 then cfg.transfer else 1048576
  let xferMax := if m0 > cfg.maxRecord - 4096 then cfg.maxRecord - 4096 else m0
  let pref := if 65536 > xferMax then xferMax else 65536
  let mult := if 4096 > xferMax then 1 else 4096
  .fsinfoOk (some a) xferMax pref mult xferMax pref mult 8192 1099511627776 0 1000000 0x1a

def procCommit (s : St) (c : Ctx) (args : Bytes) : St × Outcome :=
  if s.cfg.readOnly then (s, res 30 (.wcc wcc0)) else
  match decFh' s args with
  | none => (s, res 4 (.wcc wcc0))
  | some (h, r1) =>
  match decU64 r1 with
  | none => (s, res 4 (.wcc wcc0))
  | some (_, r2) =>
  match decU32 r2 with
  | none => (s, res 4 (.wcc wcc0))
  | some (_, _) =>
  match nodeOf s h with
  | none => (s, res 70 (.wcc wcc0))
  | some n =>
  match getAttr s c.now n with
  | (s1, .error st) => (s1, res (mapErrno st) (.wcc wcc0))
  | (s1, .ok a) =>
    -- regular file: OpenFile(O_WRONLY) + Sync + Close; the file was just lstat'ed, the open cannot fail
    (s1, res 0 (.commitOk (wccOf a a) s.cfg.writeVerf))

/-- path.Clean of an absolute path, as a byte string -/
def cleanAbs (p : Bytes) : Bytes :=
  let comps := Fs.applyTarget [] p
  if comps = [] then [47] else comps.foldl (fun acc c => acc ++ 47 :: c) []

def firstBadComponent : List Bytes → Nat
  | [] => 0
  | c :: cs => if validateFilename c ≠ 0 then validateFilename c else firstBadComponent cs

def procMnt (s : St) (c : Ctx) (args : Bytes) : St × Outcome :=
  match decStr s args with
  | none => (s, .garbageArgs)
  | some (raw, _) =>
    if raw.head? ≠ some 47 then (s, res 2 .statusOnly) else
    let p := cleanAbs raw
    let bad := if p = [47] then 0 else firstBadComponent (Fs.applyTarget [] p)
    if bad ≠ 0 then (s, res bad .statusOnly) else
    match lookupPath s c.now p with
    | (s1, .error _) => (s1, res 2 .statusOnly)
    | (s1, .ok node) =>
      let (s2, fh) := allocate s1 node
      (s2, res 0 (.mntOk (encU64 fh) [1]))

def handleNfs (s : St) (c : Ctx) (proc : Nat) (args : Bytes) : St × Outcome :=
  match proc with
  | 0 => (s, res 0 .void)
  | 1 => procGetattr s c args
  | 2 => procSetattr s c args
  | 3 => procLookup s c args
  | 4 => procAccess s c args
  | 5 => procReadlink s c args
  | 6 => procRead s c args
  | 7 => procWrite s c args
  | 8 => procCreate s c args
  | 9 => procMkdir s c args
  | 10 => procSymlink s c args
  | 11 => (s, res 10004 (.wcc wcc0))
  | 12 => procRemove s c args
  | 13 => procRmdir s c args
  | 14 => procRename s c args
  | 15 => (s, res 10004 (.linkRes none wcc0))
  | 16 => procReaddir s c args
  | 17 => procReaddirplus s c args
  | 18 => withObjAttr s c args fun a => .fsstatOk (some a) 10737418240 5368709120 5368709120 1000000 900000 900000 1
  | 19 => withObjAttr s c args (fsinfoBody s.cfg)
  | 20 => withObjAttr s c args fun a => .pathconfOk (some a) 1024 255 1 1 0 1
  | 21 => procCommit s c args
  | _ => (s, .procUnavail)

def handleMount (s : St) (c : Ctx) (proc : Nat) (args : Bytes) : St × Outcome :=
  match proc with
  | 0 => (s, res 0 .void)
  | 1 => procMnt s c args
  | 2 => (s, res 0 (.mountList []))
  | 3 => (match decStr s args with | none => (s, .garbageArgs) | some _ => (s, res 0 .void))
  | 4 => (s, res 0 .void)
  | 5 => (s, res 0 (.exportList [([47], [])]))
  | _ => (s, .procUnavail)

def handle (s : St) (c : Ctx) (prog vers proc : Nat) (args : Bytes) : St × Outcome :=
  if prog = 100005 then
    (if vers ≠ 1 ∧ vers ≠ 3 then (s, .progMismatch) else handleMount s c proc args)
  else if prog = 100003 then
    (if vers ≠ 3 then (s, .progMismatch) else handleNfs s c proc args)
  else (s, .progUnavail)

end Server
end Absnfs
