/-
  Rpc: ONC RPC call header / reply / AUTH_SYS body.
  Models rpc_types.go: DecodeRPCCall, EncodeRPCReply, ParseAuthSysCredential (+ byteReader).
-/
import Absnfs.Xdr
namespace Absnfs

structure OpaqueAuth where
  flavor : Nat
  body : Bytes
  deriving Repr, DecidableEq

structure RpcCall where
  xid : Nat
  rpcVers : Nat
  prog : Nat
  vers : Nat
  proc : Nat
  cred : OpaqueAuth
  verf : OpaqueAuth
  deriving Repr, DecidableEq

def encAuth (a : OpaqueAuth) : Bytes := encU32 a.flavor ++ encOpaque a.body

def decAuth (maxAuth : Nat) (bs : Bytes) : Option (OpaqueAuth × Bytes) :=
  match decU32 bs with
  | none => none
  | some (fl, r) =>
    match decOpaque maxAuth r with
    | none => none
    | some (body, r') => some ({ flavor := fl, body := body }, r')

/-- The bytes a conformant client sends for a call header (msg_type = CALL = 0). -/
def encCall (c : RpcCall) : Bytes :=
  encU32 c.xid ++ encU32 0 ++ encU32 c.rpcVers ++ encU32 c.prog ++ encU32 c.vers ++ encU32 c.proc ++
  encAuth c.cred ++ encAuth c.verf

/-- DecodeRPCCall. Note: the RPC version word is read but not checked (as in the code). -/
def decCall (maxAuth : Nat) (bs : Bytes) : Option (RpcCall × Bytes) :=
  match decU32 bs with
  | none => none
  | some (xid, r1) =>
  match decU32 r1 with
  | none => none
  | some (mt, r2) =>
  if mt ≠ 0 then none else
  match decU32 r2 with
  | none => none
  | some (rv, r3) =>
  match decU32 r3 with
  | none => none
  | some (prog, r4) =>
  match decU32 r4 with
  | none => none
  | some (vers, r5) =>
  match decU32 r5 with
  | none => none
  | some (proc, r6) =>
  match decAuth maxAuth r6 with
  | none => none
  | some (cred, r7) =>
  match decAuth maxAuth r7 with
  | none => none
  | some (verf, r8) =>
    some ({ xid := xid, rpcVers := rv, prog := prog, vers := vers, proc := proc,
            cred := cred, verf := verf }, r8)

def OpaqueAuth.WF (maxAuth : Nat) (a : OpaqueAuth) : Prop :=
  a.flavor < 4294967296 ∧ a.body.length ≤ maxAuth

def RpcCall.WF (maxAuth : Nat) (c : RpcCall) : Prop :=
  c.xid < 4294967296 ∧ c.rpcVers < 4294967296 ∧ c.prog < 4294967296 ∧ c.vers < 4294967296 ∧
  c.proc < 4294967296 ∧ c.cred.WF maxAuth ∧ c.verf.WF maxAuth

theorem decAuth_encAuth (maxAuth : Nat) (a : OpaqueAuth) (rest : Bytes) (h : a.WF maxAuth)
    (hm : maxAuth < 4294967296) :
    decAuth maxAuth (encAuth a ++ rest) = some (a, rest) := by
  unfold decAuth encAuth
  rw [List.append_assoc, decU32_encU32 _ h.1]
  simp only
  rw [decOpaque_encOpaque _ _ _ h.2 (by have := h.2; omega)]

theorem decCall_encCall (maxAuth : Nat) (c : RpcCall) (rest : Bytes) (h : c.WF maxAuth)
    (hm : maxAuth < 4294967296) :
    decCall maxAuth (encCall c ++ rest) = some (c, rest) := by
  obtain ⟨h1, h2, h3, h4, h5, h6, h7⟩ := h
  unfold decCall encCall
  simp only [List.append_assoc]
  rw [decU32_encU32 _ h1]; simp only
  rw [decU32_encU32 _ (by omega)]; simp only [ne_eq, not_true_eq_false, if_false]
  rw [decU32_encU32 _ h2]; simp only
  rw [decU32_encU32 _ h3]; simp only
  rw [decU32_encU32 _ h4]; simp only
  rw [decU32_encU32 _ h5]; simp only
  rw [decAuth_encAuth _ _ _ h6 hm]; simp only
  rw [decAuth_encAuth _ _ _ h7 hm]

/-- Allocation sizes performed while decoding a call header. -/
def decCallAllocs (maxAuth : Nat) (bs : Bytes) : List Nat :=
  -- skip 6 header words + cred flavor
  match decU32 (bs.drop 24) with
  | none => []
  | some (_, r) => decOpaqueAllocs maxAuth r ++
    (match decOpaque maxAuth r with
     | none => []
     | some (_, r') =>
       match decU32 r' with
       | none => []
       | some (_, r'') => decOpaqueAllocs maxAuth r'')

theorem decCallAllocs_bounded (maxAuth : Nat) (bs : Bytes) :
    ∀ a ∈ decCallAllocs maxAuth bs, a ≤ maxAuth ∨ a < 4 := by
  intro a ha
  unfold decCallAllocs at ha
  split at ha
  · simp at ha
  · rw [List.mem_append] at ha
    rcases ha with ha | ha
    · exact decOpaqueAllocs_bounded _ _ a ha
    · split at ha
      · simp at ha
      · split at ha
        · simp at ha
        · exact decOpaqueAllocs_bounded _ _ a ha

/-! Reply encoding (EncodeRPCReply). -/

structure RpcReply where
  xid : Nat
  status : Nat          -- reply_stat: 0 = MSG_ACCEPTED, anything else takes the denied branch
  acceptStatus : Nat    -- accept_stat
  verf : OpaqueAuth
  data : Bytes          -- pre-encoded procedure results (only written when acceptStatus = SUCCESS)
  deriving Repr, DecidableEq

def encReply (r : RpcReply) : Bytes :=
  encU32 r.xid ++ encU32 1 ++ encU32 r.status ++
  (if r.status = 0 then
     encU32 r.verf.flavor ++ encOpaque r.verf.body ++ encU32 r.acceptStatus ++
     (if r.acceptStatus = 2 then encU32 3 ++ encU32 3
      else if r.acceptStatus = 0 then r.data else [])
   else encU32 1 ++ encU32 1)

/-- RFC 1831 `rpc_msg` reply body, typed. -/
inductive Rfc1831Reply where
  | success (xid : Nat) (verf : OpaqueAuth) (results : Bytes)
  | progUnavail (xid : Nat) (verf : OpaqueAuth)
  | progMismatch (xid : Nat) (verf : OpaqueAuth) (low high : Nat)
  | procUnavail (xid : Nat) (verf : OpaqueAuth)
  | garbageArgs (xid : Nat) (verf : OpaqueAuth)
  | systemErr (xid : Nat) (verf : OpaqueAuth)
  | rpcMismatch (xid : Nat) (low high : Nat)
  | authError (xid : Nat) (stat : Nat)
  deriving Repr, DecidableEq

/-- Exact RFC 1831 reply decoder: returns the typed reply; for `success` the remaining bytes are the
    procedure results, for every other arm there must be no trailing bytes. -/
def decReply (maxAuth : Nat) (bs : Bytes) : Option Rfc1831Reply :=
  match decU32 bs with
  | none => none
  | some (xid, r1) =>
  match decU32 r1 with
  | none => none
  | some (mt, r2) =>
  if mt ≠ 1 then none else
  match decU32 r2 with
  | none => none
  | some (rs, r3) =>
  if rs = 0 then
    match decAuth maxAuth r3 with
    | none => none
    | some (verf, r4) =>
    match decU32 r4 with
    | none => none
    | some (as, r5) =>
      if as = 0 then some (.success xid verf r5)
      else if as = 2 then
        match decU32 r5 with
        | none => none
        | some (lo, r6) =>
        match decU32 r6 with
        | none => none
        | some (hi, r7) => if r7 = [] then some (.progMismatch xid verf lo hi) else none
      else if r5 ≠ [] then none
      else if as = 1 then some (.progUnavail xid verf)
      else if as = 3 then some (.procUnavail xid verf)
      else if as = 4 then some (.garbageArgs xid verf)
      else if as = 5 then some (.systemErr xid verf)
      else none
  else if rs = 1 then
    match decU32 r3 with
    | none => none
    | some (rj, r4) =>
      if rj = 0 then
        match decU32 r4 with
        | none => none
        | some (lo, r5) =>
        match decU32 r5 with
        | none => none
        | some (hi, r6) => if r6 = [] then some (.rpcMismatch xid lo hi) else none
      else if rj = 1 then
        match decU32 r4 with
        | none => none
        | some (st, r5) => if r5 = [] ∧ st ≤ 13 then some (.authError xid st) else none
      else none
  else none

/-- What the server's reply means under RFC 1831, as a function of the reply value. -/
def RpcReply.view (r : RpcReply) : Option Rfc1831Reply :=
  if r.status = 0 then
    if r.acceptStatus = 0 then some (.success r.xid r.verf r.data)
    else if r.acceptStatus = 1 then some (.progUnavail r.xid r.verf)
    else if r.acceptStatus = 2 then some (.progMismatch r.xid r.verf 3 3)
    else if r.acceptStatus = 3 then some (.procUnavail r.xid r.verf)
    else if r.acceptStatus = 4 then some (.garbageArgs r.xid r.verf)
    else if r.acceptStatus = 5 then some (.systemErr r.xid r.verf)
    else none
  else if r.status = 1 then some (.authError r.xid 1)
  else none

def RpcReply.WF (maxAuth : Nat) (r : RpcReply) : Prop :=
  r.xid < 4294967296 ∧ r.status ≤ 1 ∧ r.acceptStatus ≤ 5 ∧ r.verf.WF maxAuth

/-- Every reply value with reply_stat ∈ {0,1} and accept_stat ≤ 5 encodes to bytes that decode, exactly
    and with the same XID, as the RFC 1831 reply `view` describes. -/
theorem decReply_encReply (maxAuth : Nat) (r : RpcReply) (h : r.WF maxAuth) (hm : maxAuth < 4294967296) :
    decReply maxAuth (encReply r) = r.view := by
  obtain ⟨hx, hs, ha, hv⟩ := h
  unfold decReply encReply RpcReply.view
  simp only [List.append_assoc]
  rw [decU32_encU32 _ hx]; simp only
  rw [decU32_encU32 _ (by omega)]; simp only [ne_eq, not_true_eq_false, if_false]
  rw [decU32_encU32 _ (by omega)]; simp only
  by_cases hs0 : r.status = 0
  · simp only [hs0, if_true]
    have : encU32 r.verf.flavor ++ (encOpaque r.verf.body ++ (encU32 r.acceptStatus ++
        (if r.acceptStatus = 2 then encU32 3 ++ encU32 3 else if r.acceptStatus = 0 then r.data else [])))
        = encAuth r.verf ++ (encU32 r.acceptStatus ++
        (if r.acceptStatus = 2 then encU32 3 ++ encU32 3 else if r.acceptStatus = 0 then r.data else [])) := by
      simp [encAuth]
    rw [this, decAuth_encAuth _ _ _ hv hm]; simp only
    rw [decU32_encU32 _ (by omega)]; simp only
    by_cases a0 : r.acceptStatus = 0
    · simp [a0]
    · by_cases a2 : r.acceptStatus = 2
      · simp only [a2, if_true]
        rw [decU32_encU32 _ (by omega)]
        simp only
        rw [decU32_encU32' _ (by omega)]
        simp
      · simp only [a0, a2, if_false]
        simp
  · have hs1 : r.status = 1 := by omega
    simp only [hs1]
    simp only [show (1 : Nat) ≠ 0 by decide, if_false, if_true]
    rw [decU32_encU32 _ (by omega)]; simp only
    rw [decU32_encU32' _ (by omega)]
    simp

/-! AUTH_SYS credential body (ParseAuthSysCredential over byteReader). -/

structure AuthSys where
  stamp : Nat
  machine : Bytes
  uid : Nat
  gid : Nat
  gids : List Nat
  deriving Repr, DecidableEq

def encU32s (l : List Nat) : Bytes := l.flatMap encU32

def decU32s : Nat → Bytes → Option (List Nat × Bytes)
  | 0, bs => some ([], bs)
  | n + 1, bs =>
    match decU32 bs with
    | none => none
    | some (v, r) =>
      match decU32s n r with
      | none => none
      | some (vs, r') => some (v :: vs, r')

def encAuthSys (a : AuthSys) : Bytes :=
  encU32 a.stamp ++ encOpaque a.machine ++ encU32 a.uid ++ encU32 a.gid ++
  encU32 a.gids.length ++ encU32s a.gids

/-- byteReader.readString: bounded length, padded length must be available; no NUL check. -/
def readStringBR (maxStr : Nat) (bs : Bytes) : Option (Bytes × Bytes) :=
  match decU32 bs with
  | none => none
  | some (len, r) =>
    if len > maxStr then none
    else
      let padded := (len + 3) / 4 * 4
      if padded > r.length then none
      else some (r.take len, r.drop padded)

def parseAuthSys (maxStr maxGids : Nat) (body : Bytes) : Option AuthSys :=
  if body = [] then none else
  match decU32 body with
  | none => none
  | some (stamp, r1) =>
  match readStringBR maxStr r1 with
  | none => none
  | some (name, r2) =>
  match decU32 r2 with
  | none => none
  | some (uid, r3) =>
  match decU32 r3 with
  | none => none
  | some (gid, r4) =>
  match decU32 r4 with
  | none => none
  | some (cnt, r5) =>
  if cnt > maxGids then none else
  match decU32s cnt r5 with
  | none => none
  | some (gids, _) =>
    some { stamp := stamp, machine := name, uid := uid, gid := gid, gids := gids }

def AuthSys.WF (maxStr maxGids : Nat) (a : AuthSys) : Prop :=
  a.stamp < 4294967296 ∧ a.machine.length ≤ maxStr ∧ a.uid < 4294967296 ∧ a.gid < 4294967296 ∧
  a.gids.length ≤ maxGids ∧ ∀ g ∈ a.gids, g < 4294967296

theorem decU32s_encU32s (l : List Nat) (rest : Bytes) (h : ∀ g ∈ l, g < 4294967296) :
    decU32s l.length (encU32s l ++ rest) = some (l, rest) := by
  induction l with
  | nil => simp [decU32s, encU32s]
  | cons g gs ih =>
    have hg := h g (by simp)
    have hgs : ∀ x ∈ gs, x < 4294967296 := fun x hx => h x (by simp [hx])
    have ih' := ih hgs
    simp only [encU32s] at ih'
    simp only [decU32s, encU32s, List.flatMap_cons, List.length_cons, List.append_assoc]
    rw [decU32_encU32 _ hg]
    simp only
    rw [ih']

theorem pad4_round (n : Nat) : (n + 3) / 4 * 4 = n + pad4 n := by unfold pad4; omega

theorem readStringBR_encOpaque (maxStr : Nat) (s rest : Bytes) (hl : s.length ≤ maxStr)
    (h32 : s.length < 4294967296) :
    readStringBR maxStr (encOpaque s ++ rest) = some (s, rest) := by
  unfold readStringBR encOpaque
  rw [List.append_assoc, List.append_assoc, decU32_encU32 _ h32]
  simp only
  rw [if_neg (by omega), pad4_round]
  rw [if_neg (by simp)]
  congr 2
  · simp
  · rw [← List.append_assoc]
    have : s.length + pad4 s.length = (s ++ zeros (pad4 s.length)).length := by simp
    rw [this, List.drop_left]

theorem parseAuthSys_encAuthSys (maxStr maxGids : Nat) (a : AuthSys) (h : a.WF maxStr maxGids)
    (hm : maxStr < 4294967296) (hg : maxGids < 4294967296) :
    parseAuthSys maxStr maxGids (encAuthSys a) = some a := by
  obtain ⟨h1, h2, h3, h4, h5, h6⟩ := h
  unfold parseAuthSys encAuthSys
  have hne : ¬ (encU32 a.stamp ++ encOpaque a.machine ++ encU32 a.uid ++ encU32 a.gid ++
      encU32 a.gids.length ++ encU32s a.gids = []) := by
    intro hc
    have := congrArg List.length hc
    simp at this
  rw [if_neg hne]
  simp only [List.append_assoc]
  rw [decU32_encU32 _ h1]; simp only
  rw [readStringBR_encOpaque _ _ _ h2 (by omega)]; simp only
  rw [decU32_encU32 _ h3]; simp only
  rw [decU32_encU32 _ h4]; simp only
  rw [decU32_encU32 _ (by omega)]; simp only
  rw [if_neg (by omega)]
  have := decU32s_encU32s a.gids [] h6
  simp only [List.append_nil] at this
  rw [this]

/-- More than `maxGids` auxiliary gids: rejected, whatever follows. -/
theorem parseAuthSys_too_many_gids (maxStr maxGids : Nat) (stamp uid gid cnt : Nat) (machine tail : Bytes)
    (h1 : stamp < 4294967296) (h2 : machine.length ≤ maxStr) (h3 : uid < 4294967296) (h4 : gid < 4294967296)
    (hc : maxGids < cnt) (hc32 : cnt < 4294967296) (hm : maxStr < 4294967296) :
    parseAuthSys maxStr maxGids
      (encU32 stamp ++ encOpaque machine ++ encU32 uid ++ encU32 gid ++ encU32 cnt ++ tail) = none := by
  unfold parseAuthSys
  split
  · rfl
  · simp only [List.append_assoc]
    rw [decU32_encU32 _ h1]; simp only
    rw [readStringBR_encOpaque _ _ _ h2 (by omega)]; simp only
    rw [decU32_encU32 _ h3]; simp only
    rw [decU32_encU32 _ h4]; simp only
    rw [decU32_encU32 _ hc32]; simp only
    rw [if_pos hc]

end Absnfs
