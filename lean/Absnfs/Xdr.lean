/-
  Xdr: XDR opaque/string, NFS3 file handle and sattr3 codecs.
  Models rpc_types.go: xdrEncodeString, xdrDecodeString, xdrEncodeFileHandle,
  xdrDecodeFileHandle; nfs_proc_handlers.go: decodeSattr3.
  Limits are parameters; Props instantiate them with the constants in Gen.
-/
import Absnfs.Bytes
namespace Absnfs

/-- io.ReadFull of exactly `n` bytes. -/
def take? (n : Nat) (bs : Bytes) : Option (Bytes × Bytes) :=
  if n ≤ bs.length then some (bs.take n, bs.drop n) else none

theorem take?_append (s rest : Bytes) : take? s.length (s ++ rest) = some (s, rest) := by
  simp [take?]

theorem take?_some {n : Nat} {bs a r : Bytes} (h : take? n bs = some (a, r)) :
    bs = a ++ r ∧ a.length = n := by
  unfold take? at h
  split at h
  · simp at h
    obtain ⟨h1, h2⟩ := h
    subst h1; subst h2
    simp [List.take_append_drop]; omega
  · simp at h

/-- xdrEncodeString / XDR opaque<>: length word, data, zero padding to a 4-byte boundary. -/
def encOpaque (s : Bytes) : Bytes := encU32 s.length ++ s ++ zeros (pad4 s.length)

/-- Variable-length opaque decoder with a length limit checked *before* any read of that size. -/
def decOpaque (maxLen : Nat) (bs : Bytes) : Option (Bytes × Bytes) :=
  match decU32 bs with
  | none => none
  | some (len, r) =>
    if len > maxLen then none else
    match take? len r with
    | none => none
    | some (data, r2) =>
      match take? (pad4 len) r2 with
      | none => none
      | some (_, r3) => some (data, r3)

/-- Sizes of the buffers the decoder allocates (`make([]byte, n)`), in order. -/
def decOpaqueAllocs (maxLen : Nat) (bs : Bytes) : List Nat :=
  match decU32 bs with
  | none => []
  | some (len, _) => if len > maxLen then [] else [len, pad4 len]

/-- xdrDecodeString: an opaque that must not contain NUL. -/
def decString (maxLen : Nat) (bs : Bytes) : Option (Bytes × Bytes) :=
  match decOpaque maxLen bs with
  | none => none
  | some (s, r) => if (0 : UInt8) ∈ s then none else some (s, r)

theorem encOpaque_length (s : Bytes) : (encOpaque s).length = 4 + s.length + pad4 s.length := by
  simp [encOpaque]; omega

theorem decOpaque_encOpaque (maxLen : Nat) (s rest : Bytes)
    (hl : s.length ≤ maxLen) (h32 : s.length < 4294967296) :
    decOpaque maxLen (encOpaque s ++ rest) = some (s, rest) := by
  unfold decOpaque encOpaque
  rw [List.append_assoc, List.append_assoc, decU32_encU32 _ h32]
  simp only
  rw [if_neg (by omega), take?_append]
  simp only
  have : take? (pad4 s.length) (zeros (pad4 s.length) ++ rest) = some (zeros (pad4 s.length), rest) := by
    have := take?_append (zeros (pad4 s.length)) rest
    simpa using this
  rw [this]

/-- Soundness / exact consumption: whatever decodes is `len ‖ data ‖ pad ‖ rest`. -/
theorem decOpaque_sound {maxLen : Nat} {bs s r : Bytes} (h : decOpaque maxLen bs = some (s, r)) :
    ∃ p : Bytes, p.length = pad4 s.length ∧ bs = encU32 s.length ++ s ++ p ++ r ∧ s.length ≤ maxLen ∧
      s.length < 4294967296 := by
  unfold decOpaque at h
  split at h
  · simp at h
  · rename_i len r1 h1
    split at h
    · simp at h
    · rename_i hle
      split at h
      · simp at h
      · rename_i data r2 h2
        split at h
        · simp at h
        · rename_i p r3 h3
          simp at h
          obtain ⟨hs, hr⟩ := h
          subst hs; subst hr
          obtain ⟨e2, l2⟩ := take?_some h2
          obtain ⟨e3, l3⟩ := take?_some h3
          refine ⟨p, ?_, ?_, ?_, ?_⟩
          · rw [l2]; exact l3
          · rw [decU32_eq_split h1, e2, e3, l2]; simp
          · omega
          · rw [l2]; exact decU32_lt h1

theorem decOpaque_consumes {maxLen : Nat} {bs s r : Bytes} (h : decOpaque maxLen bs = some (s, r)) :
    bs.length = 4 + s.length + pad4 s.length + r.length := by
  obtain ⟨p, hp, hbs, _, _⟩ := decOpaque_sound h
  rw [hbs]; simp; omega

theorem decOpaque_oversize (maxLen n : Nat) (rest : Bytes) (h : maxLen < n) (h32 : n < 4294967296) :
    decOpaque maxLen (encU32 n ++ rest) = none ∧ decOpaqueAllocs maxLen (encU32 n ++ rest) = [] := by
  unfold decOpaque decOpaqueAllocs
  rw [decU32_encU32 _ h32]
  simp [h]

theorem decOpaqueAllocs_bounded (maxLen : Nat) (bs : Bytes) :
    ∀ a ∈ decOpaqueAllocs maxLen bs, a ≤ maxLen ∨ a < 4 := by
  intro a ha
  unfold decOpaqueAllocs at ha
  split at ha
  · simp at ha
  · rename_i len r _
    split at ha
    · simp at ha
    · simp at ha
      rcases ha with rfl | rfl
      · left; omega
      · right; exact pad4_lt _

/-- A decoder never succeeds on a proper prefix of a valid encoding. -/
theorem decOpaque_prefix (maxLen : Nat) (s : Bytes) (k : Nat) (hk : k < (encOpaque s).length)
    (h32 : s.length < 4294967296) :
    decOpaque maxLen ((encOpaque s).take k) = none := by
  cases hd : decOpaque maxLen ((encOpaque s).take k) with
  | none => rfl
  | some v =>
    obtain ⟨s', r⟩ := v
    exfalso
    obtain ⟨p, hp, hbs, _, h32'⟩ := decOpaque_sound hd
    have hlen : ((encOpaque s).take k).length = k := by
      rw [List.length_take]; omega
    have hL := congrArg List.length hbs
    rw [hlen] at hL
    simp at hL
    have h4 : 4 ≤ k := by omega
    have hsplit : (encOpaque s).take k = encU32 s.length ++ (s ++ zeros (pad4 s.length)).take (k - 4) := by
      unfold encOpaque
      rw [List.append_assoc, List.take_append]
      simp [List.take_of_length_le, h4]
    have hw1 : decU32 ((encOpaque s).take k) = some (s.length, (s ++ zeros (pad4 s.length)).take (k - 4)) := by
      rw [hsplit, decU32_encU32 _ h32]
    have hw2 : decU32 ((encOpaque s).take k) = some (s'.length, s' ++ p ++ r) := by
      rw [hbs, List.append_assoc, List.append_assoc, decU32_encU32 _ h32']
      simp
    rw [hw1] at hw2
    simp at hw2
    rw [encOpaque_length] at hk
    rw [hw2.1] at hk
    omega

theorem decString_encOpaque (maxLen : Nat) (s rest : Bytes)
    (hl : s.length ≤ maxLen) (h32 : s.length < 4294967296) (hn : (0 : UInt8) ∉ s) :
    decString maxLen (encOpaque s ++ rest) = some (s, rest) := by
  unfold decString
  rw [decOpaque_encOpaque maxLen s rest hl h32]
  simp [hn]

theorem decString_sound {maxLen : Nat} {bs s r : Bytes} (h : decString maxLen bs = some (s, r)) :
    decOpaque maxLen bs = some (s, r) ∧ (0 : UInt8) ∉ s := by
  unfold decString at h
  split at h
  · simp at h
  · rename_i s' r' hd
    split at h
    · simp at h
    · rename_i hn
      simp at h
      obtain ⟨h1, h2⟩ := h
      subst h1; subst h2
      exact ⟨hd, hn⟩

theorem decString_nul (maxLen : Nat) (s rest : Bytes) (hn : (0 : UInt8) ∈ s)
    (hl : s.length ≤ maxLen) (h32 : s.length < 4294967296) :
    decString maxLen (encOpaque s ++ rest) = none := by
  unfold decString
  rw [decOpaque_encOpaque maxLen s rest hl h32]
  simp [hn]

/-! File handles: opaque<64> on the wire, this server only issues and accepts length 8. -/

def encFh (h : Nat) : Bytes := encU32 8 ++ encU64 h

/-- xdrDecodeFileHandle. `fhMax` = 64, `fhLen` = 8 (from Gen). The discard read for other
    lengths is modelled as failure (the caller always aborts on error). -/
def decFh (fhMax fhLen : Nat) (bs : Bytes) : Option (Nat × Bytes) :=
  match decU32 bs with
  | none => none
  | some (len, r) =>
    if len > fhMax then none
    else if len ≠ fhLen then none
    else decU64 r

/-- what is left in the stream after xdrDecodeFileHandle returned (value or refusal): a refused wrong-size handle
    (length ≤ the maximum, ≠ 8) is skipped with its padding so that the stream stays in sync; an over-limit length
    is refused before anything more is read; a short stream is consumed to its end (io.ReadFull) -/
def decFhRest (fhMax fhLen : Nat) (bs : Bytes) : Bytes :=
  match decU32 bs with
  | none => []
  | some (len, r) =>
    if len > fhMax then r
    else if len ≠ fhLen then (if len > 0 then r.drop ((len + 3) / 4 * 4) else r)
    else r.drop 8

def decFhAllocs (fhMax fhLen : Nat) (bs : Bytes) : List Nat :=
  match decU32 bs with
  | none => []
  | some (len, _) =>
    if len > fhMax then []
    else if len ≠ fhLen then (if len > 0 then [(len + 3) / 4 * 4] else [])
    else []

theorem decFh_encFh (fhMax : Nat) (h : Nat) (rest : Bytes) (hm : 8 ≤ fhMax) (h64 : h < 18446744073709551616) :
    decFh fhMax 8 (encFh h ++ rest) = some (h, rest) := by
  unfold decFh encFh
  rw [List.append_assoc, decU32_encU32 _ (by omega)]
  simp only
  rw [if_neg (by omega), if_neg (by simp)]
  exact decU64_encU64 h h64 rest

theorem decFh_consumes {fhMax : Nat} {bs r : Bytes} {h : Nat} (hd : decFh fhMax 8 bs = some (h, r)) :
    bs.length = r.length + 12 ∧ h < 18446744073709551616 := by
  unfold decFh at hd
  split at hd
  · simp at hd
  · rename_i len r1 h1
    split at hd
    · simp at hd
    · split at hd
      · simp at hd
      · have := decU32_length h1
        have := decU64_length hd
        exact ⟨by omega, decU64_lt hd⟩

theorem decFhAllocs_bounded (fhMax fhLen : Nat) (bs : Bytes) :
    ∀ a ∈ decFhAllocs fhMax fhLen bs, a ≤ fhMax + 3 := by
  intro a ha
  unfold decFhAllocs at ha
  split at ha
  · simp at ha
  · split at ha
    · simp at ha
    · split at ha
      · split at ha
        · simp at ha; omega
        · simp at ha
      · simp at ha

/-! sattr3 (RFC 1813 §2.3.4) as decodeSattr3 reads it. -/

structure Sattr3 where
  mode  : Option Nat := none
  uid   : Option Nat := none
  gid   : Option Nat := none
  size  : Option Nat := none
  /-- 0 = don't change, 1 = server time, 2 = client time (sec, nsec); other discriminants kept verbatim -/
  atimeHow : Nat := 0
  atime : Nat × Nat := (0, 0)
  mtimeHow : Nat := 0
  mtime : Nat × Nat := (0, 0)
  deriving Repr, DecidableEq

def encOptU32 : Option Nat → Bytes
  | none => encU32 0
  | some v => encU32 1 ++ encU32 v

def encOptU64 : Option Nat → Bytes
  | none => encU32 0
  | some v => encU32 1 ++ encU64 v

def encTimeHow (how : Nat) (t : Nat × Nat) : Bytes :=
  if how = 2 then encU32 2 ++ encU32 t.1 ++ encU32 t.2 else encU32 how

def encSattr3 (s : Sattr3) : Bytes :=
  encOptU32 s.mode ++ encOptU32 s.uid ++ encOptU32 s.gid ++ encOptU64 s.size ++
  encTimeHow s.atimeHow s.atime ++ encTimeHow s.mtimeHow s.mtime

/-- flag word then value if flag ≠ 0 -/
def decOptU32 (bs : Bytes) : Option (Option Nat × Bytes) :=
  match decU32 bs with
  | none => none
  | some (flag, r) =>
    if flag = 0 then some (none, r) else
    match decU32 r with
    | none => none
    | some (v, r') => some (some v, r')

def decOptU64 (bs : Bytes) : Option (Option Nat × Bytes) :=
  match decU32 bs with
  | none => none
  | some (flag, r) =>
    if flag = 0 then some (none, r) else
    match decU64 r with
    | none => none
    | some (v, r') => some (some v, r')

def decTimeHow (bs : Bytes) : Option (Nat × (Nat × Nat) × Bytes) :=
  match decU32 bs with
  | none => none
  | some (how, r) =>
    if how = 2 then
      match decU32 r with
      | none => none
      | some (s, r1) =>
        match decU32 r1 with
        | none => none
        | some (ns, r2) => some (2, (s, ns), r2)
    else some (how, (0, 0), r)

def decSattr3 (bs : Bytes) : Option (Sattr3 × Bytes) :=
  match decOptU32 bs with
  | none => none
  | some (mode, r1) =>
  match decOptU32 r1 with
  | none => none
  | some (uid, r2) =>
  match decOptU32 r2 with
  | none => none
  | some (gid, r3) =>
  match decOptU64 r3 with
  | none => none
  | some (size, r4) =>
  match decTimeHow r4 with
  | none => none
  | some (ah, at_, r5) =>
  match decTimeHow r5 with
  | none => none
  | some (mh, mt, r6) =>
    some ({ mode := mode, uid := uid, gid := gid, size := size,
            atimeHow := ah, atime := at_, mtimeHow := mh, mtime := mt }, r6)

/-- Well-formed sattr3 values: every field fits its wire width; unused time fields are zero;
    the "set" discriminants the encoder emits are 0/1 for the optional fields. -/
def Sattr3.WF (s : Sattr3) : Prop :=
  (∀ v, s.mode = some v → v < 4294967296) ∧ (∀ v, s.uid = some v → v < 4294967296) ∧
  (∀ v, s.gid = some v → v < 4294967296) ∧ (∀ v, s.size = some v → v < 18446744073709551616) ∧
  s.atimeHow < 4294967296 ∧ s.mtimeHow < 4294967296 ∧
  s.atime.1 < 4294967296 ∧ s.atime.2 < 4294967296 ∧ s.mtime.1 < 4294967296 ∧ s.mtime.2 < 4294967296 ∧
  (s.atimeHow ≠ 2 → s.atime = (0, 0)) ∧ (s.mtimeHow ≠ 2 → s.mtime = (0, 0))

theorem decOptU32_enc (o : Option Nat) (rest : Bytes) (h : ∀ v, o = some v → v < 4294967296) :
    decOptU32 (encOptU32 o ++ rest) = some (o, rest) := by
  cases o with
  | none => simp [decOptU32, encOptU32, decU32_encU32]
  | some v =>
    have hv := h v rfl
    unfold decOptU32 encOptU32
    rw [List.append_assoc, decU32_encU32 _ (by omega)]
    simp only
    rw [if_neg (by omega), decU32_encU32 _ hv]

theorem decOptU64_enc (o : Option Nat) (rest : Bytes) (h : ∀ v, o = some v → v < 18446744073709551616) :
    decOptU64 (encOptU64 o ++ rest) = some (o, rest) := by
  cases o with
  | none => simp [decOptU64, encOptU64, decU32_encU32]
  | some v =>
    have hv := h v rfl
    unfold decOptU64 encOptU64
    rw [List.append_assoc, decU32_encU32 _ (by omega)]
    simp only
    rw [if_neg (by omega), decU64_encU64 _ hv]

theorem decTimeHow_enc (how : Nat) (t : Nat × Nat) (rest : Bytes) (hh : how < 4294967296)
    (h1 : t.1 < 4294967296) (h2 : t.2 < 4294967296) (hz : how ≠ 2 → t = (0, 0)) :
    decTimeHow (encTimeHow how t ++ rest) = some (how, t, rest) := by
  unfold decTimeHow encTimeHow
  by_cases h : how = 2
  · subst h
    simp only [if_true, List.append_assoc]
    rw [decU32_encU32 _ (by omega)]
    simp only [if_true]
    rw [decU32_encU32 _ h1]
    simp only
    rw [decU32_encU32 _ h2]
  · simp only [if_neg h]
    rw [decU32_encU32 _ hh]
    simp only [if_neg h]
    rw [hz h]

theorem decSattr3_encSattr3 (s : Sattr3) (rest : Bytes) (h : s.WF) :
    decSattr3 (encSattr3 s ++ rest) = some (s, rest) := by
  obtain ⟨h1, h2, h3, h4, h5, h6, h7, h8, h9, h10, h11, h12⟩ := h
  unfold decSattr3 encSattr3
  simp only [List.append_assoc]
  rw [decOptU32_enc _ _ h1]; simp only
  rw [decOptU32_enc _ _ h2]; simp only
  rw [decOptU32_enc _ _ h3]; simp only
  rw [decOptU64_enc _ _ h4]; simp only
  rw [decTimeHow_enc _ _ _ h5 h7 h8 h11]; simp only
  rw [decTimeHow_enc _ _ _ h6 h9 h10 h12]

end Absnfs
