/-
  Handles: the file-handle table (filehandle.go: Allocate / Get / Release / ReleaseAll; minheap.go).
  `live` is handles (id ↦ path; pathHandles is its inverse), `free` is the min-heap of reusable ids,
  `next` is nextHandle. The heap is modelled as a list from which the minimum is taken (container/heap is
  Go's stdlib). Eviction removes the `evictCount` smallest ids other than the id just assigned.
-/
import Absnfs.Bytes
namespace Absnfs
namespace Handles

structure St where
  live : List (Nat × Bytes)
  free : List Nat
  next : Nat
  maxRaw : Int            -- maxHandles as configured (≤ 0 means the default)
  deriving Repr

/-- maxH := fm.maxHandles; if maxH <= 0 { maxH = DefaultMaxHandles } -/
def effMax (defaultMax : Nat) (raw : Int) : Nat := if raw ≤ 0 then defaultMax else raw.toNat

def init (maxRaw : Int) : St := { live := [], free := [], next := 1, maxRaw := maxRaw }

def get (s : St) (h : Nat) : Option Bytes := (s.live.find? (·.1 == h)).map (·.2)

def handleOf (s : St) (p : Bytes) : Option Nat := (s.live.find? (·.2 == p)).map (·.1)

/-- smallest element of a non-empty list -/
def listMin : List Nat → Option Nat
  | [] => none
  | x :: xs => match listMin xs with
    | none => some x
    | some m => some (if x ≤ m then x else m)

/-- Evict up to `k` entries, smallest id first, never the id `keep`. Returns the remaining table and the
    evicted ids in eviction order. (`delete(fm.handles, h)` removes the one entry with that key.) -/
def evictN : Nat → Nat → List (Nat × Bytes) → List (Nat × Bytes) × List Nat
  | 0, _, live => (live, [])
  | k + 1, keep, live =>
    match listMin ((live.map (·.1)).filter (· ≠ keep)) with
    | none => (live, [])
    | some m =>
      let r := evictN k keep (live.eraseP (·.1 == m))
      (r.1, m :: r.2)

def evictCount (maxH divisor : Nat) : Nat := if maxH / divisor < 1 then 1 else maxH / divisor

/-- The id for a new entry: the smallest freed id if any, else nextHandle (then incremented).
    Returns (id, new free list, new nextHandle). -/
def pick (s : St) : Nat × List Nat × Nat :=
  match listMin s.free with
  | some m => (m, s.free.erase m, s.next)
  | none => (s.next, s.free, s.next + 1)

/-- Allocate. `defaultMax` = DefaultMaxHandles, `divisor` = 10 (both regenerated from the source). -/
def alloc (defaultMax divisor : Nat) (s : St) (p : Bytes) : St × Nat :=
  match (if p = [] then none else handleOf s p) with
  | some h => (s, h)
  | none =>
    let pk := pick s
    let h := pk.1
    let live1 := (h, p) :: s.live
    let maxH := effMax defaultMax s.maxRaw
    if live1.length > maxH then
      let r := evictN (evictCount maxH divisor) h live1
      ({ s with live := r.1, free := pk.2.1 ++ r.2, next := pk.2.2 }, h)
    else ({ s with live := live1, free := pk.2.1, next := pk.2.2 }, h)

def release (s : St) (h : Nat) : St :=
  if (s.live.any (·.1 == h)) then { s with live := s.live.eraseP (·.1 == h), free := s.free ++ [h] } else s

def releaseAll (s : St) : St := { s with live := [], free := [] }

inductive Op where
  | alloc (p : Bytes)
  | release (h : Nat)
  | releaseAll
  deriving Repr

def step (defaultMax divisor : Nat) (s : St) : Op → St
  | .alloc p => (alloc defaultMax divisor s p).1
  | .release h => release s h
  | .releaseAll => releaseAll s

def run (defaultMax divisor : Nat) (s : St) (ops : List Op) : St := ops.foldl (step defaultMax divisor) s

/-! ### Lemmas -/

theorem listMin_mem : ∀ {l : List Nat} {m : Nat}, listMin l = some m → m ∈ l
  | [], _, h => by simp [listMin] at h
  | x :: xs, m, h => by
    simp only [listMin] at h
    cases hx : listMin xs with
    | none => rw [hx] at h; simp at h; simp [h]
    | some m' =>
      rw [hx] at h
      simp at h
      have := listMin_mem hx
      by_cases hle : x ≤ m'
      · simp [hle] at h; simp [h]
      · simp [hle] at h; subst h; simp [this]

theorem listMin_none : ∀ {l : List Nat}, listMin l = none → l = []
  | [], _ => rfl
  | x :: xs, h => by
    simp only [listMin] at h
    cases hx : listMin xs <;> rw [hx] at h <;> simp at h

def ids (l : List (Nat × Bytes)) : List Nat := l.map (·.1)
def paths (l : List (Nat × Bytes)) : List Bytes := l.map (·.2)

theorem ids_eraseP (l : List (Nat × Bytes)) (m : Nat) :
    ids (l.eraseP (·.1 == m)) = (ids l).erase m := by
  induction l with
  | nil => simp [ids]
  | cons x xs ih =>
    by_cases hx : x.1 = m
    · simp [ids, List.eraseP_cons, hx]
    · have hx' : (x.1 == m) = false := by simpa using hx
      simp only [ids] at ih ⊢
      rw [List.eraseP_cons, hx', cond_false, List.map_cons, List.map_cons,
        List.erase_cons_tail (by simpa using hx)]
      rw [ih]

theorem evictN_sublist (k keep : Nat) (live : List (Nat × Bytes)) :
    (evictN k keep live).1.Sublist live := by
  induction k generalizing live with
  | zero => simp [evictN]
  | succ k ih =>
    simp only [evictN]
    split
    · exact List.Sublist.refl _
    · exact (ih _).trans (List.eraseP_sublist)

/-- the head entry (the handle just assigned) survives eviction and stays first -/
theorem evictN_head (k h : Nat) (p : Bytes) (rest : List (Nat × Bytes)) :
    ∃ rest', (evictN k h ((h, p) :: rest)).1 = (h, p) :: rest' := by
  induction k generalizing rest with
  | zero => exact ⟨rest, by simp [evictN]⟩
  | succ k ih =>
    simp only [evictN]
    split
    · exact ⟨rest, rfl⟩
    · rename_i m hm
      have hmem := listMin_mem hm
      have hne : m ≠ h := by
        have := (List.mem_filter.mp hmem).2
        simpa using this
      have hne' : ((h, p).1 == m) = false := by simpa using hne.symm
      rw [List.eraseP_cons, hne', cond_false]
      exact ih _

/-- victims are existing ids other than `keep` -/
theorem evictN_victims (k keep : Nat) (live : List (Nat × Bytes)) :
    ∀ v ∈ (evictN k keep live).2, v ≠ keep ∧ v ∈ ids live := by
  induction k generalizing live with
  | zero => simp [evictN]
  | succ k ih =>
    simp only [evictN]
    split
    · simp
    · rename_i m hm
      have hmem := listMin_mem hm
      intro v hv
      simp only [List.mem_cons] at hv
      rcases hv with rfl | hv
      · exact ⟨by simpa using (List.mem_filter.mp hmem).2, (List.mem_filter.mp hmem).1⟩
      · have := ih _ v hv
        refine ⟨this.1, ?_⟩
        rw [ids_eraseP] at this
        exact List.mem_of_mem_erase this.2

/-- with unique ids: victims are gone from the table and distinct -/
theorem evictN_victims_gone (k keep : Nat) (live : List (Nat × Bytes)) (hnd : (ids live).Nodup) :
    (∀ v ∈ (evictN k keep live).2, v ∉ ids (evictN k keep live).1) ∧ (evictN k keep live).2.Nodup := by
  induction k generalizing live with
  | zero => simp [evictN]
  | succ k ih =>
    simp only [evictN]
    split
    · simp
    · rename_i m hm
      have hnd' : (ids (live.eraseP (·.1 == m))).Nodup := by rw [ids_eraseP]; exact hnd.erase m
      obtain ⟨ih1, ih2⟩ := ih _ hnd'
      have hm_gone : m ∉ ids (live.eraseP (·.1 == m)) := by
        rw [ids_eraseP]; intro h; exact ((List.Nodup.mem_erase_iff hnd).mp h).1 rfl
      have hsub := evictN_sublist k keep (live.eraseP (·.1 == m))
      constructor
      · intro v hv
        simp only [List.mem_cons] at hv
        rcases hv with rfl | hv
        · intro hin
          exact hm_gone ((hsub.map (·.1)).subset hin)
        · exact ih1 v hv
      · simp only [List.nodup_cons]
        refine ⟨?_, ih2⟩
        intro hin
        exact hm_gone (evictN_victims k keep _ m hin).2

theorem evictN_length_le (k keep : Nat) (live : List (Nat × Bytes)) :
    (evictN k keep live).1.length ≤ live.length := (evictN_sublist k keep live).length_le

/-- if some entry other than `keep` exists, at least one entry is evicted -/
theorem evictN_length_lt (k keep : Nat) (live : List (Nat × Bytes))
    (hc : ∃ x ∈ live, x.1 ≠ keep) : (evictN (k + 1) keep live).1.length < live.length := by
  simp only [evictN]
  split
  · rename_i hnone
    have := listMin_none hnone
    obtain ⟨x, hx, hne⟩ := hc
    have hin : x.1 ∈ (live.map (·.1)).filter (· ≠ keep) :=
      List.mem_filter.mpr ⟨List.mem_map_of_mem hx, by simpa using hne⟩
    rw [this] at hin
    simp at hin
  · rename_i m hm
    have hmem := listMin_mem hm
    have hm_in : m ∈ live.map (·.1) := (List.mem_filter.mp hmem).1
    obtain ⟨y, hy, hym⟩ := List.mem_map.mp hm_in
    have h1 : (live.eraseP (·.1 == m)).length = live.length - 1 :=
      List.length_eraseP_of_mem hy (by simpa using hym)
    have h2 := evictN_length_le k keep (live.eraseP (·.1 == m))
    have : 0 < live.length := List.length_pos_of_mem hy
    simp only
    omega

end Handles
end Absnfs
