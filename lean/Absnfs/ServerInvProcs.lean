/-
  ServerInvProcs: every procedure keeps `CInv` — in particular the attribute cache stays coherent with the
  backend across the procedures that change the backend (C02: "the server's caches never hide the effect of a
  mutation the server itself completed").
-/
import Absnfs.ServerInv
namespace Absnfs
namespace Server

/-! ### procedures that do not change the backend -/

theorem procGetattr_cinv (s : St) (c : Ctx) (args : Bytes) (h : CInv s) : CInv (procGetattr s c args).1 := by
  unfold procGetattr
  split
  · exact h
  · split
    · exact h
    · rename_i n hn
      split <;> (rename_i heq; exact getAttr_cinv' heq h (nodeOf_cleanI h hn))

theorem procLookup_cinv (s : St) (c : Ctx) (args : Bytes) (h : CInv s) : CInv (procLookup s c args).1 := by
  unfold procLookup
  split
  · exact h
  · split
    · exact h
    · rename_i name _ _
      split
      · exact h
      · rename_i hv
        split
        · exact h
        · rename_i n hn
          have hnc := nodeOf_cleanI h hn
          have hpc : CleanPath (joinName n.path name) := joinName_clean n.path name hnc (by simpa using hv)
          have keep : ∀ (t : St) (k : Attrs → Outcome), CInv t → CInv (lookupDirAttr t c.now n k).1 :=
            fun t k ht => getAttrOr_cinv ht c.now n n.attrs hnc
          split
          · exact keep _ _ h
          · split
            · rename_i heq; exact keep _ _ (lookupPath_cinv' heq h hpc)
            · rename_i s1 ln heq
              have h1 := lookupPath_cinv' heq h hpc
              exact keep _ _ (allocate_cinv h1 ln (by rw [lookupPath_path heq]; exact hpc))

theorem procAccess_cinv (s : St) (c : Ctx) (args : Bytes) (h : CInv s) : CInv (procAccess s c args).1 := by
  unfold procAccess
  split
  · exact h
  · split
    · exact h
    · split
      · exact h
      · rename_i n hn
        split <;> (rename_i heq; exact getAttr_cinv' heq h (nodeOf_cleanI h hn))

theorem procReadlink_cinv (s : St) (c : Ctx) (args : Bytes) (h : CInv s) : CInv (procReadlink s c args).1 := by
  unfold procReadlink
  split
  · exact h
  · split
    · exact h
    · rename_i n hn
      split
      · exact h
      · split
        · exact h
        · split
          · exact h
          · split <;> (rename_i heq; exact getAttr_cinv' heq h (nodeOf_cleanI h hn))

theorem procRead_cinv (s : St) (c : Ctx) (args : Bytes) (h : CInv s) : CInv (procRead s c args).1 := by
  unfold procRead
  split
  · exact h
  · split
    · exact h
    · split
      · exact h
      · split
        · exact h
        · split
          · exact h
          · rename_i n hn
            split
            · exact h
            · simp only
              split
              · exact h
              · split <;> (rename_i heq; exact getAttr_cinv' heq h (nodeOf_cleanI h hn))

theorem withObjAttr_cinv (s : St) (c : Ctx) (args : Bytes) (k : Rfc.Fattr → Rfc.Body) (h : CInv s) :
    CInv (withObjAttr s c args k).1 := by
  unfold withObjAttr
  split
  · exact h
  · split
    · exact h
    · rename_i n hn
      split <;> (rename_i heq; exact getAttr_cinv' heq h (nodeOf_cleanI h hn))

theorem procCommit_cinv (s : St) (c : Ctx) (args : Bytes) (h : CInv s) : CInv (procCommit s c args).1 := by
  unfold procCommit
  split
  · exact h
  · split
    · exact h
    · split
      · exact h
      · split
        · exact h
        · split
          · exact h
          · rename_i n hn
            split <;> (rename_i heq; exact getAttr_cinv' heq h (nodeOf_cleanI h hn))


theorem readDir_cinv' {s s' : St} {now : Nat} {d : Node} {r : Except Fs.Errno (List Node)} (heq : readDir s now d = (s', r))
    (h : CInv s) (hd : CleanPath d.path) :
    CInv s' ∧ ∀ nodes, r = .ok nodes → ∀ n ∈ nodes, CleanPath n.path ∧ n.attrs.fileId = fnv64 n.path := by
  have := readDir_cinv s now d h hd
  rw [heq] at this
  exact this

theorem procReaddir_cinv (s : St) (c : Ctx) (args : Bytes) (h : CInv s) : CInv (procReaddir s c args).1 := by
  unfold procReaddir
  split
  · exact h
  · split
    · exact h
    · split
      · exact h
      · split
        · exact h
        · split
          · exact h
          · rename_i n hn
            have hnc := nodeOf_cleanI h hn
            split
            · exact h
            · split
              · rename_i heq; exact (readDir_cinv' heq h hnc).1
              · rename_i heq
                have h1 := (readDir_cinv' heq h hnc).1
                split
                · rename_i h2; exact getAttr_cinv' h2 h1 hnc
                · rename_i h2
                  have hc2 := getAttr_cinv' h2 h1 hnc
                  simp only
                  split <;> exact hc2

theorem procReaddirplus_cinv (s : St) (c : Ctx) (args : Bytes) (h : CInv s) : CInv (procReaddirplus s c args).1 := by
  unfold procReaddirplus
  split
  · exact h
  · split
    · exact h
    · split
      · exact h
      · split
        · exact h
        · split
          · exact h
          · split
            · exact h
            · rename_i n hn
              have hnc := nodeOf_cleanI h hn
              split
              · exact h
              · split
                · rename_i heq; exact (readDir_cinv' heq h hnc).1
                · rename_i s1 nodes0 heq
                  obtain ⟨h1, hnodes⟩ := readDir_cinv' heq h hnc
                  have hn0 := hnodes nodes0 rfl
                  have hr := refreshEach_cinv s1 c.now nodes0 h1 (fun m hm => (hn0 m hm).1) (fun m hm => (hn0 m hm).2)
                  split
                  rename_i s2 nodes hre
                  rw [hre] at hr
                  split
                  · rename_i h2; exact getAttr_cinv' h2 hr.1 hnc
                  · rename_i s3 a h2
                    have h3 := getAttr_cinv' h2 hr.1 hnc
                    simp only
                    have hf := fun limit cookie => fillDirPlus_cinv limit cookie s3 0 dirListHeader 0 nodes h3 hr.2
                    split
                    · rename_i hfd; exact (congrArg Prod.fst hfd) ▸ (hf _ _)
                    · rename_i hfd; exact (congrArg Prod.fst hfd) ▸ (hf _ _)


theorem procMnt_cinv (s : St) (c : Ctx) (args : Bytes) (h : CInv s) : CInv (procMnt s c args).1 := by
  unfold procMnt
  split
  · exact h
  · rename_i raw _ _
    split
    · exact h
    · simp only
      generalize (if cleanAbs raw = [47] then 0 else firstBadComponent _) = bad
      have hpc := cleanAbs_clean raw
      split
      · exact h
      · split
        · rename_i heq; exact lookupPath_cinv' heq h hpc
        · rename_i s1 node heq
          exact allocate_cinv (lookupPath_cinv' heq h hpc) node (by rw [lookupPath_path heq]; exact hpc)

/-! ### the backend changes: which cache entries may stay -/

theorem acInv_mem {s : St} (hI : Lru.Inv s.ac) {p : Bytes} {e : Lru.Entry Attrs} (he : e ∈ (acInv s p).ac.entries) :
    e ∈ s.ac.entries ∧ e.key ≠ p := Lru.invalidate_mem hI he

theorem acInv_lru {s : St} (hI : Lru.Inv s.ac) (p : Bytes) : Lru.Inv (acInv s p).ac := Lru.inv_invalidate hI p

/-- the backend changed only what Lstat shows at `p`'s own path, and the entry for `p` was dropped -/
theorem cinv_change_at {s s2 : St} (h : CInv s) {p : Bytes} (hp : CleanPath p) (hw : Fs.WF s2.fs)
    (hview : ∀ q, q ≠ fsPath p → Fs.viewAt s2.fs q = Fs.viewAt s.fs q)
    (hhs : s2.hs = s.hs) (hlru : Lru.Inv s2.ac)
    (hsub : ∀ e ∈ s2.ac.entries, e ∈ s.ac.entries ∧ e.key ≠ p)
    (hcfg : s2.cfg = s.cfg := by rfl) (hdci : DcI s2.dc := by dci_tac) : CInv s2 := by
  refine cinv_step h hhs hw hlru ?_ hcfg hdci
  intro e he
  obtain ⟨hm, hk⟩ := hsub e he
  refine ⟨hm, hview _ ?_⟩
  intro heq
  exact hk (fsPath_inj (h.keys e hm) hp heq)

/-- the backend changed nothing that Lstat shows (owner changes) -/
theorem cinv_same_view {s : St} (h : CInv s) {fs1 : Fs.T} (hw : Fs.WF fs1) (hview : ∀ q, Fs.viewAt fs1 q = Fs.viewAt s.fs q) :
    CInv { s with fs := fs1 } :=
  cinv_step h rfl hw h.lru (fun e he => ⟨he, hview _⟩)

theorem chownQuiet_cinv {s : St} (h : CInv s) (p : Bytes) (u g : Nat) : CInv (chownQuiet s p u g) := by
  unfold chownQuiet
  split
  · rename_i f hf
    obtain ⟨hw, hv⟩ := Fs.chown_frame hf h.wf
    exact cinv_same_view h hw hv
  · exact h

theorem lchownQuiet_cinv {s : St} (h : CInv s) (p : Bytes) (u g : Nat) : CInv (lchownQuiet s p u g) := by
  unfold lchownQuiet
  split
  · rename_i f hf
    obtain ⟨hw, hv⟩ := Fs.lchown_frame hf h.wf
    exact cinv_same_view h hw hv
  · exact h

/-- the invalidations shared by CREATE, MKDIR and SYMLINK drop the new path's entry -/
theorem invalidateForNew_sub {s : St} (hI : Lru.Inv s.ac) (dir p : Bytes) :
    Lru.Inv (invalidateForNew s dir p).ac ∧
    ∀ e ∈ (invalidateForNew s dir p).ac.entries, e ∈ s.ac.entries ∧ e.key ≠ p := by
  unfold invalidateForNew
  have h1 := acInv_lru hI dir
  have h2 : Lru.Inv (acInvNegIn (acInv s dir) dir).ac := Lru.inv_invalidateNegativeInDir h1 dir
  refine ⟨acInv_lru h2 p, ?_⟩
  intro e he
  have he' : e ∈ (acInv (acInvNegIn (acInv s dir) dir) p).ac.entries := he
  obtain ⟨m1, k1⟩ := acInv_mem h2 he'
  have m2 := Lru.invalidateNegativeInDir_mem m1
  exact ⟨(acInv_mem hI m2).1, k1⟩


theorem procMkdir_cinv (s : St) (c : Ctx) (args : Bytes) (h : CInv s) : CInv (procMkdir s c args).1 := by
  unfold procMkdir
  split
  · exact h
  · split
    · exact h
    · split
      · exact h
      · rename_i name _ _
        split
        · exact h
        · rename_i hv
          split
          · exact h
          · simp only
            split
            · exact h
            · split
              · exact h
              · rename_i n hn
                have hnc := nodeOf_cleanI h hn
                have hpc : CleanPath (joinName n.path name) := joinName_clean n.path name hnc (by simpa using hv)
                split
                · rename_i heq; exact getAttr_cinv' heq h hnc
                · rename_i s1 pre heq
                  have h1 := getAttr_cinv' heq h hnc
                  split
                  · exact getAttrOr_cinv h1 _ n pre hnc
                  · rename_i fs1 hmk
                    obtain ⟨hw1, hview, _⟩ := Fs.mkdir_frame hmk h1.wf
                    have hsub := invalidateForNew_sub (s := { s1 with fs := fs1 }) h1.lru n.path (joinName n.path name)
                    have h2 : CInv (invalidateForNew { s1 with fs := fs1 } n.path (joinName n.path name)) :=
                      cinv_change_at h1 hpc hw1 hview rfl hsub.1 hsub.2
                    have h3 := fun u g => chownQuiet_cinv h2 (joinName n.path name) u g
                    split
                    · rename_i hl; exact lookupPath_cinv' hl (h3 _ _) hpc
                    · rename_i s4 node hl
                      have h4 := lookupPath_cinv' hl (h3 _ _) hpc
                      split
                      · rename_i hg; exact getAttr_cinv' hg h4 hnc
                      · rename_i hg
                        have h5 := getAttr_cinv' hg h4 hnc
                        exact allocate_cinv h5 node (by rw [lookupPath_path hl]; exact hpc)


theorem symlinkOp_cinv {s : St} (h : CInv s) (now : Nat) (dir : Node) (name target : Bytes) (hd : CleanPath dir.path)
    (hn : NoSep name) : CInv (symlinkOp s now dir name target).1 := by
  unfold symlinkOp
  split
  · exact h
  · rename_i p hp
    have hpe := sanitize_some hp
    have hpc : CleanPath p := by rw [hpe]; exact .child dir.path name hd hn
    split
    · exact h
    · rename_i fs1 hsl
      obtain ⟨hw1, hview, _⟩ := Fs.symlink_frame hsl h.wf
      have hsub := invalidateForNew_sub (s := { s with fs := fs1 }) h.lru dir.path p
      have h2 : CInv (invalidateForNew { s with fs := fs1 } dir.path p) :=
        cinv_change_at h hpc hw1 hview rfl hsub.1 hsub.2
      exact lookupPath_cinv h2 now p hpc

theorem symlinkOp_cinv' {s s' : St} {now : Nat} {dir : Node} {name target : Bytes} {r : Except Fs.Errno Node}
    (heq : symlinkOp s now dir name target = (s', r)) (h : CInv s) (hd : CleanPath dir.path) (hn : NoSep name) : CInv s' := by
  have := symlinkOp_cinv h now dir name target hd hn
  rw [heq] at this; exact this

theorem symlinkOp_path {s s' : St} {now : Nat} {dir : Node} {name target : Bytes} {node : Node}
    (h : symlinkOp s now dir name target = (s', .ok node)) : node.path = joinName dir.path name := by
  unfold symlinkOp at h
  split at h
  · simp at h
  · rename_i p hp
    split at h
    · simp at h
    · rw [lookupPath_path h, sanitize_some hp]

theorem procSymlink_cinv (s : St) (c : Ctx) (args : Bytes) (h : CInv s) : CInv (procSymlink s c args).1 := by
  unfold procSymlink
  split
  · exact h
  · split
    · exact h
    · split
      · exact h
      · rename_i name _ _
        split
        · exact h
        · rename_i hv
          have hns : NoSep name := noSep_of_valid name (by simpa using hv)
          split
          · exact h
          · split
            · exact h
            · split
              · exact h
              · split
                · exact h
                · split
                  · exact h
                  · split
                    · exact h
                    · rename_i n hn
                      have hnc := nodeOf_cleanI h hn
                      split
                      · rename_i heq; exact getAttr_cinv' heq h hnc
                      · rename_i s1 pre heq
                        have h1 := getAttr_cinv' heq h hnc
                        split
                        · rename_i s2 st hso
                          have h2 : CInv s2 := symlinkOp_cinv' hso h1 hnc hns
                          exact getAttrOr_cinv h2 _ n pre hnc
                        · rename_i s2 node hso
                          have h2 : CInv s2 := symlinkOp_cinv' hso h1 hnc hns
                          have h3 := fun u g => lchownQuiet_cinv h2 (joinName n.path name) u g
                          have hnp : CleanPath node.path := by
                            rw [symlinkOp_path hso]; exact .child n.path name hnc hns
                          simp only
                          split
                          · rename_i hg; exact getAttr_cinv' hg (h3 _ _) hnc
                          · rename_i hg
                            exact allocate_cinv (getAttr_cinv' hg (h3 _ _) hnc) node hnp


theorem removeOp_cinv {s1 s2 : St} {n : Node} {name : Bytes} (heq : removeOp s1 n name = .ok s2) (h : CInv s1)
    (hd : CleanPath n.path) (hn : NoSep name) : CInv s2 := by
  unfold removeOp at heq
  split at heq
  · simp at heq
  · rename_i p hp
    have hpc : CleanPath p := by rw [sanitize_some hp]; exact .child n.path name hd hn
    split at heq
    · simp at heq
    · rename_i fs1 hrm
      simp only [Except.ok.injEq] at heq
      obtain ⟨hw1, hview, _⟩ := Fs.remove_frame hrm h.wf
      have hI1 : Lru.Inv (acInv { s1 with fs := fs1 } p).ac := acInv_lru (s := { s1 with fs := fs1 }) h.lru p
      rw [← heq]
      refine cinv_change_at h hpc hw1 hview rfl (acInv_lru hI1 n.path) ?_
      intro e he
      have he' : e ∈ (acInv (acInv { s1 with fs := fs1 } p) n.path).ac.entries := he
      have m1 := (acInv_mem hI1 he').1
      exact acInv_mem (s := { s1 with fs := fs1 }) h.lru m1

theorem procRemove_cinv (s : St) (c : Ctx) (args : Bytes) (h : CInv s) : CInv (procRemove s c args).1 := by
  unfold procRemove
  split
  · exact h
  · split
    · exact h
    · split
      · exact h
      · rename_i name _ _
        split
        · exact h
        · rename_i hv
          have hns : NoSep name := noSep_of_valid name (by simpa using hv)
          split
          · exact h
          · rename_i n hn
            have hnc := nodeOf_cleanI h hn
            split
            · exact h
            · split
              · rename_i heq; exact getAttr_cinv' heq h hnc
              · rename_i s1 pre heq
                have h1 := getAttr_cinv' heq h hnc
                split
                · exact getAttrOr_cinv h1 _ n pre hnc
                · rename_i s2 hro
                  have h2 := removeOp_cinv hro h1 hnc hns
                  split <;> (rename_i hg; exact getAttr_cinv' hg h2 hnc)

theorem procRmdir_cinv (s : St) (c : Ctx) (args : Bytes) (h : CInv s) : CInv (procRmdir s c args).1 := by
  unfold procRmdir
  split
  · exact h
  · split
    · exact h
    · split
      · exact h
      · rename_i name _ _
        split
        · exact h
        · rename_i hv
          have hpv : validateFilename name = 0 := by simpa using hv
          split
          · exact h
          · rename_i n hn
            have hnc := nodeOf_cleanI h hn
            have hpc : CleanPath (joinName n.path name) := joinName_clean n.path name hnc hpv
            split
            · exact h
            · split
              · rename_i heq; exact getAttr_cinv' heq h hnc
              · rename_i s1 pre heq
                have h1 := getAttr_cinv' heq h hnc
                simp only
                split
                · exact h1
                · split
                  · exact h1
                  · split
                    · exact getAttrOr_cinv h1 _ n pre hnc
                    · rename_i fs1 hrm
                      obtain ⟨hw1, hview, _⟩ := Fs.remove_frame hrm h1.wf
                      have hI1 : Lru.Inv (acInv { s1 with fs := fs1 } (joinName n.path name)).ac :=
                        acInv_lru (s := { s1 with fs := fs1 }) h1.lru _
                      have h2 : CInv (dcInv (dcInv (acInv (acInv { s1 with fs := fs1 } (joinName n.path name)) n.path) n.path)
                          (joinName n.path name)) := by
                        refine cinv_change_at h1 hpc hw1 hview rfl (acInv_lru hI1 n.path) ?_
                        intro e he
                        have he' : e ∈ (acInv (acInv { s1 with fs := fs1 } (joinName n.path name)) n.path).ac.entries := he
                        have m1 := (acInv_mem hI1 he').1
                        exact acInv_mem (s := { s1 with fs := fs1 }) h1.lru m1
                      split <;> (rename_i hg; exact getAttr_cinv' hg h2 hnc)

/-- the backend changed only at or below two names, and the entries at or below them were dropped -/
theorem cinv_change_under {s s2 : St} (h : CInv s) {p1 p2 : Bytes} (hp1 : CleanPath p1) (hp2 : CleanPath p2)
    (hw : Fs.WF s2.fs)
    (hview : ∀ q, ¬ fsPath p1 <+: q → ¬ fsPath p2 <+: q → Fs.viewAt s2.fs q = Fs.viewAt s.fs q)
    (hhs : s2.hs = s.hs) (hlru : Lru.Inv s2.ac)
    (hsub : ∀ e ∈ s2.ac.entries, e ∈ s.ac.entries ∧ Lru.underPrefix e.key p1 = false ∧ Lru.underPrefix e.key p2 = false)
    (hcfg : s2.cfg = s.cfg := by rfl) (hdci : DcI s2.dc := by dci_tac) : CInv s2 := by
  refine cinv_step h hhs hw hlru ?_ hcfg hdci
  intro e he
  obtain ⟨hm, hk1, hk2⟩ := hsub e he
  have hkc := h.keys e hm
  refine ⟨hm, hview _ ?_ ?_⟩
  · intro hpre
    rw [underPrefix_of_prefix hp1 hkc hpre] at hk1
    simp at hk1
  · intro hpre
    rw [underPrefix_of_prefix hp2 hkc hpre] at hk2
    simp at hk2

theorem renameOp_cinv {s2 s3 : St} {d1 d2 : Node} {n1 n2 : Bytes} (heq : renameOp s2 d1 n1 d2 n2 = .ok s3) (h : CInv s2)
    (hd1 : CleanPath d1.path) (hd2 : CleanPath d2.path) (hn1 : NoSep n1) (hn2 : NoSep n2) : CInv s3 := by
  unfold renameOp at heq
  split at heq
  · rename_i p1 p2 hp1 hp2
    have hpc1 : CleanPath p1 := by rw [sanitize_some hp1]; exact .child d1.path n1 hd1 hn1
    have hpc2 : CleanPath p2 := by rw [sanitize_some hp2]; exact .child d2.path n2 hd2 hn2
    split at heq
    · simp at heq
    · rename_i fs1 hrn
      simp only [Except.ok.injEq] at heq
      obtain ⟨hw1, hview⟩ := Fs.rename_frame hrn h.wf
      rw [← heq]
      -- the attribute cache after the invalidations
      let t0 : St := { s2 with fs := fs1 }
      have i1 : Lru.Inv (acInvPrefix t0 p1).ac := Lru.inv_invalidatePrefix h.lru p1
      have i2 : Lru.Inv (acInvPrefix (acInvPrefix t0 p1) p2).ac := Lru.inv_invalidatePrefix i1 p2
      have i3 := acInv_lru i2 d1.path
      have i4 := acInv_lru i3 d2.path
      have i5 : Lru.Inv (acInvNegIn (acInv (acInv (acInvPrefix (acInvPrefix t0 p1) p2) d1.path) d2.path) d1.path).ac :=
        Lru.inv_invalidateNegativeInDir i4 d1.path
      have i6 : Lru.Inv (acInvNegIn (acInvNegIn (acInv (acInv (acInvPrefix (acInvPrefix t0 p1) p2) d1.path) d2.path) d1.path) d2.path).ac :=
        Lru.inv_invalidateNegativeInDir i5 d2.path
      refine cinv_change_under h hpc1 hpc2 hw1 hview rfl i6 ?_
      intro e he
      have e6 : e ∈ (acInvNegIn (acInvNegIn (acInv (acInv (acInvPrefix (acInvPrefix t0 p1) p2) d1.path) d2.path) d1.path) d2.path).ac.entries := he
      have e5 := Lru.invalidateNegativeInDir_mem e6
      have e4 := Lru.invalidateNegativeInDir_mem e5
      have e3 := (acInv_mem i3 e4).1
      have e2 := (acInv_mem i2 e3).1
      obtain ⟨e1, k2⟩ := Lru.invalidatePrefix_mem e2
      obtain ⟨e0, k1⟩ := Lru.invalidatePrefix_mem e1
      exact ⟨e0, k1, k2⟩
  · simp at heq

theorem procRename_cinv (s : St) (c : Ctx) (args : Bytes) (h : CInv s) : CInv (procRename s c args).1 := by
  unfold procRename
  split
  · exact h
  · split
    · exact h
    · split
      · exact h
      · rename_i n1 _ _
        split
        · exact h
        · rename_i hv1
          have hns1 : NoSep n1 := noSep_of_valid n1 (by simpa using hv1)
          split
          · exact h
          · split
            · exact h
            · rename_i n2 _ _
              split
              · exact h
              · rename_i hv2
                have hns2 : NoSep n2 := noSep_of_valid n2 (by simpa using hv2)
                split
                · exact h
                · rename_i d1 hd1
                  have hc1 := nodeOf_cleanI h hd1
                  split
                  · exact h
                  · rename_i d2 hd2
                    have hc2 := nodeOf_cleanI h hd2
                    split
                    · rename_i heq; exact getAttr_cinv' heq h hc1
                    · rename_i s1 pre1 heq1
                      have h1 := getAttr_cinv' heq1 h hc1
                      split
                      · rename_i heq; exact getAttr_cinv' heq h1 hc2
                      · rename_i s2 pre2 heq2
                        have h2 := getAttr_cinv' heq2 h1 hc2
                        split
                        · exact getAttrOr_cinv (getAttrOr_cinv h2 _ d1 pre1 hc1) _ d2 pre2 hc2
                        · rename_i s3 hro
                          have h3 := renameOp_cinv hro h2 hc1 hc2 hns1 hns2
                          split
                          · rename_i hg; exact getAttr_cinv' hg h3 hc1
                          · rename_i hg
                            have h4 := getAttr_cinv' hg h3 hc1
                            split <;> (rename_i hg2; exact getAttr_cinv' hg2 h4 hc2)


/-! ### CREATE -/

theorem createOp_cinv {s : St} (h : CInv s) (now : Nat) (dir : Node) (name : Bytes) (perm : Nat) (hd : CleanPath dir.path)
    (hn : NoSep name) (hmiss : ∃ err, Fs.lstat s.fs (fsPath (joinName dir.path name)) = .error err) :
    CInv (createOp s now dir name perm).1 := by
  unfold createOp
  split
  · exact h
  · rename_i p hp
    have hpe := sanitize_some hp
    have hpc : CleanPath p := by rw [hpe]; exact .child dir.path name hd hn
    obtain ⟨err, herr⟩ := hmiss
    rw [← hpe] at herr
    have hwk := Fs.lstat_err_walk herr
    split
    · exact h
    · rename_i fs1 hcr
      obtain ⟨hw1, hview1, e, hwe, hke⟩ := Fs.create_new_frame hwk hcr h.wf
      have hnl : e.kind ≠ .link := by rw [hke]; decide
      split
      · rename_i e' hch
        obtain ⟨fs2, hok⟩ := Fs.chmod_ok_of_nonlink (perm := perm % 512) hwe hnl
        rw [hok] at hch
        simp at hch
      · rename_i fs2 hch
        obtain ⟨hw2, hview2⟩ := Fs.chmod_at_nonlink hwe hnl hch hw1
        have hsub := invalidateForNew_sub (s := { s with fs := fs2 }) h.lru dir.path p
        have h2 : CInv (invalidateForNew { s with fs := fs2 } dir.path p) :=
          cinv_change_at h hpc hw2 (fun q hq => (hview2 q hq).trans (hview1 q hq)) rfl hsub.1 hsub.2
        exact lookupPath_cinv h2 now p hpc

theorem createOp_cinv' {s s' : St} {now : Nat} {dir : Node} {name : Bytes} {perm : Nat} {r : Except Fs.Errno Node}
    (heq : createOp s now dir name perm = (s', r)) (h : CInv s) (hd : CleanPath dir.path) (hn : NoSep name)
    (hmiss : ∃ err, Fs.lstat s.fs (fsPath (joinName dir.path name)) = .error err) : CInv s' := by
  have := createOp_cinv h now dir name perm hd hn hmiss
  rw [heq] at this; exact this

theorem createOp_path {s s' : St} {now : Nat} {dir : Node} {name : Bytes} {perm : Nat} {node : Node}
    (h : createOp s now dir name perm = (s', .ok node)) : node.path = joinName dir.path name := by
  unfold createOp at h
  split at h
  · simp at h
  · rename_i p hp
    split at h
    · simp at h
    · split at h
      · simp at h
      · rw [lookupPath_path h, sanitize_some hp]

theorem rememberExclusive_cinv {s : St} (h : CInv s) (p verf : Bytes) : CInv (rememberExclusive s p verf) :=
  cinv_congr h rfl rfl rfl

theorem createNew_cinv (s1 : St) (c : Ctx) (n : Node) (pre : Attrs) (name : Bytes) (mode how : Nat) (sa : Sattr3) (verf : Bytes)
    (h1 : CInv s1) (hnc : CleanPath n.path) (hns : NoSep name)
    (hmiss : ∃ err, Fs.lstat s1.fs (fsPath (joinName n.path name)) = .error err) :
    CInv (createNew s1 c n pre name mode how sa verf).1 := by
  unfold createNew
  split
  · rename_i s2 st hco
    have h2 := createOp_cinv' hco h1 hnc hns hmiss
    exact getAttrOr_cinv h2 _ n pre hnc
  · rename_i s2 node hco
    have h2 := createOp_cinv' hco h1 hnc hns hmiss
    have hnp : CleanPath node.path := by rw [createOp_path hco]; exact .child n.path name hnc hns
    have h3 : CInv (if how = 2 then rememberExclusive s2 node.path verf else s2) := by
      split
      · exact rememberExclusive_cinv h2 _ _
      · exact h2
    have h4 := chownQuiet_cinv h3 node.path (ownerUid c sa) (ownerGid c sa)
    simp only
    split
    · rename_i hg; exact getAttr_cinv' hg h4 hnc
    · rename_i hg
      exact allocate_cinv (getAttr_cinv' hg h4 hnc) node hnp

theorem createStep1_cinv (s1 : St) (p : Bytes) (info : Fs.Info) (how : Nat) (sa : Sattr3) (verf : Bytes) (h1 : CInv s1)
    (hpc : CleanPath p) (hinfo : Fs.lstat s1.fs (fsPath p) = .ok info) : CInv (createStep1 s1 p info how sa verf).1 := by
  unfold createStep1
  split
  · exact h1
  · rename_i hfile
    split
    · exact h1
    · split
      · simp only
        split
        · exact acInv_cinv h1 p
        · split
          · exact acInv_cinv h1 p
          · split
            · exact acInv_cinv h1 p
            · rename_i fs1 htr
              obtain ⟨e, hwe, hie⟩ := Fs.lstat_ok_walk hinfo
              have hk : e.kind ≠ .link := by
                have : info.kind = .file := by
                  simp only [not_or, Decidable.not_not] at hfile
                  exact hfile.2
                have : e.kind = .file := by rw [← hie] at this; exact this
                rw [this]; decide
              obtain ⟨hw1, hview⟩ := Fs.truncate_at_nonlink hwe hk htr h1.wf
              exact cinv_change_at h1 hpc hw1 hview rfl (acInv_lru (s := { s1 with fs := fs1 }) h1.lru p)
                (fun e he => acInv_mem (s := { s1 with fs := fs1 }) h1.lru he)
      · exact h1

theorem createFinish_cinv (s2 : St) (st : Nat) (c : Ctx) (n : Node) (pre : Attrs) (p : Bytes) (h2 : CInv s2)
    (hnc : CleanPath n.path) (hpc : CleanPath p) : CInv (createFinish s2 st c n pre p).1 := by
  unfold createFinish
  split
  · exact getAttrOr_cinv h2 _ n pre hnc
  · split
    · rename_i hl
      exact getAttrOr_cinv (lookupPath_cinv' hl h2 hpc) _ n pre hnc
    · rename_i s3 node hl
      have h3 := lookupPath_cinv' hl h2 hpc
      have h4 := getAttrOr_cinv h3 c.now n pre hnc
      exact allocate_cinv h4 node (by rw [lookupPath_path hl]; exact hpc)

theorem procCreate_cinv (s : St) (c : Ctx) (args : Bytes) (h : CInv s) : CInv (procCreate s c args).1 := by
  unfold procCreate
  split
  · exact h
  · split
    · exact h
    · split
      · exact h
      · rename_i name _ _
        split
        · exact h
        · rename_i hv
          have hpv : validateFilename name = 0 := by simpa using hv
          have hns : NoSep name := noSep_of_valid name hpv
          split
          · exact h
          · split
            · exact h
            · simp only
              split
              · exact h
              · split
                · exact h
                · rename_i n hn
                  have hnc := nodeOf_cleanI h hn
                  have hpc : CleanPath (joinName n.path name) := joinName_clean n.path name hnc hpv
                  split
                  · rename_i heq; exact getAttr_cinv' heq h hnc
                  · rename_i s1 pre heq
                    have h1 := getAttr_cinv' heq h hnc
                    split
                    · rename_i info hinfo
                      unfold createExisting
                      exact createFinish_cinv _ _ c n pre _ (createStep1_cinv s1 _ info _ _ _ h1 hpc hinfo) hnc hpc
                    · rename_i err herr
                      exact createNew_cinv s1 c n pre name _ _ _ _ h1 hnc hns ⟨err, herr⟩


/-! ### WRITE and SETATTR -/

theorem updNodeAt_cinv {s : St} (h : CInv s) (hd : Nat) (f : Attrs → Attrs) : CInv (updNodeAt s hd f) := cinv_congr h rfl rfl rfl

/-- what GETATTR's pre-operation attributes say about the backend entry -/
theorem getAttr_pre_walk {s s1 : St} {now : Nat} {n : Node} {pre : Attrs} (heq : getAttr s now n = (s1, .ok pre)) :
    ∃ e, Fs.walk s1.fs (fsPath n.path) = .ok e ∧ e.kind = pre.kind := by
  obtain ⟨i, hi, ha⟩ := getAttr_ok heq
  obtain ⟨e, hwe, hie⟩ := Fs.lstat_ok_walk hi
  have hfs : s1.fs = s.fs := by have := getAttr_fs s now n; rw [heq] at this; exact this
  refine ⟨e, by rw [hfs]; exact hwe, ?_⟩
  rw [ha, ← hie]; rfl

theorem writeOp_cinv {s1 s2 : St} {hd : Nat} {n : Node} {off k : Nat} {data : Bytes} (heq : writeOp s1 hd n off data = .ok (s2, k))
    (h1 : CInv s1) (hnc : CleanPath n.path) {e : Fs.Entry} (hwe : Fs.walk s1.fs (fsPath n.path) = .ok e) (hk : e.kind ≠ .link) :
    CInv s2 := by
  unfold writeOp at heq
  split at heq
  · simp at heq
  · split at heq
    · simp at heq
    · rename_i fs1 kk hwa
      obtain ⟨hw1, hview⟩ := Fs.writeAt_at_nonlink hwe hk hwa h1.wf
      have h2 : CInv (acInv { s1 with fs := fs1 } n.path) :=
        cinv_change_at h1 hnc hw1 hview rfl (acInv_lru (s := { s1 with fs := fs1 }) h1.lru _)
          (fun e he => acInv_mem (s := { s1 with fs := fs1 }) h1.lru he)
      simp only at heq
      split at heq
      · simp only [Except.ok.injEq, Prod.mk.injEq] at heq
        rw [← heq.1]; exact h2
      · simp only [Except.ok.injEq, Prod.mk.injEq] at heq
        rw [← heq.1]; exact updNodeAt_cinv h2 _ _

theorem procWrite_cinv (s : St) (c : Ctx) (args : Bytes) (h : CInv s) : CInv (procWrite s c args).1 := by
  unfold procWrite
  split
  · exact h
  · split
    · exact h
    · split
      · exact h
      · split
        · exact h
        · split
          · exact h
          · split
            · exact h
            · split
              · exact h
              · split
                · exact h
                · split
                  · exact h
                  · split
                    · exact h
                    · split
                      · exact h
                      · split
                        · exact h
                        · rename_i n hn
                          have hnc := nodeOf_cleanI h hn
                          split
                          · rename_i heq; exact getAttr_cinv' heq h hnc
                          · rename_i s1 pre heq
                            have h1 := getAttr_cinv' heq h hnc
                            obtain ⟨e, hwe, hke⟩ := getAttr_pre_walk heq
                            split
                            · exact h1
                            · rename_i hnl
                              split
                              · exact getAttrOr_cinv h1 _ n pre hnc
                              · rename_i s2 k hwo
                                have h2 := writeOp_cinv hwo h1 hnc hwe (by rw [hke]; exact hnl)
                                split <;> (rename_i hg; exact getAttr_cinv' hg h2 hnc)

theorem setattrSize_cinv {s1 s2 : St} {hd : Nat} {n : Node} {pre : Attrs} {sz : Option Nat}
    (heq : setattrSize s1 hd n pre sz = .ok s2) (h1 : CInv s1) (hnc : CleanPath n.path)
    {e : Fs.Entry} (hwe : Fs.walk s1.fs (fsPath n.path) = .ok e) (hke : e.kind = pre.kind) : CInv s2 := by
  unfold setattrSize at heq
  split at heq
  · simp only [Except.ok.injEq] at heq; rw [← heq]; exact h1
  · split at heq
    · simp at heq
    · split at heq
      · simp at heq
      · split at heq
        · simp at heq
        · rename_i hnl
          split at heq
          · simp at heq
          · rename_i fs1 htr
            obtain ⟨hw1, hview⟩ := Fs.truncate_at_nonlink hwe (by rw [hke]; exact hnl) htr h1.wf
            have h2 : CInv (acInv { s1 with fs := fs1 } n.path) :=
              cinv_change_at h1 hnc hw1 hview rfl (acInv_lru (s := { s1 with fs := fs1 }) h1.lru _)
                (fun e he => acInv_mem (s := { s1 with fs := fs1 }) h1.lru he)
            simp only at heq
            split at heq
            · simp only [Except.ok.injEq] at heq; rw [← heq]; exact h2
            · simp only [Except.ok.injEq] at heq; rw [← heq]; exact updNodeAt_cinv h2 _ _


theorem setAttrOp_cinv (s : St) (hd : Nat) (n : Node) (a : Attrs) (timesSet : Bool) (h : CInv s) (hnc : CleanPath n.path) :
    CInv (setAttrOp s hd n a timesSet).1 := by
  unfold setAttrOp
  split
  · exact h
  · rename_i i hi
    obtain ⟨e, hwe, hie⟩ := Fs.lstat_ok_walk hi
    have hkind : e.kind = i.kind := by rw [← hie]; rfl
    simp only
    split
    · exact h
    · rename_i fs1 hr1
      -- what the optional chmod did
      have K1 : Fs.WF fs1 ∧ (∀ q, q ≠ fsPath n.path → Fs.viewAt fs1 q = Fs.viewAt s.fs q) ∧
          (¬ i.kind = .link → ∃ e1, Fs.walk fs1 (fsPath n.path) = .ok e1 ∧ e1.kind ≠ .link) ∧
          ((¬ (¬ i.kind = .link ∧ a.perm % 512 ≠ n.attrs.perm % 512)) → fs1 = s.fs) := by
        split at hr1
        · rename_i hc1
          have hnl : e.kind ≠ .link := by rw [hkind]; exact hc1.1
          obtain ⟨hw1, hv1⟩ := Fs.chmod_at_nonlink hwe hnl hr1 h.wf
          obtain ⟨e1, hwe1, hk1⟩ := Fs.chmod_nonlink_result hwe hnl hr1 h.wf
          exact ⟨hw1, hv1, fun _ => ⟨e1, hwe1, by rw [hk1]; exact hnl⟩, fun hc => absurd hc1 hc⟩
        · simp only [Except.ok.injEq] at hr1
          subst hr1
          exact ⟨h.wf, fun _ _ => rfl, fun hnl => ⟨e, hwe, by rw [hkind]; exact hnl⟩, fun _ => rfl⟩
      obtain ⟨hw1, hv1, hex1, hsame1⟩ := K1
      split
      · -- the ownership change failed
        rename_i e2 hr2
        by_cases hc1 : (¬ i.kind = .link ∧ a.perm % 512 ≠ n.attrs.perm % 512)
        · exfalso
          obtain ⟨e1, hwe1, hk1⟩ := hex1 hc1.1
          split at hr2
          · simp only [hc1.1, if_false] at hr2
            obtain ⟨fs2, hok⟩ := Fs.chown_ok_of_nonlink (uid := a.uid) (gid := a.gid) hwe1 hk1
            rw [hok] at hr2; simp at hr2
          · simp at hr2
        · rw [hsame1 hc1]; exact cinv_congr h rfl rfl rfl
      · rename_i fs2 hr2
        have K2 : Fs.WF fs2 ∧ (∀ q, Fs.viewAt fs2 q = Fs.viewAt fs1 q) ∧
            (¬ i.kind = .link → ∃ e2, Fs.walk fs2 (fsPath n.path) = .ok e2 ∧ e2.kind ≠ .link) := by
          split at hr2
          · split at hr2
            · obtain ⟨a1, a2⟩ := Fs.lchown_frame hr2 hw1
              rename_i hl
              exact ⟨a1, a2, fun hnl => absurd hl hnl⟩
            · obtain ⟨a1, a2⟩ := Fs.chown_frame hr2 hw1
              refine ⟨a1, a2, fun hnl => ?_⟩
              obtain ⟨e1, hwe1, hk1⟩ := hex1 hnl
              obtain ⟨e2, hwe2, hk2⟩ := Fs.chown_nonlink_result hwe1 hk1 hr2 hw1
              exact ⟨e2, hwe2, by rw [hk2]; exact hk1⟩
          · simp only [Except.ok.injEq] at hr2
            subst hr2
            exact ⟨hw1, fun _ => rfl, hex1⟩
        obtain ⟨hw2, hv2, hex2⟩ := K2
        split
        · -- Chtimes failed
          rename_i e3 hr3
          exfalso
          split at hr3
          · rename_i hc3
            obtain ⟨e2, hwe2, hk2⟩ := hex2 hc3.1
            rw [Fs.chtimes_ok_of_nonlink hwe2 hk2] at hr3
            simp at hr3
          · simp at hr3
        · exact cinv_change_at h hnc hw2 (fun q hq => (hv2 q).trans (hv1 q hq)) rfl
            (acInv_lru (s := updNodeAt { s with fs := fs2 } hd fun _ => a) h.lru _)
            (fun e he => acInv_mem (s := updNodeAt { s with fs := fs2 } hd fun _ => a) h.lru he)

theorem setAttrOp_cinv' {s s' : St} {hd : Nat} {n : Node} {a : Attrs} {ts : Bool} {r : Option Nat}
    (heq : setAttrOp s hd n a ts = (s', r)) (h : CInv s) (hnc : CleanPath n.path) : CInv s' := by
  have := setAttrOp_cinv s hd n a ts h hnc
  rw [heq] at this; exact this

theorem setattrApply_cinv (s2 : St) (c : Ctx) (hd : Nat) (sa : Sattr3) (pre : Attrs) (h2 : CInv s2) :
    CInv (setattrApply s2 c hd sa pre).1 := by
  unfold setattrApply
  split
  · exact h2
  · rename_i n2 hn2
    have hnc := nodeOf_cleanI h2 hn2
    simp only
    split
    · rename_i hso; exact setAttrOp_cinv' hso h2 hnc
    · rename_i hso
      have h3 := setAttrOp_cinv' hso h2 hnc
      split <;> (rename_i hg; exact getAttr_cinv' (n := { n2 with attrs := setattrTarget c sa n2.attrs }) hg h3 hnc)

theorem procSetattr_cinv (s : St) (c : Ctx) (args : Bytes) (h : CInv s) : CInv (procSetattr s c args).1 := by
  unfold procSetattr
  split
  · exact h
  · split
    · exact h
    · split
      · exact h
      · split
        · exact h
        · split
          · exact h
          · split
            · exact h
            · split
              · exact h
              · rename_i n hn
                have hnc := nodeOf_cleanI h hn
                split
                · rename_i heq; exact getAttr_cinv' heq h hnc
                · rename_i s1 pre heq
                  have h1 := getAttr_cinv' heq h hnc
                  obtain ⟨e, hwe, hke⟩ := getAttr_pre_walk heq
                  split
                  · exact h1
                  · split
                    · exact h1
                    · rename_i s2 hss
                      exact setattrApply_cinv s2 c _ _ pre (setattrSize_cinv hss h1 hnc hwe hke)


/-! ### every request -/

theorem handleNfs_cinv (s : St) (c : Ctx) (proc : Nat) (args : Bytes) (h : CInv s) : CInv (handleNfs s c proc args).1 := by
  unfold handleNfs
  split
  · exact h
  · exact procGetattr_cinv s c args h
  · exact procSetattr_cinv s c args h
  · exact procLookup_cinv s c args h
  · exact procAccess_cinv s c args h
  · exact procReadlink_cinv s c args h
  · exact procRead_cinv s c args h
  · exact procWrite_cinv s c args h
  · exact procCreate_cinv s c args h
  · exact procMkdir_cinv s c args h
  · exact procSymlink_cinv s c args h
  · exact h
  · exact procRemove_cinv s c args h
  · exact procRmdir_cinv s c args h
  · exact procRename_cinv s c args h
  · exact h
  · exact procReaddir_cinv s c args h
  · exact procReaddirplus_cinv s c args h
  · exact withObjAttr_cinv s c args _ h
  · exact withObjAttr_cinv s c args _ h
  · exact withObjAttr_cinv s c args _ h
  · exact procCommit_cinv s c args h
  · exact h

theorem handleMount_cinv (s : St) (c : Ctx) (proc : Nat) (args : Bytes) (h : CInv s) : CInv (handleMount s c proc args).1 := by
  unfold handleMount
  split
  · exact h
  · exact procMnt_cinv s c args h
  · exact h
  · split <;> exact h
  · exact h
  · exact h
  · exact h

/-- C02: whatever the request — any program, version, procedure, argument bytes, caller and time — the server
    stays in a state whose attribute cache agrees with the backend. -/
theorem handle_cinv (s : St) (c : Ctx) (prog vers proc : Nat) (args : Bytes) (h : CInv s) :
    CInv (handle s c prog vers proc args).1 := by
  unfold handle
  split
  · split
    · exact h
    · exact handleMount_cinv s c proc args h
  · split
    · split
      · exact h
      · exact handleNfs_cinv s c proc args h
    · exact h

/-- one request as data -/
structure Req where
  ctx : Ctx
  prog : Nat
  vers : Nat
  proc : Nat
  args : Bytes

def runReqs (s : St) : List Req → St
  | [] => s
  | r :: rs => runReqs (handle s r.ctx r.prog r.vers r.proc r.args).1 rs

/-- … and so after every history of requests -/
theorem runReqs_cinv (s : St) (rs : List Req) (h : CInv s) : CInv (runReqs s rs) := by
  induction rs generalizing s with
  | nil => exact h
  | cons r rs ih => exact ih _ (handle_cinv s r.ctx r.prog r.vers r.proc r.args h)

end Server
end Absnfs
