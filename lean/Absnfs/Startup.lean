/-
  Startup: which framing a server speaks, per documented way of starting it
  (operations.go: AbsfsNFS.Export; server.go: Server.Listen / StartWithPortmapper / acceptLoop).
-/
namespace Absnfs
namespace Startup

inductive Framing where
  | recordMarking   -- RFC 1831 §10: what every ONC RPC over TCP client speaks
  | raw
  deriving DecidableEq, Repr

inductive StartPath where
  | export                 -- AbsfsNFS.Export(mountPath, port): the documented quick start
  | listenRecordMarking    -- NewServer(ServerOptions{UseRecordMarking: true}) + Listen
  | listenDefault          -- NewServer(ServerOptions{}) + Listen (raw mode; documented as non-standard)
  | withPortmapper         -- Server.StartWithPortmapper
  deriving DecidableEq, Repr

/-- facts regenerated from the source -/
structure Facts where
  exportSetsRecordMarking : Bool          -- ServerOptions literal in Export has UseRecordMarking: true
  portmapperSetsRecordMarking : Bool      -- StartWithPortmapper assigns s.options.UseRecordMarking = true before Listen
  acceptLoopBranchesOnOption : Bool       -- acceptLoop: if s.options.UseRecordMarking { …WithRecordMarking } else { raw }

def ofOption (b : Bool) : Framing := if b then .recordMarking else .raw

/-- the framing of connections accepted after starting the server that way -/
def framing (f : Facts) : StartPath → Framing
  | .export => if f.acceptLoopBranchesOnOption then ofOption f.exportSetsRecordMarking else .raw
  | .listenRecordMarking => if f.acceptLoopBranchesOnOption then .recordMarking else .raw
  | .listenDefault => .raw
  | .withPortmapper => if f.acceptLoopBranchesOnOption then ofOption f.portmapperSetsRecordMarking else .raw

def documented : List StartPath := [.export, .listenRecordMarking, .withPortmapper]

end Startup
end Absnfs
