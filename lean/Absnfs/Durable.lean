/-
  Durable: the volatile/durable split of one regular file of a crash-prone backend (what `refbackend` with
  Sync/Crash implements), and what the server's WRITE (WriteAt, then Sync before the reply) and COMMIT (Sync)
  make of it.
-/
import Absnfs.Fs
namespace Absnfs
namespace Durable

structure File where
  data : Bytes       -- what reads see
  durable : Bytes    -- what a crash leaves
  deriving DecidableEq, Repr

/-- backend operations on the file -/
inductive Op where
  | writeAt (off : Nat) (w : Bytes)
  | truncate (n : Nat)
  | sync
  deriving Repr

def step (f : File) : Op → File
  | .writeAt off w => { f with data := Fs.writeBytes f.data off w }
  | .truncate n => { f with data := Fs.truncBytes f.data n }
  | .sync => { f with durable := f.data }

def run (f : File) (ops : List Op) : File := ops.foldl step f

/-- a crash discards everything not yet synced -/
def crash (f : File) : File := { f with data := f.durable }

def isSync : Op → Bool
  | .sync => true
  | _ => false

theorem run_append (f : File) (a b : List Op) : run f (a ++ b) = run (run f a) b := by
  simp [run, List.foldl_append]

theorem durable_unchanged_without_sync (f : File) (ops : List Op) (h : ∀ o ∈ ops, isSync o = false) :
    (run f ops).durable = f.durable := by
  induction ops generalizing f with
  | nil => rfl
  | cons o os ih =>
    simp only [run, List.foldl_cons]
    have ho := h o (List.mem_cons_self ..)
    have := ih (step f o) (fun x hx => h x (List.mem_cons_of_mem _ hx))
    simp only [run] at this
    rw [this]
    cases o <;> simp_all [step, isSync]

/-- Crash at any point: the file is exactly as it was at the last Sync, whatever was done since. -/
theorem crash_restores_last_sync (f : File) (pre post : List Op) (h : ∀ o ∈ post, isSync o = false) :
    (crash (run f (pre ++ [.sync] ++ post))).data = (run f pre).data := by
  rw [run_append, run_append]
  simp only [crash]
  rw [durable_unchanged_without_sync _ post h]
  simp [run, step]

/-- the server's WRITE as a backend sequence: WriteAt then Sync (fact `writeSyncsBeforeAck`); the reply is sent after -/
def srvWrite (off : Nat) (w : Bytes) : List Op := [.writeAt off w, .sync]
/-- the server's COMMIT: Sync (fact `commitSyncs`) -/
def srvCommit : List Op := [.sync]

/-- C22: once a WRITE has been acknowledged, a crash before any later Sync leaves exactly the contents that
    WRITE produced — the acknowledged payload included (byte level: `Fs.writeBytes_getD`). -/
theorem acked_write_survives (f : File) (pre : List Op) (off : Nat) (w : Bytes) (post : List Op)
    (h : ∀ o ∈ post, isSync o = false) :
    (crash (run f (pre ++ srvWrite off w ++ post))).data = Fs.writeBytes (run f pre).data off w := by
  have : pre ++ srvWrite off w ++ post = (pre ++ [.writeAt off w]) ++ [.sync] ++ post := by simp [srvWrite]
  rw [this, crash_restores_last_sync _ _ _ h, run_append]
  simp [run, step]

/-- C22: a successful COMMIT makes everything done before it (unsynced writes, truncations) crash-proof. -/
theorem commit_covers_everything_before (f : File) (pre post : List Op) (h : ∀ o ∈ post, isSync o = false) :
    (crash (run f (pre ++ srvCommit ++ post))).data = (run f pre).data := by
  simpa [srvCommit] using crash_restores_last_sync f pre post h

/-- later synced operations are the only way acknowledged bytes change: a crash never brings back older data
    than the last acknowledged state -/
theorem crash_after_sync_is_identity (f : File) (ops : List Op) :
    crash (run f (ops ++ [.sync])) = run f (ops ++ [.sync]) := by
  rw [run_append]
  simp [run, step, crash]

end Durable
end Absnfs
