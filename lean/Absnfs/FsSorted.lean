/-
  FsSorted: the backend's listing order. `bytesLt` is a strict total order on names; over a well-formed backend
  (no path stored twice) the names of a directory's children are distinct, so Readdir's insertion sort returns them
  strictly increasing; and two strictly increasing lists with the same members are the same list.
-/
import Absnfs.FsWF
namespace Absnfs
namespace Fs

theorem bytesLt_irrefl (a : Bytes) : bytesLt a a = false := by
  induction a with
  | nil => rfl
  | cons x xs ih => simp [bytesLt, ih]

theorem bytesLt_trans : ∀ (a b c : Bytes), bytesLt a b = true → bytesLt b c = true → bytesLt a c = true
  | [], [], _, h, _ => by simp [bytesLt] at h
  | [], _ :: _, [], _, h => by simp [bytesLt] at h
  | [], _ :: _, _ :: _, _, _ => by simp [bytesLt]
  | _ :: _, [], _, h, _ => by simp [bytesLt] at h
  | _ :: _, _ :: _, [], _, h => by simp [bytesLt] at h
  | x :: xs, y :: ys, z :: zs, h1, h2 => by
    unfold bytesLt at h1 h2 ⊢
    by_cases hxy : x < y
    · by_cases hyz : y < z
      · simp [UInt8.lt_trans hxy hyz]
      · simp only [hyz, if_false] at h2
        by_cases hzy : z < y
        · simp [hzy] at h2
        · have : y = z := UInt8.le_antisymm (UInt8.not_lt.mp hzy) (UInt8.not_lt.mp hyz)
          subst this; simp [hxy]
    · simp only [hxy, if_false] at h1
      by_cases hyx : y < x
      · simp [hyx] at h1
      · have hxy' : x = y := UInt8.le_antisymm (UInt8.not_lt.mp hyx) (UInt8.not_lt.mp hxy)
        subst hxy'
        simp only [hyx, if_false] at h1
        by_cases hxz : x < z
        · simp [hxz]
        · simp only [hxz, if_false] at h2 ⊢
          by_cases hzx : z < x
          · simp [hzx] at h2
          · simp only [hzx, if_false] at h2 ⊢
            exact bytesLt_trans xs ys zs h1 h2

theorem bytesLt_total : ∀ (a b : Bytes), a ≠ b → bytesLt a b = false → bytesLt b a = true
  | [], [], h, _ => absurd rfl h
  | [], _ :: _, _, h => by simp [bytesLt] at h
  | _ :: _, [], _, _ => by simp [bytesLt]
  | x :: xs, y :: ys, hne, h => by
    unfold bytesLt at h ⊢
    by_cases hxy : x < y
    · simp [hxy] at h
    · simp only [hxy, if_false] at h
      by_cases hyx : y < x
      · simp [hyx]
      · simp only [hyx, hxy, if_false] at h ⊢
        have : x = y := UInt8.le_antisymm (UInt8.not_lt.mp hyx) (UInt8.not_lt.mp hxy)
        subst this
        exact bytesLt_total xs ys (fun h' => hne (by rw [h'])) h

theorem bytesLt_asymm (a b : Bytes) (h : bytesLt a b = true) : bytesLt b a = false := by
  cases hb : bytesLt b a with
  | false => rfl
  | true =>
    have := bytesLt_trans a b a h hb
    rw [bytesLt_irrefl] at this
    simp at this

/-- strictly increasing names -/
def Increasing (l : List Name) : Prop := l.Pairwise fun a b => bytesLt a b = true

theorem Increasing.filter {l : List Name} (h : Increasing l) (p : Name → Bool) : Increasing (l.filter p) :=
  List.Pairwise.filter p h

theorem Increasing.nodup {l : List Name} (h : Increasing l) : l.Nodup := by
  refine List.Pairwise.imp ?_ h
  intro a b hab heq
  subst heq
  rw [bytesLt_irrefl] at hab
  simp at hab

/-- two strictly increasing lists with the same members are equal -/
theorem Increasing.ext : ∀ {l1 l2 : List Name}, Increasing l1 → Increasing l2 → (∀ x, x ∈ l1 ↔ x ∈ l2) → l1 = l2
  | [], [], _, _, _ => rfl
  | [], y :: ys, _, _, h => by have := (h y).mpr (List.mem_cons_self ..); simp at this
  | x :: xs, [], _, _, h => by have := (h x).mp (List.mem_cons_self ..); simp at this
  | x :: xs, y :: ys, h1, h2, h => by
    have h1' := List.pairwise_cons.mp h1
    have h2' := List.pairwise_cons.mp h2
    have hxy : x = y := by
      have hx := (h x).mp (List.mem_cons_self ..)
      have hy := (h y).mpr (List.mem_cons_self ..)
      rcases List.mem_cons.mp hx with e | hx'
      · exact e
      · rcases List.mem_cons.mp hy with e | hy'
        · exact e.symm
        · have a := h2'.1 x hx'
          have b := h1'.1 y hy'
          rw [bytesLt_asymm _ _ a] at b
          simp at b
    subst hxy
    congr 1
    refine Increasing.ext h1'.2 h2'.2 ?_
    intro z
    have hxn1 : x ∉ xs := fun hm => by have := h1'.1 x hm; rw [bytesLt_irrefl] at this; simp at this
    have hxn2 : x ∉ ys := fun hm => by have := h2'.1 x hm; rw [bytesLt_irrefl] at this; simp at this
    constructor
    · intro hz
      rcases List.mem_cons.mp ((h z).mp (List.mem_cons_of_mem _ hz)) with e | e
      · subst e; exact absurd hz hxn1
      · exact e
    · intro hz
      rcases List.mem_cons.mp ((h z).mpr (List.mem_cons_of_mem _ hz)) with e | e
      · subst e; exact absurd hz hxn2
      · exact e

theorem of_mem_insertSorted (a : Name × Entry) (l : List (Name × Entry)) (z : Name × Entry) :
    z ∈ insertSorted a l → z = a ∨ z ∈ l := by
  induction l with
  | nil => intro h; simp [insertSorted] at h; exact .inl h
  | cons b bs ih =>
    intro h
    unfold insertSorted at h
    split at h
    · simp only [List.mem_cons] at h
      rcases h with h | h | h
      · exact .inl h
      · exact .inr (by simp [h])
      · exact .inr (by simp [h])
    · simp only [List.mem_cons] at h
      rcases h with h | h
      · exact .inr (by simp [h])
      · rcases ih h with h2 | h2
        · exact .inl h2
        · exact .inr (by simp [h2])

theorem of_mem_sortByName {l : List (Name × Entry)} {z : Name × Entry} (h : z ∈ sortByName l) : z ∈ l := by
  induction l with
  | nil => simp [sortByName] at h
  | cons a as ih =>
    have : sortByName (a :: as) = insertSorted a (sortByName as) := rfl
    rw [this] at h
    rcases of_mem_insertSorted _ _ _ h with h1 | h1
    · simp [h1]
    · exact List.mem_cons_of_mem _ (ih h1)

theorem insertSorted_increasing (a : Name × Entry) (l : List (Name × Entry)) (h : Increasing (l.map (·.1)))
    (hn : a.1 ∉ l.map (·.1)) : Increasing ((insertSorted a l).map (·.1)) := by
  induction l with
  | nil => simp [insertSorted, Increasing]
  | cons b bs ih =>
    unfold Increasing at h
    simp only [List.map_cons, List.pairwise_cons] at h
    unfold insertSorted
    split
    · rename_i hab
      unfold Increasing
      simp only [List.map_cons, List.pairwise_cons, List.mem_cons]
      refine ⟨?_, h.1, h.2⟩
      intro z hz
      rcases hz with hz | hz
      · rw [hz]; exact hab
      · exact bytesLt_trans _ _ _ hab (h.1 z hz)
    · rename_i hab
      have hne : a.1 ≠ b.1 := by
        intro he; apply hn; simp [he]
      have hba : bytesLt b.1 a.1 = true := bytesLt_total _ _ hne (by simpa using hab)
      have hn' : a.1 ∉ bs.map (·.1) := by
        intro hm; apply hn; simp only [List.map_cons, List.mem_cons]; exact .inr hm
      have ih' := ih h.2 hn'
      unfold Increasing at ih' ⊢
      simp only [List.map_cons, List.pairwise_cons]
      refine ⟨?_, ih'⟩
      intro z hz
      obtain ⟨w, hw, hwz⟩ := List.mem_map.mp hz
      rcases of_mem_insertSorted _ _ _ hw with h1 | h1
      · rw [← hwz, h1]; exact hba
      · exact h.1 z (List.mem_map.mpr ⟨w, h1, hwz⟩)

theorem sortByName_increasing (l : List (Name × Entry)) (hn : (l.map (·.1)).Nodup) : Increasing ((sortByName l).map (·.1)) := by
  induction l with
  | nil => simp [sortByName, Increasing]
  | cons a as ih =>
    have : sortByName (a :: as) = insertSorted a (sortByName as) := rfl
    rw [this]
    simp only [List.map_cons, List.nodup_cons] at hn
    refine insertSorted_increasing a _ (ih hn.2) ?_
    intro hm
    obtain ⟨w, hw, hwa⟩ := List.mem_map.mp hm
    exact hn.1 (List.mem_map.mpr ⟨w, of_mem_sortByName hw, hwa⟩)

/-- over a backend that stores no path twice, a directory's children have distinct names -/
theorem children_names_nodup {fs : T} (h : NoDupKeys fs) (p : Path) : ((children fs p).map (·.1)).Nodup := by
  unfold children
  rw [List.map_filterMap]
  unfold NoDupKeys at h
  rw [List.nodup_iff_pairwise_ne, List.pairwise_map] at h
  rw [List.nodup_iff_pairwise_ne, List.pairwise_filterMap]
  refine List.Pairwise.imp ?_ h
  intro x y hxy b hb b' hb' hbb
  apply hxy
  obtain ⟨q, e⟩ := x
  obtain ⟨q', e'⟩ := y
  simp only [Option.map_eq_some_iff] at hb hb'
  obtain ⟨v, hv, hvb⟩ := hb
  obtain ⟨v', hv', hvb'⟩ := hb'
  split at hv
  · rename_i hc
    split at hv'
    · rename_i hc'
      simp only [Option.some.injEq] at hv hv'
      have hq : q = p ++ [q.getLast!] := by
        have hne : q ≠ [] := by intro h0; rw [h0] at hc; simp at hc
        have h1 := List.take_append_drop p.length q
        have hlen : (q.drop p.length).length = 1 := by simp [hc.1]
        match hd : q.drop p.length, hlen with
        | [y], _ =>
          have h2 : q = q.take p.length ++ [y] := by rw [← hd]; exact h1.symm
          have : q.getLast! = y := by rw [h2]; simp
          rw [this, ← hc.2]; exact h2
      have hq' : q' = p ++ [q'.getLast!] := by
        have hne : q' ≠ [] := by intro h0; rw [h0] at hc'; simp at hc'
        have h1 := List.take_append_drop p.length q'
        have hlen : (q'.drop p.length).length = 1 := by simp [hc'.1]
        match hd : q'.drop p.length, hlen with
        | [y], _ =>
          have h2 : q' = q'.take p.length ++ [y] := by rw [← hd]; exact h1.symm
          have : q'.getLast! = y := by rw [h2]; simp
          rw [this, ← hc'.2]; exact h2
      have e1 : q.getLast! = b := by rw [← hvb, ← hv]
      have e2 : q'.getLast! = b' := by rw [← hvb', ← hv']
      show q = q'
      rw [hq, hq', e1, e2, hbb]
    · simp at hv'
  · simp at hv

/-- Readdir's names are strictly increasing -/
theorem sorted_children_increasing {fs : T} (hw : WF fs) (p : Path) :
    Increasing ((sortByName (children fs p)).map (·.1)) :=
  sortByName_increasing _ (children_names_nodup hw.2 p)

end Fs
end Absnfs
