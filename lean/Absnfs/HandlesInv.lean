/-
  HandlesInv: the inductive invariant of the handle table and its preservation by every operation.
-/
import Absnfs.Handles
namespace Absnfs
namespace Handles

structure Inv (dm : Nat) (s : St) : Prop where
  idsNodup : (ids s.live).Nodup
  pathsNodup : (paths s.live).Nodup
  noEmpty : ([] : Bytes) ∉ paths s.live
  liveLt : ∀ i ∈ ids s.live, i < s.next
  freeLt : ∀ f ∈ s.free, f < s.next
  freeNodup : s.free.Nodup
  disjoint : ∀ f ∈ s.free, f ∉ ids s.live
  bounded : s.live.length ≤ effMax dm s.maxRaw

theorem effMax_pos (dm : Nat) (raw : Int) (h : 0 < dm) : 0 < effMax dm raw := by
  unfold effMax; split
  · exact h
  · omega

theorem evictCount_pos (m d : Nat) : 0 < evictCount m d := by
  unfold evictCount; split <;> omega

theorem inv_init (dm : Nat) (raw : Int) : Inv dm (init raw) := by
  constructor <;> simp [init, ids, paths]

theorem unique_of_nodup_ids {l : List (Nat × Bytes)} {a : Nat} {b c : Bytes}
    (hnd : (ids l).Nodup) (h1 : (a, b) ∈ l) (h2 : (a, c) ∈ l) : b = c := by
  induction l with
  | nil => simp at h1
  | cons x xs ih =>
    simp only [ids, List.map_cons, List.nodup_cons] at hnd
    simp only [List.mem_cons] at h1 h2
    rcases h1 with h1 | h1 <;> rcases h2 with h2 | h2
    · rw [← h1] at h2; exact (Prod.mk.inj h2).2.symm ▸ rfl
    · exfalso; apply hnd.1; rw [← h1]; exact List.mem_map_of_mem (f := (·.1)) h2
    · exfalso; apply hnd.1; rw [← h2]; exact List.mem_map_of_mem (f := (·.1)) h1
    · exact ih hnd.2 h1 h2

theorem unique_of_nodup_paths {l : List (Nat × Bytes)} {a c : Nat} {b : Bytes}
    (hnd : (paths l).Nodup) (h1 : (a, b) ∈ l) (h2 : (c, b) ∈ l) : a = c := by
  induction l with
  | nil => simp at h1
  | cons x xs ih =>
    simp only [paths, List.map_cons, List.nodup_cons] at hnd
    simp only [List.mem_cons] at h1 h2
    rcases h1 with h1 | h1 <;> rcases h2 with h2 | h2
    · rw [← h1] at h2; exact (Prod.mk.inj h2).1.symm ▸ rfl
    · exfalso; apply hnd.1; rw [← h1]; exact List.mem_map_of_mem (f := (·.2)) h2
    · exfalso; apply hnd.1; rw [← h2]; exact List.mem_map_of_mem (f := (·.2)) h1
    · exact ih hnd.2 h1 h2

theorem get_eq_some_iff {s : St} (hnd : (ids s.live).Nodup) (h : Nat) (p : Bytes) :
    get s h = some p ↔ (h, p) ∈ s.live := by
  unfold get
  constructor
  · intro hg
    cases hf : s.live.find? (·.1 == h) with
    | none => rw [hf] at hg; simp at hg
    | some x =>
      rw [hf] at hg
      simp at hg
      have hm := List.mem_of_find?_eq_some hf
      have hp := List.find?_some hf
      simp at hp
      have : x = (h, p) := by rw [← hp, ← hg]
      rw [← this]; exact hm
  · intro hm
    cases hf : s.live.find? (·.1 == h) with
    | none =>
      have := List.find?_eq_none.mp hf (h, p) hm
      simp at this
    | some x =>
      have hm' := List.mem_of_find?_eq_some hf
      have hp := List.find?_some hf
      simp at hp
      have hx : x = (x.1, x.2) := rfl
      rw [hx, hp] at hm'
      simp [unique_of_nodup_ids hnd hm' hm]

theorem handleOf_eq_some_iff {s : St} (hnd : (paths s.live).Nodup) (h : Nat) (p : Bytes) :
    handleOf s p = some h ↔ (h, p) ∈ s.live := by
  unfold handleOf
  constructor
  · intro hg
    cases hf : s.live.find? (·.2 == p) with
    | none => rw [hf] at hg; simp at hg
    | some x =>
      rw [hf] at hg
      simp at hg
      have hm := List.mem_of_find?_eq_some hf
      have hp := List.find?_some hf
      simp at hp
      have : x = (h, p) := by rw [← hp, ← hg]
      rw [← this]; exact hm
  · intro hm
    cases hf : s.live.find? (·.2 == p) with
    | none =>
      have := List.find?_eq_none.mp hf (h, p) hm
      simp at this
    | some x =>
      have hm' := List.mem_of_find?_eq_some hf
      have hp := List.find?_some hf
      simp at hp
      have hx : x = (x.1, x.2) := rfl
      rw [hx, hp] at hm'
      simp [unique_of_nodup_paths hnd hm' hm]

theorem handleOf_none {s : St} {p : Bytes} (h : handleOf s p = none) : p ∉ paths s.live := by
  unfold handleOf at h
  simp at h
  intro hin
  obtain ⟨x, hx, hxp⟩ := List.mem_map.mp hin
  have := h x.1 x.2 (by simpa using hx)
  exact this hxp

/-- Facts about the id chosen for a new entry. -/
theorem pick_spec {dm : Nat} {s : St} (hI : Inv dm s) :
    (pick s).1 ∉ ids s.live ∧ (pick s).1 < (pick s).2.2 ∧ s.next ≤ (pick s).2.2 ∧
    (pick s).2.1.Nodup ∧ (pick s).1 ∉ (pick s).2.1 ∧
    (∀ f ∈ (pick s).2.1, f ∈ s.free) := by
  unfold pick
  split
  · rename_i m hm
    have hmem := listMin_mem hm
    refine ⟨hI.disjoint m hmem, hI.freeLt m hmem, Nat.le_refl _, hI.freeNodup.erase m, ?_, ?_⟩
    · intro h; exact ((List.Nodup.mem_erase_iff hI.freeNodup).mp h).1 rfl
    · intro f hf; exact List.mem_of_mem_erase hf
  · rename_i hnone
    have := listMin_none hnone
    refine ⟨?_, Nat.lt_succ_self _, Nat.le_succ _, hI.freeNodup, ?_, fun f hf => hf⟩
    · intro h; exact Nat.lt_irrefl _ (hI.liveLt _ h)
    · rw [this]; simp

theorem inv_alloc (dm dv : Nat) (hdm : 0 < dm) (s : St) (p : Bytes) (hp : p ≠ []) (hI : Inv dm s) :
    Inv dm (alloc dm dv s p).1 := by
  unfold alloc
  rw [if_neg hp]
  split
  · exact hI
  · rename_i hnone
    have hpn := handleOf_none hnone
    obtain ⟨hk1, hk2, hk3, hk4, hk5, hk6⟩ := pick_spec hI
    -- the table after insertion, before eviction
    have ids1 : (ids (((pick s).1, p) :: s.live)).Nodup := by
      simp only [ids, List.map_cons, List.nodup_cons]; exact ⟨hk1, hI.idsNodup⟩
    have paths1 : (paths (((pick s).1, p) :: s.live)).Nodup := by
      simp only [paths, List.map_cons, List.nodup_cons]; exact ⟨hpn, hI.pathsNodup⟩
    have noEmpty1 : ([] : Bytes) ∉ paths (((pick s).1, p) :: s.live) := by
      simp only [paths, List.map_cons, List.mem_cons, not_or]
      exact ⟨fun h => hp h.symm, hI.noEmpty⟩
    have lt1 : ∀ i ∈ ids (((pick s).1, p) :: s.live), i < (pick s).2.2 := by
      intro i hi
      simp only [ids, List.map_cons, List.mem_cons] at hi
      rcases hi with rfl | hi
      · exact hk2
      · exact Nat.lt_of_lt_of_le (hI.liveLt i hi) hk3
    simp only
    split
    · -- eviction
      rename_i hgt
      have hsub := evictN_sublist (evictCount (effMax dm s.maxRaw) dv) (pick s).1 (((pick s).1, p) :: s.live)
      have hvic := evictN_victims (evictCount (effMax dm s.maxRaw) dv) (pick s).1 (((pick s).1, p) :: s.live)
      obtain ⟨hg1, hg2⟩ := evictN_victims_gone (evictCount (effMax dm s.maxRaw) dv) (pick s).1
        (((pick s).1, p) :: s.live) ids1
      constructor
      · exact ids1.sublist (hsub.map _)
      · exact paths1.sublist (hsub.map _)
      · intro h; exact noEmpty1 ((hsub.map (·.2)).subset h)
      · intro i hi; exact lt1 i ((hsub.map (·.1)).subset hi)
      · intro f hf
        simp only [List.mem_append] at hf
        rcases hf with hf | hf
        · exact Nat.lt_of_lt_of_le (hI.freeLt f (hk6 f hf)) hk3
        · exact lt1 f (hvic f hf).2
      · simp only
        apply List.nodup_append.mpr
        refine ⟨hk4, hg2, ?_⟩
        intro a ha b hb hab
        subst hab
        have := (hvic a hb)
        simp only [ids, List.map_cons, List.mem_cons] at this
        rcases this.2 with h | h
        · exact this.1 h
        · exact hI.disjoint a (hk6 a ha) h
      · intro f hf
        simp only [List.mem_append] at hf
        rcases hf with hf | hf
        · intro hin
          have hin1 := (hsub.map (·.1)).subset hin
          simp only [List.map_cons, List.mem_cons] at hin1
          rcases hin1 with h | h
          · exact hk5 (h ▸ hf)
          · exact hI.disjoint f (hk6 f hf) h
        · exact hg1 f hf
      · -- bounded: at least one entry other than the new one is evicted
        simp only
        have hpos := evictCount_pos (effMax dm s.maxRaw) dv
        obtain ⟨k, hk⟩ : ∃ k, evictCount (effMax dm s.maxRaw) dv = k + 1 := ⟨_, (Nat.succ_pred_eq_of_pos hpos).symm⟩
        rw [hk]
        have hmaxpos := effMax_pos dm s.maxRaw hdm
        have hb := hI.bounded
        simp only [List.length_cons] at hgt
        have hne : s.live ≠ [] := by
          intro h; rw [h] at hgt; simp at hgt; omega
        obtain ⟨y, hy⟩ := List.exists_mem_of_ne_nil _ hne
        have hlt := evictN_length_lt k (pick s).1 (((pick s).1, p) :: s.live)
          ⟨y, List.mem_cons_of_mem _ hy, by
            intro h; apply hk1; rw [← h]; exact List.mem_map_of_mem (f := (·.1)) hy⟩
        simp only [List.length_cons] at hlt
        omega
    · rename_i hle
      constructor
      · exact ids1
      · exact paths1
      · exact noEmpty1
      · exact lt1
      · intro f hf; exact Nat.lt_of_lt_of_le (hI.freeLt f (hk6 f hf)) hk3
      · exact hk4
      · intro f hf hin
        simp only [ids, List.map_cons, List.mem_cons] at hin
        rcases hin with h | h
        · exact hk5 (h ▸ hf)
        · exact hI.disjoint f (hk6 f hf) h
      · simp only; omega

theorem inv_release (dm : Nat) (s : St) (h : Nat) (hI : Inv dm s) : Inv dm (release s h) := by
  unfold release
  split
  · rename_i hany
    have hin : h ∈ ids s.live := by
      simp only [List.any_eq_true] at hany
      obtain ⟨x, hx, hxh⟩ := hany
      have : x.1 = h := by simpa using hxh
      rw [← this]; exact List.mem_map_of_mem (f := (·.1)) hx
    have hsub : (s.live.eraseP (·.1 == h)).Sublist s.live := List.eraseP_sublist
    have hgone : h ∉ ids (s.live.eraseP (·.1 == h)) := by
      rw [ids_eraseP]; intro hh; exact ((List.Nodup.mem_erase_iff hI.idsNodup).mp hh).1 rfl
    constructor
    · exact hI.idsNodup.sublist (hsub.map _)
    · exact hI.pathsNodup.sublist (hsub.map _)
    · intro hh; exact hI.noEmpty ((hsub.map (·.2)).subset hh)
    · intro i hi; exact hI.liveLt i ((hsub.map (·.1)).subset hi)
    · intro f hf
      simp only [List.mem_append, List.mem_singleton] at hf
      rcases hf with hf | rfl
      · exact hI.freeLt f hf
      · exact hI.liveLt _ hin
    · apply List.nodup_append.mpr
      refine ⟨hI.freeNodup, by simp, ?_⟩
      intro a ha b hb hab
      simp only [List.mem_singleton] at hb
      subst hab; subst hb
      exact hI.disjoint _ ha hin
    · intro f hf
      simp only [List.mem_append, List.mem_singleton] at hf
      rcases hf with hf | rfl
      · intro hh; exact hI.disjoint f hf ((hsub.map (·.1)).subset hh)
      · exact hgone
    · exact Nat.le_trans hsub.length_le hI.bounded
  · exact hI

theorem inv_releaseAll (dm : Nat) (s : St) (hI : Inv dm s) : Inv dm (releaseAll s) := by
  constructor <;> simp [releaseAll, ids, paths]

def Op.WF : Op → Prop
  | .alloc p => p ≠ []
  | _ => True

theorem inv_step (dm dv : Nat) (hdm : 0 < dm) (s : St) (op : Op) (hw : op.WF) (hI : Inv dm s) :
    Inv dm (step dm dv s op) := by
  cases op with
  | alloc p => exact inv_alloc dm dv hdm s p hw hI
  | release h => exact inv_release dm s h hI
  | releaseAll => exact inv_releaseAll dm s hI

theorem inv_run (dm dv : Nat) (hdm : 0 < dm) (s : St) (ops : List Op) (hw : ∀ op ∈ ops, op.WF)
    (hI : Inv dm s) : Inv dm (run dm dv s ops) := by
  induction ops generalizing s with
  | nil => exact hI
  | cons op ops ih =>
    simp only [run, List.foldl_cons]
    exact ih _ (fun o ho => hw o (List.mem_cons_of_mem _ ho))
      (inv_step dm dv hdm s op (hw op (List.mem_cons_self ..)) hI)

end Handles
end Absnfs
