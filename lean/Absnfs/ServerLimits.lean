/-
  ServerLimits: MaxFileSize (C25) — the guards of WRITE, SETATTR and CREATE in the server model.
-/
import Absnfs.ServerData
import Absnfs.ServerCreate
namespace Absnfs
namespace Server

theorem exceedsMax_false_iff (c : Cfg) (size : Nat) :
    exceedsMax c size = false ↔ (c.maxFileSize ≤ 0 ∨ (size : Int) ≤ c.maxFileSize) := by
  unfold exceedsMax
  simp only [decide_eq_false_iff_not, not_and, Int.not_lt]
  constructor
  · intro h
    by_cases hp : c.maxFileSize > 0
    · exact .inr (h hp)
    · exact .inl (by omega)
  · rintro (h | h) hp
    · omega
    · exact h

/-- WRITE: a request that would end beyond the limit is refused with NFS3ERR_FBIG before anything is touched. -/
theorem procWrite_fbig (s : St) (c : Ctx) (args : Bytes) (h off cnt stable dlen : Nat) (r1 r2 r3 r4 r5 : Bytes)
    (hro : s.cfg.readOnly = false) (hfh : decFh' s args = some (h, r1)) (hoff : decU64 r1 = some (off, r2))
    (hcnt : decU32 r2 = some (cnt, r3)) (hst : decU32 r3 = some (stable, r4)) (hov : ¬ off + cnt ≥ u64Max)
    (hdl : decU32 r4 = some (dlen, r5)) (heq : dlen = cnt) (htr : ¬ cnt > s.cfg.transfer)
    (hbig : exceedsMax s.cfg (off + cnt) = true) :
    procWrite s c args = (s, res 27 (.wcc wcc0)) := by
  unfold procWrite
  simp [hro, hfh, hoff, hcnt, hst, hov, hdl, heq, htr, hbig]

/-- WRITE that succeeds ends within the limit, so the file is at most max(old size, MaxFileSize) long. -/
theorem write_ok_within_limit (s s' : St) (c : Ctx) (args : Bytes) (w : Rfc.Wcc) (k com : Nat) (verf : Bytes)
    (h : procWrite s c args = (s', .res ⟨0, .writeOk w k com verf⟩)) (hmax : s.cfg.maxFileSize > 0) :
    ∃ (off : Nat) (data : Bytes) (q : Fs.Path) (e : Fs.Entry),
      ((off + data.length : Nat) : Int) ≤ s.cfg.maxFileSize ∧
      (data = [] → s'.fs = s.fs) ∧
      (data ≠ [] → s'.fs = Fs.set s.fs q { e with data := Fs.writeBytes e.data off data } ∧
        ((Fs.writeBytes e.data off data).length : Int) ≤ max (e.data.length : Int) s.cfg.maxFileSize) := by
  obtain ⟨hd, off, cnt, stable, dlen, r1, r2, r3, r4, r5, rest, data, n, fs1, _, _, _, _, _, htake, _, _, hmaxok, _, hn, hwa, hfs, _, _⟩ :=
    (procWrite_ok s s' c args w k com verf h).ex
  obtain ⟨_, q, e, _, _, hempty, hne⟩ := writeAt_ok hwa
  have hlen : data.length = cnt := (take?_some htake).2
  have hle : ((off + cnt : Nat) : Int) ≤ s.cfg.maxFileSize := by
    rcases (exceedsMax_false_iff s.cfg (off + cnt)).mp hmaxok with h0 | h0
    · omega
    · exact h0
  refine ⟨off, data, q, e, by rw [hlen]; exact hle, fun h0 => by rw [hfs]; exact hempty h0, fun h0 => ⟨by rw [hfs]; exact hne h0, ?_⟩⟩
  rw [Fs.writeBytes_length _ _ _ h0, hlen]
  omega

/-- CREATE with an explicit size over an existing file: a size beyond the limit is refused (FBIG) and nothing
    is touched; a size that is applied is within the limit. -/
theorem createStep1_limit (s1 : St) (p : Bytes) (info : Fs.Info) (how : Nat) (sa : Sattr3) (verf : Bytes) (sz : Nat)
    (hsz : sa.size = some sz) (hbig : exceedsMax s1.cfg sz = true) :
    (createStep1 s1 p info how sa verf).1.fs = s1.fs := by
  unfold createStep1
  split
  · rfl
  · split
    · rfl
    · split
      · simp only [hsz, Option.getD_some, hbig, if_true]
        split <;> rfl
      · rfl

theorem createExisting_limit (s1 : St) (c : Ctx) (n : Node) (pre : Attrs) (p : Bytes) (info : Fs.Info) (how : Nat)
    (sa : Sattr3) (verf : Bytes) (sz : Nat) (hsz : sa.size = some sz) (hbig : exceedsMax s1.cfg sz = true) :
    (createExisting s1 c n pre p info how sa verf).1.fs = s1.fs := by
  unfold createExisting
  rw [createFinish_fs]
  exact createStep1_limit s1 p info how sa verf sz hsz hbig

/-- SETATTR: a size beyond the limit is refused with NFS3ERR_FBIG and nothing is touched — for every
    well-formed request on a live handle. -/
theorem procSetattr_fbig (s : St) (c : Ctx) (args : Bytes) (h : Nat) (r1 r2 r3 : Bytes) (sa : Sattr3) (sz : Nat) (n : Node)
    (s1 : St) (pre : Attrs)
    (hro : s.cfg.readOnly = false) (hfh : decFh' s args = some (h, r1)) (hsa : decSattr3 r1 = some (sa, r2))
    (hguard : decU32 r2 = some (0, r3)) (hmode : badModeBit sa = false)
    (hn : nodeOf s h = some n) (hpre : getAttr s c.now n = (s1, .ok pre))
    (hsz : sa.size = some sz) (hle : sz ≤ maxInt64) (hbig : exceedsMax s.cfg sz = true) :
    procSetattr s c args = (s1, res 27 (.wcc wcc0)) ∧ s1.fs = s.fs := by
  have hcfg : s1.cfg = s.cfg := by have := getAttr_cfg s c.now n; rw [hpre] at this; exact this
  refine ⟨?_, by have := getAttr_fs s c.now n; rw [hpre] at this; exact this⟩
  unfold procSetattr
  simp only [hro, Bool.false_eq_true, if_false, hfh, hsa, hguard, guardDecodes, decide_true, Bool.true_or, not_true_eq_false, hmode, hn, hpre,
    ne_eq, hsz]
  have h1 : ¬ sz > maxInt64 := by omega
  simp [setattrSize, h1, hcfg, hbig]

end Server
end Absnfs
