/-
  ServerLookup: LOOKUP succeeds exactly when the backend has the path (C02's cache transparency at handler
  level, both directions).
-/
import Absnfs.ServerAttrs2
import Absnfs.ServerFailed
namespace Absnfs
namespace Server

/-- LOOKUP never hides an object the backend has: with a coherent cache, a LOOKUP through a directory handle of a
    valid name whose path the backend's Lstat finds is answered NFS3_OK (no stale negative entry, no stale
    attribute entry can turn it into an error). -/
theorem procLookup_complete (s : St) (c : Ctx) (args : Bytes) (hd : Nat) (r1 name r2 : Bytes) (n : Node) (i : Fs.Info)
    (hc : AcCoherent s) (hfh : decFh' s args = some (hd, r1)) (hname : decStr s r1 = some (name, r2))
    (hv : validateFilename name = 0) (hn : nodeOf s hd = some n) (hdir : n.attrs.kind = .dir)
    (hi : Fs.lstat s.fs (fsPath (joinName n.path name)) = .ok i) :
    ∃ s' fh fa da, procLookup s c args = (s', .res ⟨0, .lookupOk fh (some fa) da⟩) := by
  unfold procLookup
  simp only [hfh, hname, hv, ne_eq, not_true_eq_false, if_false, hn, hdir]
  have hne : joinName n.path name ≠ [] := by unfold joinName; split <;> simp
  cases hl : lookupPath s c.now (joinName n.path name) with
  | mk s1 r =>
    cases r with
    | error e => exact (lookupPath_not_error hc hne hi hl).elim
    | ok ln => exact ⟨_, _, _, _, rfl⟩

/-- … and never invents one: an OK answer means the backend has the path (restated from `procLookup_matches`);
    together: after any history, LOOKUP of a valid name through a live directory handle succeeds exactly when the
    backend has the path — whatever the caches hold. -/
theorem procLookup_iff_backend (s0 : St) (rs : List Req) (h0 : CInv s0) (c : Ctx) (args : Bytes) (hd : Nat) (r1 name r2 : Bytes)
    (n : Node) (hfh : decFh' (runReqs s0 rs) args = some (hd, r1)) (hname : decStr (runReqs s0 rs) r1 = some (name, r2))
    (hv : validateFilename name = 0) (hn : nodeOf (runReqs s0 rs) hd = some n) (hdir : n.attrs.kind = .dir) :
    (∃ s' fh fa da, procLookup (runReqs s0 rs) c args = (s', .res ⟨0, .lookupOk fh (some fa) da⟩)) ↔
    (∃ i, Fs.lstat (runReqs s0 rs).fs (fsPath (joinName n.path name)) = .ok i) := by
  have hc := (runReqs_cinv s0 rs h0).coh
  constructor
  · rintro ⟨s', fh, fa, da, heq⟩
    obtain ⟨hd', r1', name', r2', n', a, e1, e2, e3, hm, _⟩ := procLookup_matches _ s' c args fh fa da hc heq
    rw [hfh] at e1
    simp only [Option.some.injEq, Prod.mk.injEq] at e1
    obtain ⟨rfl, rfl⟩ := e1
    rw [hname] at e2
    simp only [Option.some.injEq, Prod.mk.injEq] at e2
    obtain ⟨rfl, rfl⟩ := e2
    rw [hn] at e3
    simp only [Option.some.injEq] at e3
    subst e3
    obtain ⟨i, hi, _⟩ := hm
    exact ⟨i, hi⟩
  · rintro ⟨i, hi⟩
    exact procLookup_complete _ c args hd r1 name r2 n i hc hfh hname hv hn hdir hi

end Server
end Absnfs
