/-
  ServerOwner: who ends up owning what (C11).
-/
import Absnfs.ServerReadOnly
import Absnfs.FsLemmas
namespace Absnfs
namespace Server
open Fs (ownerAt)

theorem nonroot_owner (c : Ctx) (sa : Sattr3) (h : c.uid ≠ 0) : ownerUid c sa = c.uid ∧ ownerGid c sa = c.gid := by
  unfold ownerUid ownerGid
  constructor <;> split <;> simp [h]

theorem root_owner (c : Ctx) (sa : Sattr3) (h : c.uid = 0) :
    ownerUid c sa = sa.uid.getD c.uid ∧ ownerGid c sa = sa.gid.getD c.gid := by
  unfold ownerUid ownerGid
  constructor
  · cases sa.uid <;> simp [h]
  · cases sa.gid <;> simp [h]

theorem setattrTarget_nonroot (c : Ctx) (sa : Sattr3) (a0 : Attrs) (h : c.uid ≠ 0) :
    (setattrTarget c sa a0).uid = a0.uid ∧ (setattrTarget c sa a0).gid = a0.gid := by
  unfold setattrTarget
  simp only [h, if_false]
  constructor <;> (repeat' split) <;> rfl

/-- SetAttr with unchanged uid/gid never calls Chown / Lchown: every owner in the backend stays -/
theorem setAttrOp_same_owner (s : St) (h : Nat) (n : Node) (a : Attrs) (ts : Bool)
    (hu : a.uid = n.attrs.uid) (hg : a.gid = n.attrs.gid) (q : Fs.Path) :
    ownerAt (setAttrOp s h n a ts).1.fs q = ownerAt s.fs q := by
  unfold setAttrOp
  split
  · rfl
  · simp only [hu, hg, ne_eq, not_true_eq_false, or_self, if_false]
    split
    · rename_i hch
      split at hch
      · -- chmod failed
        rfl
      · cases hch
    · rename_i fs1 hch
      have hfs1 : ownerAt fs1 q = ownerAt s.fs q := by
        split at hch
        · exact (Fs.chmod_owner hch q).1
        · simp only [Except.ok.injEq] at hch; rw [← hch]
      repeat (first | exact hfs1 | (simp only [acInv_fs, updNodeAt_fs]; exact hfs1) | split)

theorem setattrSize_owner {s1 s2 : St} {h : Nat} {n : Node} {pre : Attrs} {size : Option Nat}
    (hs : setattrSize s1 h n pre size = .ok s2) (q : Fs.Path) : ownerAt s2.fs q = ownerAt s1.fs q := by
  unfold setattrSize at hs
  split at hs
  · simp only [Except.ok.injEq] at hs; rw [← hs]
  · split at hs
    · simp at hs
    · split at hs
      · simp at hs
      · split at hs
        · simp at hs
        · split at hs
          · simp at hs
          · rename_i fs1 htr
            have := Fs.truncate_owner htr q
            simp only at hs
            split at hs
            · simp only [Except.ok.injEq] at hs; rw [← hs]; simpa using this
            · simp only [Except.ok.injEq] at hs; rw [← hs]; simpa using this

theorem setattrSize_nodeOf_owner {s1 s2 : St} {h : Nat} {n : Node} {pre : Attrs} {size : Option Nat}
    (hs : setattrSize s1 h n pre size = .ok s2) (n2 : Node) (hn2 : nodeOf s2 h = some n2) :
    ∃ n1, nodeOf s1 h = some n1 ∧ n2.attrs.uid = n1.attrs.uid ∧ n2.attrs.gid = n1.attrs.gid := by
  -- only the size of the node's attributes can change
  unfold setattrSize at hs
  have key : ∀ (sx : St) (f : Attrs → Attrs), (∀ a, (f a).uid = a.uid ∧ (f a).gid = a.gid) →
      sx.hs = s1.hs → sx.nodes = s1.nodes → nodeOf (updNodeAt sx h f) h = some n2 →
      ∃ n1, nodeOf s1 h = some n1 ∧ n2.attrs.uid = n1.attrs.uid ∧ n2.attrs.gid = n1.attrs.gid := by
    intro sx f hf hhs hnodes hnode
    unfold nodeOf updNodeAt at hnode
    simp only [hhs] at hnode
    unfold nodeOf
    cases hp : Handles.get s1.hs h with
    | none => simp [hp] at hnode
    | some p =>
      simp only [hp] at hnode ⊢
      rw [hnodes] at hnode
      rw [List.find?_map] at hnode
      cases hfind : s1.nodes.find? ((fun x => x.1 == h) ∘ fun x => if x.1 = h then (x.1, f x.2) else x) with
      | none => simp [hfind] at hnode
      | some x =>
        simp only [hfind, Option.map_some, Option.some.injEq] at hnode
        have hx : x.1 = h := by
          have := List.find?_some hfind
          simp only [Function.comp_apply] at this
          split at this <;> simpa using this
        have hfind' : s1.nodes.find? (fun x => x.1 == h) = some x := by
          rw [← hfind]
          congr 1
          funext y
          simp only [Function.comp_apply]
          split <;> simp_all
        simp only [hfind', Option.map_some]
        refine ⟨_, rfl, ?_, ?_⟩
        · rw [← hnode]; simp [hx, (hf x.2).1]
        · rw [← hnode]; simp [hx, (hf x.2).2]
  split at hs
  · simp only [Except.ok.injEq] at hs; subst hs; exact ⟨n2, hn2, rfl, rfl⟩
  · split at hs
    · simp at hs
    · split at hs
      · simp at hs
      · split at hs
        · simp at hs
        · split at hs
          · simp at hs
          · simp only at hs
            split at hs
            · simp only [Except.ok.injEq] at hs; subst hs
              exact ⟨n2, by simpa [nodeOf, acInv] using hn2, rfl, rfl⟩
            · simp only [Except.ok.injEq] at hs; subst hs
              rename_i fs2 _ _ i _
              exact key (acInv { s1 with fs := fs2 } n.path) (fun a => { a with size := i.size }) (fun a => ⟨rfl, rfl⟩) rfl rfl hn2

end Server
end Absnfs

namespace Absnfs
namespace Server
open Fs (ownerAt)

theorem setattrApply_owner_nonroot (s2 : St) (c : Ctx) (h : Nat) (sa : Sattr3) (pre : Attrs) (hnr : c.uid ≠ 0) (q : Fs.Path) :
    ownerAt (setattrApply s2 c h sa pre).1.fs q = ownerAt s2.fs q := by
  unfold setattrApply
  split
  · rfl
  · rename_i n2 hn2
    simp only
    have htgt := setattrTarget_nonroot c sa n2.attrs hnr
    have hso := setAttrOp_same_owner s2 h n2 (setattrTarget c sa n2.attrs)
      (decide (sa.atimeHow = 1 ∨ sa.atimeHow = 2 ∨ sa.mtimeHow = 1 ∨ sa.mtimeHow = 2)) htgt.1 htgt.2 q
    split
    · rename_i s3 st heq
      rw [heq] at hso; exact hso
    · rename_i s3 heq
      rw [heq] at hso
      split
      · rename_i s4 st hga
        have := getAttr_fs s3 c.now { n2 with attrs := setattrTarget c sa n2.attrs }
        rw [hga] at this
        simp only at this ⊢
        rw [this]; exact hso
      · rename_i s4 post hga
        have := getAttr_fs s3 c.now { n2 with attrs := setattrTarget c sa n2.attrs }
        rw [hga] at this
        simp only at this ⊢
        rw [this]; exact hso

/-- C11: a SETATTR from a caller whose effective uid is not 0 changes no owner or group in the backend,
    whatever its sattr3 says. -/
theorem procSetattr_owner_nonroot (s : St) (c : Ctx) (args : Bytes) (hnr : c.uid ≠ 0) (q : Fs.Path) :
    ownerAt (procSetattr s c args).1.fs q = ownerAt s.fs q := by
  unfold procSetattr
  split
  · rfl
  · split
    · rfl
    · split
      · rfl
      · split
        · rfl
        · split
          · rfl
          · split
            · rfl
            · split
              · rfl
              · rename_i n hn
                split
                · rename_i s1 st hga
                  have := getAttr_fs s c.now n; rw [hga] at this; simp only at this ⊢; rw [this]
                · rename_i s1 pre hga
                  have h1 : s1.fs = s.fs := by have := getAttr_fs s c.now n; rw [hga] at this; exact this
                  split
                  · simp only; rw [h1]
                  · split
                    · simp only; rw [h1]
                    · rename_i s2 hsz
                      rw [setattrApply_owner_nonroot s2 c _ _ pre hnr q, setattrSize_owner hsz q, h1]

end Server
end Absnfs

namespace Absnfs
namespace Server
open Fs (ownerAt)

@[simp] theorem invalidateForNew_fs (s : St) (d p : Bytes) : (invalidateForNew s d p).fs = s.fs := by
  unfold invalidateForNew dcInv acInv acInvNegIn; rfl

/-- C11 (MKDIR): on success the new directory is owned by the caller's effective identity (or, for an effective
    root, by what sattr3 asked), and no other object changes owner. -/
theorem procMkdir_owner (s s' : St) (c : Ctx) (args : Bytes) (body : Rfc.Body)
    (h : procMkdir s c args = (s', .res ⟨0, body⟩)) :
    ∃ (hd : Nat) (r1 r2 r3 name : Bytes) (sa : Sattr3) (n : Node),
      decFh' s args = some (hd, r1) ∧ decStr s r1 = some (name, r2) ∧ decSattr3 r2 = some (sa, r3) ∧
      nodeOf s hd = some n ∧
      ownerAt s'.fs (fsPath (joinName n.path name)) = some (ownerUid c sa, ownerGid c sa) ∧
      ∀ q, q ≠ fsPath (joinName n.path name) → ownerAt s'.fs q = ownerAt s.fs q := by
  unfold procMkdir at h
  split at h
  · simp [res] at h
  · split at h
    · simp [res] at h
    · rename_i hd r1 hfh
      split at h
      · simp [res] at h
      · rename_i name r2 hname
        split at h
        · simp only [res, Prod.mk.injEq, Outcome.res.injEq, Rfc.Res.mk.injEq] at h
          rename_i hv
          exact absurd h.2.1 hv
        · split at h
          · simp [res] at h
          · rename_i sa r3 hsa
            simp only at h
            split at h
            · simp [res] at h
            · split at h
              · simp [res] at h
              · rename_i n hn
                split at h
                · rename_i hge
                  simp only [res, Prod.mk.injEq, Outcome.res.injEq, Rfc.Res.mk.injEq] at h
                  exact absurd h.2.1 (mapErrno_ne_zero _)
                · rename_i s1 pre hpre
                  have hs1 : s1.fs = s.fs := by have := getAttr_fs s c.now n; rw [hpre] at this; exact this
                  split at h
                  · -- Mkdir failed: the reply carries the error status
                    rename_i e hmk
                    simp only [res, Prod.mk.injEq, Outcome.res.injEq, Rfc.Res.mk.injEq] at h
                    exact absurd h.2.1 (mapErrno_ne_zero e)
                  · rename_i fs1 hmk
                    obtain ⟨e, hw, _, _, _, hfol⟩ := Fs.mkdir_then_walk hmk
                    have hch : Fs.chown fs1 (fsPath (joinName n.path name)) (ownerUid c sa) (ownerGid c sa) =
                        .ok (Fs.chownAt fs1 (fsPath (joinName n.path name)) e (ownerUid c sa) (ownerGid c sa)) := by
                      unfold Fs.chown; rw [hfol]
                    simp only [chownQuiet, invalidateForNew_fs, hch] at h
                    -- the remaining steps (Lookup, GetAttr, Allocate) leave the filesystem alone
                    have hfinal : s'.fs = Fs.chownAt fs1 (fsPath (joinName n.path name)) e (ownerUid c sa) (ownerGid c sa) := by
                      split at h
                      · rename_i hle
                        simp only [res, Prod.mk.injEq, Outcome.res.injEq, Rfc.Res.mk.injEq] at h
                        exact absurd h.2.1 (mapErrno_ne_zero _)
                      · rename_i s4 node hlk
                        have h4 := lookupPath_fs' hlk
                        split at h
                        · rename_i hge
                          simp only [res, Prod.mk.injEq, Outcome.res.injEq, Rfc.Res.mk.injEq] at h
                          exact absurd h.2.1 (mapErrno_ne_zero _)
                        · rename_i s5 post hga
                          have h5 := getAttr_fs' hga
                          simp only [res, Prod.mk.injEq] at h
                          rw [← h.1, allocate_fs, h5, h4]
                    refine ⟨hd, r1, r2, r3, name, sa, n, hfh, hname, hsa, hn, ?_, ?_⟩
                    · rw [hfinal]; unfold Fs.chownAt; rw [Fs.ownerAt_set]; simp
                    · intro q hq
                      rw [hfinal]; unfold Fs.chownAt
                      rw [Fs.ownerAt_set, if_neg hq, Fs.mkdir_owner hmk q, if_neg hq, hs1]

end Server
end Absnfs

namespace Absnfs
namespace Server
open Fs (ownerAt)

/-- C11 (SYMLINK): on success the new link is owned (Lchown: the link itself) by the caller's effective identity
    (or what an effective root asked for), and no other object changes owner. -/
theorem procSymlink_owner (s s' : St) (c : Ctx) (args : Bytes) (body : Rfc.Body)
    (h : procSymlink s c args = (s', .res ⟨0, body⟩)) :
    ∃ (hd : Nat) (r1 r2 r3 r4 name target : Bytes) (sa : Sattr3) (n : Node),
      decFh' s args = some (hd, r1) ∧ decStr s r1 = some (name, r2) ∧ decSattr3 r2 = some (sa, r3) ∧
      decStr s r3 = some (target, r4) ∧ nodeOf s hd = some n ∧
      ownerAt s'.fs (fsPath (joinName n.path name)) = some (ownerUid c sa, ownerGid c sa) ∧
      ∀ q, q ≠ fsPath (joinName n.path name) → ownerAt s'.fs q = ownerAt s.fs q := by
  unfold procSymlink at h
  split at h
  · simp [res] at h
  · split at h
    · simp [res] at h
    · rename_i hd r1 hfh
      split at h
      · simp [res] at h
      · rename_i name r2 hname
        split at h
        · rename_i hv
          simp only [res, Prod.mk.injEq, Outcome.res.injEq, Rfc.Res.mk.injEq] at h
          exact absurd h.2.1 hv
        · split at h
          · simp [res] at h
          · rename_i sa r3 hsa
            split at h
            · simp [res] at h
            · rename_i target r4 htarget
              split at h
              · simp [res] at h
              · split at h
                · simp [res] at h
                · split at h
                  · simp [res] at h
                  · split at h
                    · simp [res] at h
                    · rename_i n hn
                      split at h
                      · rename_i hge
                        simp only [res, Prod.mk.injEq, Outcome.res.injEq, Rfc.Res.mk.injEq] at h
                        exact absurd h.2.1 (mapErrno_ne_zero _)
                      · rename_i s1 pre hpre
                        have hs1 : s1.fs = s.fs := getAttr_fs' hpre
                        split at h
                        · -- symlinkOp failed: the reply carries the mapped error
                          simp only [res, Prod.mk.injEq, Outcome.res.injEq, Rfc.Res.mk.injEq] at h
                          exact absurd h.2.1 (mapErrno_ne_zero _)
                        · rename_i s2 node hop
                          -- symlinkOp succeeded: a new link at the joined path
                          unfold symlinkOp at hop
                          split at hop
                          · simp at hop
                          · rename_i p hsan
                            have hp : p = joinName n.path name := by
                              unfold sanitize at hsan
                              simp only at hsan
                              split at hsan
                              · simp at hsan
                              · simp only [Option.some.injEq] at hsan; exact hsan.symm
                            subst hp
                            split at hop
                            · simp at hop
                            · rename_i fs1 hsl
                              have h2 : s2.fs = fs1 := by
                                have := lookupPath_fs (invalidateForNew { s1 with fs := fs1 } n.path (joinName n.path name)) c.now (joinName n.path name)
                                rw [hop] at this
                                simpa using this
                              have hw := Fs.symlink_then_walk hsl
                              generalize hle : ({ kind := Fs.Kind.link, perm := 0o777, uid := 0, gid := 0, data := target, ino := s1.fs.nextIno } : Fs.Entry) = le at hw
                              have hlch : Fs.lchown s2.fs (fsPath (joinName n.path name)) (ownerUid c sa) (ownerGid c sa) =
                                  .ok (Fs.chownAt fs1 (fsPath (joinName n.path name)) le (ownerUid c sa) (ownerGid c sa)) := by
                                unfold Fs.lchown; rw [h2, hw]
                              simp only [lchownQuiet, hlch] at h
                              have hfinal : s'.fs = Fs.chownAt fs1 (fsPath (joinName n.path name)) le (ownerUid c sa) (ownerGid c sa) := by
                                split at h
                                · rename_i hge
                                  simp only [res, Prod.mk.injEq, Outcome.res.injEq, Rfc.Res.mk.injEq] at h
                                  exact absurd h.2.1 (mapErrno_ne_zero _)
                                · rename_i s4 post hga
                                  have h4 := getAttr_fs' hga
                                  simp only [res, Prod.mk.injEq] at h
                                  rw [← h.1, allocate_fs, h4]
                              refine ⟨hd, r1, r2, r3, r4, name, target, sa, n, hfh, hname, hsa, htarget, hn, ?_, ?_⟩
                              · rw [hfinal]; unfold Fs.chownAt; rw [Fs.ownerAt_set]; simp
                              · intro q hq
                                rw [hfinal]; unfold Fs.chownAt
                                rw [Fs.ownerAt_set, if_neg hq, Fs.symlink_owner hsl q, if_neg hq, hs1]

end Server
end Absnfs
