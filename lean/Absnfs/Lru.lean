/-
  Lru: AttrCache (positive + negative entries) and DirCache (cache.go) as bounded TTL LRU maps.
  `entries` is the access list, most recently used first; the Go map holds exactly these keys.
  Time is a number of nanoseconds on a clock supplied with each operation (virtual clock in the harness).
  Values are opaque (`V`); the harness encodes an attribute record / a listing as a number.
-/
import Absnfs.Bytes
namespace Absnfs
namespace Lru

structure Entry (V : Type) where
  key : Bytes
  val : Option V          -- none = negative entry
  expireAt : Nat
  deriving Repr

structure Cache (V : Type) where
  entries : List (Entry V)
  cap : Nat               -- maxSize / maxEntries (> 0)
  ttl : Nat
  negTtl : Nat
  enableNeg : Bool
  /-- AttrCache: a hit needs now < expireAt (false). DirCache: now ≤ validUntil (true). -/
  hitAtEq : Bool
  deriving Repr

inductive Res (V : Type) where
  | hit (v : V)
  | neg
  | miss
  deriving Repr, DecidableEq

variable {V : Type}

def keys (c : Cache V) : List Bytes := c.entries.map (·.key)

def lookup (c : Cache V) (k : Bytes) : Option (Entry V) := c.entries.find? (·.key == k)

def fresh (c : Cache V) (now : Nat) (e : Entry V) : Bool :=
  if c.hitAtEq then decide (now ≤ e.expireAt) else decide (now < e.expireAt)

def removeKey (l : List (Entry V)) (k : Bytes) : List (Entry V) := l.eraseP (·.key == k)

/-- Get, first critical section: the decision. -/
def getRead (c : Cache V) (now : Nat) (k : Bytes) : Res V :=
  match lookup c k with
  | none => .miss
  | some e =>
    if fresh c now e then (match e.val with | some v => .hit v | none => .neg) else .miss

/-- Get, second critical section after a hit: move to front if the entry still exists. -/
def touch (c : Cache V) (k : Bytes) : Cache V :=
  match lookup c k with
  | none => c
  | some e => { c with entries := e :: removeKey c.entries k }

/-- Get, second critical section after finding an expired entry: remove it if it is (still) strictly expired. -/
def expireRemove (c : Cache V) (now : Nat) (k : Bytes) : Cache V :=
  match lookup c k with
  | none => c
  | some e => if now > e.expireAt then { c with entries := removeKey c.entries k } else c

/-- Sequential Get. -/
def get (c : Cache V) (now : Nat) (k : Bytes) : Cache V × Res V :=
  match getRead c now k with
  | .miss => (expireRemove c now k, .miss)
  | r => (touch c k, r)

/-- Insert or overwrite; a new key on a full cache first evicts the least recently used (last) entry. -/
def putEntry (c : Cache V) (e : Entry V) : Cache V :=
  match lookup c e.key with
  | some _ => { c with entries := e :: removeKey c.entries e.key }
  | none =>
    let base := if c.entries.length ≥ c.cap then c.entries.dropLast else c.entries
    { c with entries := e :: base }

def put (c : Cache V) (now : Nat) (k : Bytes) (v : V) : Cache V :=
  putEntry c { key := k, val := some v, expireAt := now + c.ttl }

def putNegative (c : Cache V) (now : Nat) (k : Bytes) : Cache V :=
  if c.enableNeg then putEntry c { key := k, val := none, expireAt := now + c.negTtl } else c

def invalidate (c : Cache V) (k : Bytes) : Cache V := { c with entries := removeKey c.entries k }

def clear (c : Cache V) : Cache V := { c with entries := [] }

/-- isChildOf(path, dirPath): path is dirPath plus exactly one more component. -/
def isChildOf (path dir : Bytes) : Bool :=
  if dir = [47] then
    if path = [47] ∨ path.length < 2 then false
    else
      let rem := path.drop 1
      !(rem.contains 47) && rem.length > 0
  else
    if path.length ≤ dir.length + 1 then false
    else if path.take dir.length ≠ dir then false
    else if path[dir.length]! ≠ 47 then false
    else
      let rem := path.drop (dir.length + 1)
      !(rem.contains 47) && rem.length > 0

def invalidateNegativeInDir (c : Cache V) (dir : Bytes) : Cache V :=
  { c with entries := c.entries.filter fun e => !(e.val.isNone && isChildOf e.key dir) }

/-- InvalidatePrefix (added by the RENAME repair): the path itself and everything below it. -/
def underPrefix (p path : Bytes) : Bool :=
  let pre := (if path.getLast? = some 47 then path.dropLast else path) ++ [47]
  p == path || pre.isPrefixOf p

def invalidatePrefix (c : Cache V) (path : Bytes) : Cache V :=
  { c with entries := c.entries.filter fun e => !(underPrefix e.key path) }

def effCap (dflt : Nat) (n : Int) : Nat := if n ≤ 0 then dflt else n.toNat

/-- Resize (newSize already defaulted): shrink from the LRU end. -/
def resize (c : Cache V) (n : Nat) : Cache V :=
  if c.cap = n then c else { c with cap := n, entries := c.entries.take n }

def updateTTL (c : Cache V) (t : Nat) : Cache V := { c with ttl := t }

/-- ConfigureNegativeCaching: set the flag, set the TTL if positive; disabling purges negative entries. -/
def configureNegative (c : Cache V) (enable : Bool) (ttl : Int) : Cache V :=
  let c1 := { c with enableNeg := enable, negTtl := if ttl > 0 then ttl.toNat else c.negTtl }
  if enable then c1 else { c1 with entries := c1.entries.filter (·.val.isSome) }

/-! ### Invariant: unique keys, bounded size -/

structure Inv (c : Cache V) : Prop where
  nodup : (keys c).Nodup
  bounded : c.entries.length ≤ c.cap
  capPos : 0 < c.cap

theorem keys_removeKey (l : List (Entry V)) (k : Bytes) :
    (removeKey l k).map (·.key) = (l.map (·.key)).erase k := by
  induction l with
  | nil => simp [removeKey]
  | cons x xs ih =>
    by_cases hx : x.key = k
    · simp [removeKey, List.eraseP_cons, hx]
    · have hx' : (x.key == k) = false := by simpa using hx
      simp only [removeKey] at ih ⊢
      rw [List.eraseP_cons, hx', cond_false, List.map_cons, List.map_cons,
        List.erase_cons_tail (by simpa using hx), ih]

theorem lookup_some_mem {c : Cache V} {k : Bytes} {e : Entry V} (h : lookup c k = some e) :
    e ∈ c.entries ∧ e.key = k := by
  unfold lookup at h
  exact ⟨List.mem_of_find?_eq_some h, by simpa using List.find?_some h⟩

theorem lookup_none_notin {c : Cache V} {k : Bytes} (h : lookup c k = none) : k ∉ keys c := by
  unfold lookup at h
  intro hin
  obtain ⟨x, hx, hxk⟩ := List.mem_map.mp hin
  have := List.find?_eq_none.mp h x hx
  simp [hxk] at this

theorem length_removeKey_of_mem {l : List (Entry V)} {k : Bytes} {e : Entry V} (he : e ∈ l) (hk : e.key = k) :
    (removeKey l k).length = l.length - 1 :=
  List.length_eraseP_of_mem he (by simpa using hk)

theorem inv_moveFront {c : Cache V} (hI : Inv c) {k : Bytes} {e e' : Entry V}
    (hl : lookup c k = some e) (hk : e'.key = k) :
    Inv { c with entries := e' :: removeKey c.entries k } := by
  obtain ⟨hmem, hek⟩ := lookup_some_mem hl
  constructor
  · simp only [keys, List.map_cons, keys_removeKey, List.nodup_cons, hk]
    refine ⟨?_, hI.nodup.erase k⟩
    intro h
    exact ((List.Nodup.mem_erase_iff hI.nodup).mp h).1 rfl
  · simp only [List.length_cons]
    rw [length_removeKey_of_mem hmem hek]
    have := hI.bounded
    have : 0 < c.entries.length := List.length_pos_of_mem hmem
    omega
  · exact hI.capPos

theorem inv_removeKey {c : Cache V} (hI : Inv c) (k : Bytes) :
    Inv { c with entries := removeKey c.entries k } := by
  constructor
  · simp only [keys, keys_removeKey]; exact hI.nodup.erase k
  · exact Nat.le_trans (List.eraseP_sublist).length_le hI.bounded
  · exact hI.capPos

theorem inv_filter {c : Cache V} (hI : Inv c) (p : Entry V → Bool) :
    Inv { c with entries := c.entries.filter p } := by
  constructor
  · exact hI.nodup.sublist ((List.filter_sublist).map _)
  · exact Nat.le_trans (List.filter_sublist).length_le hI.bounded
  · exact hI.capPos

theorem inv_touch {c : Cache V} (hI : Inv c) (k : Bytes) : Inv (touch c k) := by
  unfold touch
  split
  · exact hI
  · rename_i e hl
    exact inv_moveFront hI hl (lookup_some_mem hl).2

theorem inv_expireRemove {c : Cache V} (hI : Inv c) (now : Nat) (k : Bytes) : Inv (expireRemove c now k) := by
  unfold expireRemove
  split
  · exact hI
  · split
    · exact inv_removeKey hI k
    · exact hI

theorem inv_get {c : Cache V} (hI : Inv c) (now : Nat) (k : Bytes) : Inv (get c now k).1 := by
  unfold get
  split
  · exact inv_expireRemove hI now k
  · exact inv_touch hI k

theorem inv_putEntry {c : Cache V} (hI : Inv c) (e : Entry V) : Inv (putEntry c e) := by
  unfold putEntry
  split
  · rename_i e0 hl
    exact inv_moveFront hI hl rfl
  · rename_i hl
    have hnot := lookup_none_notin hl
    constructor
    · simp only [keys, List.map_cons, List.nodup_cons]
      split
      · refine ⟨?_, hI.nodup.sublist ((List.dropLast_sublist _).map _)⟩
        intro h
        exact hnot (((List.dropLast_sublist c.entries).map (fun (x : Entry V) => x.key)).subset h)
      · exact ⟨hnot, hI.nodup⟩
    · simp only [List.length_cons]
      split
      · rename_i hge
        simp only [List.length_dropLast]
        have := hI.bounded; have := hI.capPos
        omega
      · omega
    · exact hI.capPos

theorem inv_put {c : Cache V} (hI : Inv c) (now : Nat) (k : Bytes) (v : V) : Inv (put c now k v) :=
  inv_putEntry hI _

theorem inv_putNegative {c : Cache V} (hI : Inv c) (now : Nat) (k : Bytes) : Inv (putNegative c now k) := by
  unfold putNegative; split
  · exact inv_putEntry hI _
  · exact hI

theorem inv_resize {c : Cache V} (hI : Inv c) (n : Nat) (hn : 0 < n) : Inv (resize c n) := by
  unfold resize
  split
  · exact hI
  · constructor
    · exact hI.nodup.sublist ((List.take_sublist _ _).map _)
    · simp only [List.length_take]; omega
    · exact hn

theorem inv_configureNegative {c : Cache V} (hI : Inv c) (en : Bool) (t : Int) :
    Inv (configureNegative c en t) := by
  unfold configureNegative
  simp only
  split
  · exact ⟨hI.nodup, hI.bounded, hI.capPos⟩
  · exact inv_filter (c := { c with enableNeg := en, negTtl := _ }) ⟨hI.nodup, hI.bounded, hI.capPos⟩ _

/-! ### Negative entries only while enabled -/

def NegInv (c : Cache V) : Prop := c.enableNeg = false → ∀ e ∈ c.entries, e.val.isSome = true

theorem touch_flag (c : Cache V) (k : Bytes) : (touch c k).enableNeg = c.enableNeg := by
  unfold touch; split <;> rfl

theorem touch_sub (c : Cache V) (k : Bytes) : ∀ e ∈ (touch c k).entries, e ∈ c.entries := by
  unfold touch
  split
  · exact fun e he => he
  · rename_i e0 hl
    intro e he
    simp only [List.mem_cons] at he
    rcases he with rfl | he
    · exact (lookup_some_mem hl).1
    · exact List.mem_of_mem_eraseP he

theorem expireRemove_flag (c : Cache V) (now : Nat) (k : Bytes) :
    (expireRemove c now k).enableNeg = c.enableNeg := by
  unfold expireRemove; split
  · rfl
  · split <;> rfl

theorem expireRemove_sub (c : Cache V) (now : Nat) (k : Bytes) :
    ∀ e ∈ (expireRemove c now k).entries, e ∈ c.entries := by
  unfold expireRemove
  split
  · exact fun e he => he
  · split
    · exact fun e he => List.mem_of_mem_eraseP he
    · exact fun e he => he

theorem get_flag (c : Cache V) (now : Nat) (k : Bytes) : (get c now k).1.enableNeg = c.enableNeg := by
  unfold get; split
  · exact expireRemove_flag c now k
  · exact touch_flag c k

theorem get_sub (c : Cache V) (now : Nat) (k : Bytes) : ∀ e ∈ (get c now k).1.entries, e ∈ c.entries := by
  unfold get; split
  · exact expireRemove_sub c now k
  · exact touch_sub c k

theorem putEntry_flag (c : Cache V) (e : Entry V) : (putEntry c e).enableNeg = c.enableNeg := by
  unfold putEntry; split <;> rfl

theorem putEntry_sub (c : Cache V) (e : Entry V) : ∀ x ∈ (putEntry c e).entries, x = e ∨ x ∈ c.entries := by
  unfold putEntry
  split
  · intro x hx
    simp only [List.mem_cons] at hx
    rcases hx with rfl | hx
    · exact Or.inl rfl
    · exact Or.inr (List.mem_of_mem_eraseP hx)
  · intro x hx
    simp only [List.mem_cons] at hx
    rcases hx with rfl | hx
    · exact Or.inl rfl
    · right
      split at hx
      · exact (List.dropLast_sublist _).subset hx
      · exact hx

theorem negInv_sub {c : Cache V} (h : NegInv c) (l : List (Entry V)) (hs : ∀ e ∈ l, e ∈ c.entries) :
    NegInv { c with entries := l } := fun hd e he => h hd e (hs e he)

end Lru
end Absnfs
