/-
  Drain: drain-and-swap of the policy (nfs_handlers.go: HandleCall; options.go: UpdatePolicyOptions;
  server.go: handleConnectionLoop's rate-limit check) as a transition system.
  sync.RWMutex is modelled as documented: TryRLock fails iff a writer holds the lock or is waiting for it;
  Lock proceeds when no reader holds it. One `Step` constructor per atomic action.
-/
namespace Absnfs
namespace Drain

inductive Phase where
  | active        -- holds the read lock (admitted, goroutine running)
  | done          -- goroutine finished, read lock released
  | refused       -- got the retry-later reply at arrival
  deriving DecidableEq, Repr

structure Req where
  id : Nat
  admitted : Nat        -- policy snapshot taken at admission
  phase : Phase
  timedOut : Bool       -- the caller gave up waiting (the goroutine still owns the lock)
  limiterUsed : Nat     -- limiter consulted for this request by the connection loop
  deriving DecidableEq, Repr

inductive UpdPhase where
  | idle | waiting | holding
  deriving DecidableEq, Repr

structure St where
  policy : Nat                -- identifies the PolicyOptions value in force
  limiter : Nat               -- identifies the RateLimiter object in force
  upd : UpdPhase              -- the (single, policyMu-serialised) updater
  pendingPolicy : Nat
  reqs : List Req
  /-- every backend operation performed so far: (request id, policy it was admitted under, policy in force) -/
  backendLog : List (Nat × Nat × Nat)
  conns : List (Nat × Nat)    -- connection id ↦ limiter captured when the connection was opened
  deriving Repr

def init : St :=
  { policy := 0, limiter := 0, upd := .idle, pendingPolicy := 0, reqs := [], backendLog := [], conns := [] }

/-- the requests holding policyRWMu.RLock (the lock's reader count is their number) -/
def actives (s : St) : List Req := s.reqs.filter (·.phase == .active)

def setPhase (l : List Req) (r : Nat) (p : Phase) : List Req :=
  l.map fun x => if x.id = r then { x with phase := p } else x

def setTimedOut (l : List Req) (r : Nat) : List Req :=
  l.map fun x => if x.id = r then { x with timedOut := true } else x

/-- `perRequest` = the connection loop looks the limiter up for every request (regenerated fact);
    otherwise it uses the one captured when the connection was opened. -/
inductive Step (perRequest : Bool) : St → St → Prop
  | openConn (s : St) (c : Nat) : Step perRequest s { s with conns := (c, s.limiter) :: s.conns }
  /-- a call arrives while no writer holds or waits: admitted (TryRLock succeeds), snapshot taken -/
  | admitReq (s : St) (r c cl : Nat) (hu : s.upd = .idle) (hc : (c, cl) ∈ s.conns) (hnew : ∀ q ∈ s.reqs, q.id ≠ r) :
      Step perRequest s
        { s with reqs := ⟨r, s.policy, .active, false, if perRequest then s.limiter else cl⟩ :: s.reqs }
  /-- a call arrives mid-drain: TryRLock fails, retry-later reply, nothing else happens -/
  | refuse (s : St) (r c cl : Nat) (hu : s.upd ≠ .idle) (hc : (c, cl) ∈ s.conns) (hnew : ∀ q ∈ s.reqs, q.id ≠ r) :
      Step perRequest s
        { s with reqs := ⟨r, s.policy, .refused, false, if perRequest then s.limiter else cl⟩ :: s.reqs }
  /-- an admitted request performs a backend operation -/
  | backend (s : St) (q : Req) (hq : q ∈ s.reqs) (ha : q.phase = .active) :
      Step perRequest s { s with backendLog := (q.id, q.admitted, s.policy) :: s.backendLog }
  /-- the caller of HandleCall times out; the goroutine keeps running (and keeps the lock) -/
  | timeout (s : St) (q : Req) (hq : q ∈ s.reqs) (ha : q.phase = .active) :
      Step perRequest s { s with reqs := setTimedOut s.reqs q.id }
  /-- the request's goroutine finishes and releases the read lock -/
  | finish (s : St) (q : Req) (hq : q ∈ s.reqs) (ha : q.phase = .active) :
      Step perRequest s { s with reqs := setPhase s.reqs q.id .done }
  /-- UpdatePolicyOptions: policyMu taken, Lock() called: writer waiting -/
  | updBegin (s : St) (p : Nat) (hu : s.upd = .idle) : Step perRequest s { s with upd := .waiting, pendingPolicy := p }
  /-- Lock() returns once no reader is left -/
  | updAcquire (s : St) (hu : s.upd = .waiting) (h0 : actives s = []) : Step perRequest s { s with upd := .holding }
  /-- store the policy, replace the limiter, Unlock, return -/
  | updEnd (s : St) (l : Nat) (hu : s.upd = .holding) :
      Step perRequest s { s with policy := s.pendingPolicy, limiter := l, upd := .idle }

inductive Reach (perRequest : Bool) : St → Prop
  | init : Reach perRequest init
  | step (s s' : St) (h : Reach perRequest s) (hs : Step perRequest s s') : Reach perRequest s'

/-! ### Invariant -/

structure Inv (s : St) : Prop where
  current : ∀ q ∈ s.reqs, q.phase = .active → q.admitted = s.policy
  holding : s.upd = .holding → actives s = []
  log : ∀ e ∈ s.backendLog, e.2.1 = e.2.2

theorem inv_init : Inv init := by
  constructor <;> simp [init, actives]

theorem mem_setPhase {l : List Req} {r : Nat} {p : Phase} {x : Req} (h : x ∈ setPhase l r p) :
    ∃ y ∈ l, x = (if y.id = r then { y with phase := p } else y) := by
  simp only [setPhase, List.mem_map] at h
  obtain ⟨y, hy, rfl⟩ := h
  exact ⟨y, hy, rfl⟩

theorem mem_setTimedOut {l : List Req} {r : Nat} {x : Req} (h : x ∈ setTimedOut l r) :
    ∃ y ∈ l, x.admitted = y.admitted ∧ x.phase = y.phase := by
  simp only [setTimedOut, List.mem_map] at h
  obtain ⟨y, hy, rfl⟩ := h
  refine ⟨y, hy, ?_⟩
  split <;> simp

theorem inv_step (b : Bool) (s s' : St) (hI : Inv s) (hs : Step b s s') : Inv s' := by
  cases hs with
  | openConn c => exact ⟨hI.current, hI.holding, hI.log⟩
  | admitReq r c cl hu hc hnew =>
    refine ⟨?_, ?_, hI.log⟩
    · intro q hq ha
      simp only [List.mem_cons] at hq
      rcases hq with rfl | hq
      · rfl
      · exact hI.current q hq ha
    · intro hh; simp only at hh; rw [hu] at hh; exact absurd hh (by decide)
  | refuse r c cl hu hc hnew =>
    refine ⟨?_, ?_, hI.log⟩
    · intro q hq ha
      simp only [List.mem_cons] at hq
      rcases hq with rfl | hq
      · simp at ha
      · exact hI.current q hq ha
    · intro hh
      have := hI.holding hh
      simp only [actives, List.filter_cons] at this ⊢
      simpa using this
  | backend q hq ha =>
    refine ⟨hI.current, hI.holding, ?_⟩
    intro e he
    simp only [List.mem_cons] at he
    rcases he with rfl | he
    · exact hI.current q hq ha
    · exact hI.log e he
  | timeout q hq ha =>
    refine ⟨?_, ?_, hI.log⟩
    · intro x hx hxa
      obtain ⟨y, hy, h1, h2⟩ := mem_setTimedOut hx
      rw [h1]; exact hI.current y hy (by rw [← h2]; exact hxa)
    · intro hh
      have h0 := hI.holding hh
      simp only [actives] at h0 ⊢
      apply List.filter_eq_nil_iff.mpr
      intro x hx
      obtain ⟨y, hy, _, h2⟩ := mem_setTimedOut hx
      have := List.filter_eq_nil_iff.mp h0 y hy
      rw [h2]; exact this
  | finish q hq ha =>
    refine ⟨?_, ?_, hI.log⟩
    · intro x hx hxa
      obtain ⟨y, hy, rfl⟩ := mem_setPhase hx
      by_cases hid : y.id = q.id
      · simp [hid] at hxa
      · simp only [hid, if_false] at hxa ⊢
        exact hI.current y hy hxa
    · intro hh
      have h0 := hI.holding hh
      have := List.filter_eq_nil_iff.mp h0 q hq
      simp [ha] at this
  | updBegin p hu =>
    refine ⟨hI.current, ?_, hI.log⟩
    intro hh; simp at hh
  | updAcquire hu h0 => exact ⟨hI.current, fun _ => h0, hI.log⟩
  | updEnd l hu =>
    have h0 := hI.holding hu
    refine ⟨?_, ?_, hI.log⟩
    · intro q hq ha
      have := List.filter_eq_nil_iff.mp h0 q hq
      simp [ha] at this
    · intro hh; simp at hh

theorem inv_reach (b : Bool) (s : St) (h : Reach b s) : Inv s := by
  induction h with
  | init => exact inv_init
  | step s s' _ hs ih => exact inv_step b s s' ih hs

end Drain
end Absnfs
