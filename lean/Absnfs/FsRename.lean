/-
  FsRename: what Rename's subtree move does to the map, that it keeps the model well-formed, and that it only
  changes what Lstat shows at or below the two names.
-/
import Absnfs.FsFrame
namespace Absnfs
namespace Fs

theorem isPrefix_iff (a b : Path) : isPrefix a b = true ↔ a <+: b := by
  unfold isPrefix; exact List.isPrefixOf_iff_prefix

/-- under WF every prefix of a stored path is stored, and proper prefixes are directories -/
theorem prefix_exists {fs : T} (hw : WF fs) (p : Path) : ∀ (n : Nat) (r : Path) (e : Entry), r.length = n →
    get fs (p ++ r) = some e → ∃ pe, get fs p = some pe ∧ (r ≠ [] → pe.kind = .dir) := by
  intro n
  induction n with
  | zero =>
    intro r e hl hg
    have : r = [] := List.eq_nil_of_length_eq_zero hl
    subst this
    exact ⟨e, by simpa using hg, fun h => absurd rfl h⟩
  | succ n ih =>
    intro r e hl hg
    have hne : r ≠ [] := by intro h; subst h; simp at hl
    have hr := dropLast_append_getLast r hne
    obtain ⟨pe', hpe', hd'⟩ := hw.1 (p ++ r) e hg (by simp [hne])
    rw [List.dropLast_append_of_ne_nil hne] at hpe'
    obtain ⟨pe, hpe, hd⟩ := ih r.dropLast pe' (by simp [List.length_dropLast, hl]) hpe'
    refine ⟨pe, hpe, fun _ => ?_⟩
    by_cases hdl : r.dropLast = []
    · rw [hdl] at hpe'
      simp only [List.append_nil] at hpe'
      rw [hpe] at hpe'
      simp only [Option.some.injEq] at hpe'
      rw [hpe']; exact hd'
    · exact hd hdl

theorem prefix_is_dir {fs : T} (hw : WF fs) {p q : Path} {e : Entry} (hg : get fs q = some e) (hp : p <+: q) :
    ∃ pe, get fs p = some pe ∧ (p ≠ q → pe.kind = .dir) := by
  obtain ⟨r, hr⟩ := hp
  subst hr
  obtain ⟨pe, hpe, hd⟩ := prefix_exists hw p r.length r e rfl hg
  refine ⟨pe, hpe, fun hne => hd ?_⟩
  intro h; subst h; simp at hne

theorem prefix_dropLast {α : Type} {a b : List α} (h : a <+: b) (hne : a ≠ b) : a <+: b.dropLast := by
  obtain ⟨r, hr⟩ := h
  subst hr
  have hrne : r ≠ [] := by intro h; subst h; simp at hne
  rw [List.dropLast_append_of_ne_nil hrne]
  exact List.prefix_append a r.dropLast

section move
variable (a b : Path)

def mv (y : Path × Entry) : Path × Entry := if isPrefix a y.1 then (b ++ y.1.drop a.length, y.2) else y

theorem moveTree_ents (fs : T) : (moveTree fs a b).ents = (fs.ents.filter fun y => !(isPrefix b y.1)).map (mv a b) := by
  unfold moveTree mv
  simp only

/-- paths outside both subtrees are looked up as before -/
theorem get_moveTree_other (fs : T) (x : Path) (ha : ¬ a <+: x) (hb : ¬ b <+: x) : get (moveTree fs a b) x = get fs x := by
  unfold get
  rw [moveTree_ents]
  congr 1
  induction fs.ents with
  | nil => rfl
  | cons y ys ih =>
    simp only [List.filter_cons]
    by_cases hby : isPrefix b y.1 = true
    · have hne : (y.1 == x) = false := by
        simp only [beq_eq_false_iff_ne, ne_eq]
        intro h; rw [h] at hby; exact hb ((isPrefix_iff b x).mp hby)
      simp only [hby, Bool.not_true, Bool.false_eq_true, if_false, List.find?_cons, hne]
      exact ih
    · simp only [hby, Bool.not_false, if_true, List.map_cons, List.find?_cons]
      by_cases hay : isPrefix a y.1 = true
      · have h1 : ((mv a b y).1 == x) = false := by
          simp only [mv, hay, if_true, beq_eq_false_iff_ne, ne_eq]
          intro h; apply hb; rw [← h]; exact List.prefix_append _ _
        have h2 : (y.1 == x) = false := by
          simp only [beq_eq_false_iff_ne, ne_eq]
          intro h; rw [h] at hay; exact ha ((isPrefix_iff a x).mp hay)
        simp only [h1, h2]
        exact ih
      · have : mv a b y = y := by simp [mv, hay]
        rw [this]
        split
        · rfl
        · exact ih

/-- nothing is left under the old name -/
theorem get_moveTree_under_a (fs : T) (x : Path) (ha : a <+: x) (hb : ¬ b <+: x) : get (moveTree fs a b) x = none := by
  unfold get
  rw [moveTree_ents]
  have : ((fs.ents.filter fun y => !(isPrefix b y.1)).map (mv a b)).find? (·.1 == x) = none := by
    rw [List.find?_eq_none]
    intro z hz
    simp only [List.mem_map, List.mem_filter] at hz
    obtain ⟨y, ⟨_, _⟩, hyz⟩ := hz
    subst hyz
    simp only [beq_iff_eq]
    unfold mv
    split
    · simp only
      intro h; apply hb; rw [← h]; exact List.prefix_append _ _
    · rename_i hay
      intro h
      rw [h] at hay
      exact hay ((isPrefix_iff a x).mpr ha)
  rw [this]; rfl

/-- what was at `a ++ r` is now at `b ++ r` (for names that are not one inside the other) -/
theorem get_moveTree_moved (fs : T) (hab : ¬ a <+: b) (hba : ¬ b <+: a) (r : Path) :
    get (moveTree fs a b) (b ++ r) = get fs (a ++ r) := by
  have hincomp : ∀ r', ¬ b <+: a ++ r' := by
    intro r' h
    rcases List.prefix_or_prefix_of_prefix h (List.prefix_append a r') with h1 | h1
    · exact hba h1
    · exact hab h1
  unfold get
  rw [moveTree_ents]
  induction fs.ents with
  | nil => rfl
  | cons y ys ih =>
    simp only [List.filter_cons]
    by_cases hby : isPrefix b y.1 = true
    · have hne : (y.1 == a ++ r) = false := by
        simp only [beq_eq_false_iff_ne, ne_eq]
        intro h; rw [h] at hby; exact hincomp r ((isPrefix_iff _ _).mp hby)
      simp only [hby, Bool.not_true, Bool.false_eq_true, if_false, List.find?_cons, hne]
      exact ih
    · simp only [hby, Bool.not_false, if_true, List.map_cons, List.find?_cons]
      by_cases hay : isPrefix a y.1 = true
      · obtain ⟨t, ht⟩ := (isPrefix_iff a y.1).mp hay
        have hdrop : y.1.drop a.length = t := by rw [← ht]; simp
        by_cases htr : t = r
        · have h1 : ((mv a b y).1 == b ++ r) = true := by simp [mv, hay, hdrop, htr]
          have h2 : (y.1 == a ++ r) = true := by simp [← ht, htr]
          simp only [h1, h2, Option.map_some]
          simp [mv, hay]
        · have h1 : ((mv a b y).1 == b ++ r) = false := by simp [mv, hay, hdrop, htr]
          have h2 : (y.1 == a ++ r) = false := by simp [← ht, htr]
          simp only [h1, h2]
          exact ih
      · have hm : mv a b y = y := by simp [mv, hay]
        have h1 : (y.1 == b ++ r) = false := by
          simp only [beq_eq_false_iff_ne, ne_eq]
          intro h; apply hby; rw [h]; exact (isPrefix_iff _ _).mpr (List.prefix_append _ _)
        have h2 : (y.1 == a ++ r) = false := by
          simp only [beq_eq_false_iff_ne, ne_eq]
          intro h; apply hay; rw [h]; exact (isPrefix_iff _ _).mpr (List.prefix_append _ _)
        rw [hm]
        simp only [h1, h2]
        exact ih

/-- the subtree move stores no path twice: moved paths land below `b`, where nothing was left -/
theorem nodup_moveTree {fs : T} (h : NoDupKeys fs) : NoDupKeys (moveTree fs a b) := by
  unfold NoDupKeys at h ⊢
  rw [moveTree_ents, List.map_map]
  have hsub : ((fs.ents.filter fun y => !(isPrefix b y.1)).map (·.1)).Nodup := h.sublist ((List.filter_sublist).map _)
  have : (fs.ents.filter fun y => !(isPrefix b y.1)).map ((·.1) ∘ mv a b) =
      ((fs.ents.filter fun y => !(isPrefix b y.1)).map (·.1)).map (fun q => if isPrefix a q then b ++ q.drop a.length else q) := by
    rw [List.map_map]
    apply List.map_congr_left
    intro y _
    simp only [Function.comp, mv]
    split <;> rfl
  rw [this]
  rw [List.nodup_iff_pairwise_ne, List.pairwise_map]
  refine List.Pairwise.imp_of_mem ?_ (List.nodup_iff_pairwise_ne.mp hsub)
  intro x y hx hy hne hxy
  apply hne
  have nb : ∀ z, z ∈ (fs.ents.filter fun y => !(isPrefix b y.1)).map (·.1) → ¬ b <+: z := by
    intro z hz hbz
    obtain ⟨w, hw, hwz⟩ := List.mem_map.mp hz
    have := (List.mem_filter.mp hw).2
    rw [hwz] at this
    have hb := (isPrefix_iff b z).mpr hbz
    simp [hb] at this
  by_cases hax : isPrefix a x = true <;> by_cases hay : isPrefix a y = true
  · simp only [hax, hay, if_true] at hxy
    have hd := List.append_cancel_left hxy
    obtain ⟨rx, hrx⟩ := (isPrefix_iff a x).mp hax
    obtain ⟨ry, hry⟩ := (isPrefix_iff a y).mp hay
    rw [← hrx, ← hry] at hd ⊢
    simp only [List.drop_left] at hd
    rw [hd]
  · simp only [hax, hay, if_true] at hxy
    exfalso; apply nb y hy
    simp only [Bool.not_eq_true] at hay
    simp only [hay, Bool.false_eq_true, if_false] at hxy
    rw [← hxy]; exact List.prefix_append b _
  · simp only [Bool.not_eq_true] at hax
    simp only [hax, hay, if_true, Bool.false_eq_true, if_false] at hxy
    exfalso; apply nb x hx
    rw [hxy]; exact List.prefix_append b _
  · simp only [Bool.not_eq_true] at hax hay
    simp only [hax, hay, Bool.false_eq_true, if_false] at hxy
    exact hxy

/-- the subtree move keeps the model well-formed -/
theorem wf_moveTree {fs : T} (hw : WF fs) (hab : ¬ a <+: b) (hba : ¬ b <+: a) (hbne : b ≠ [])
    {pb : Entry} (hpb : get fs b.dropLast = some pb) (hpbd : pb.kind = .dir) : WF (moveTree fs a b) := by
  refine ⟨?_, nodup_moveTree a b hw.2⟩
  intro q e hq hqne
  by_cases hbq : b <+: q
  · obtain ⟨r, hr⟩ := hbq
    subst hr
    rw [get_moveTree_moved a b fs hab hba] at hq
    by_cases hr0 : r = []
    · subst hr0
      simp only [List.append_nil]
      have h1 : ¬ a <+: b.dropLast := fun h => hab (h.trans (List.dropLast_prefix b))
      have h2 : ¬ b <+: b.dropLast := by
        intro h
        have := h.length_le
        simp only [List.length_dropLast] at this
        have : b.length ≠ 0 := fun h0 => hbne (List.eq_nil_of_length_eq_zero h0)
        omega
      rw [get_moveTree_other a b fs _ h1 h2]
      exact ⟨pb, hpb, hpbd⟩
    · obtain ⟨pe, hpe, hd⟩ := hw.1 (a ++ r) e hq (by simp [hr0])
      rw [List.dropLast_append_of_ne_nil hr0] at hpe
      rw [List.dropLast_append_of_ne_nil hr0, get_moveTree_moved a b fs hab hba]
      exact ⟨pe, hpe, hd⟩
  · by_cases haq : a <+: q
    · rw [get_moveTree_under_a a b fs q haq hbq] at hq
      simp at hq
    · rw [get_moveTree_other a b fs q haq hbq] at hq
      obtain ⟨pe, hpe, hd⟩ := hw.1 q e hq hqne
      have h1 : ¬ a <+: q.dropLast := fun h => haq (h.trans (List.dropLast_prefix q))
      have h2 : ¬ b <+: q.dropLast := fun h => hbq (h.trans (List.dropLast_prefix q))
      rw [get_moveTree_other a b fs _ h1 h2]
      exact ⟨pe, hpe, hd⟩

end move

theorem viewAt_moveTree_other (fs : T) (a b x : Path) (ha : ¬ a <+: x) (hb : ¬ b <+: x) :
    viewAt (moveTree fs a b) x = viewAt fs x := by
  unfold viewAt; rw [get_moveTree_other a b fs x ha hb]

/-- a stored path strictly below `b` makes `children fs b` non-empty -/
theorem children_ne_nil_of_below {fs : T} (hw : WF fs) {b q : Path} {e : Entry} (hg : get fs q = some e) (hb : b <+: q) (hne : b ≠ q) :
    children fs b ≠ [] := by
  obtain ⟨r, hr⟩ := hb
  subst hr
  cases r with
  | nil => simp at hne
  | cons c cs =>
    have hp : (b ++ [c]) <+: (b ++ c :: cs) := ⟨cs, by simp⟩
    obtain ⟨pe, hpe, _⟩ := prefix_is_dir hw hg hp
    exact children_ne_nil_of_get hpe

/-- Rename: the model stays well-formed and Lstat changes only at or below the two names -/
theorem rename_frame' {fs fs1 : T} {a b : Path} (h : rename fs a b = .ok fs1) (hw : WF fs) :
    WF fs1 ∧ (∀ q, ¬ a <+: q → ¬ b <+: q → viewAt fs1 q = viewAt fs q) ∧ (fs1 = fs ∨ (¬ a <+: b ∧ ¬ b <+: a)) := by
  unfold rename at h
  split at h
  · simp at h
  · rename_i ea hwa
    have hga := walk_ok_get hwa
    -- a (proper) prefix of an existing path is a directory
    have hdirOf : ∀ q e, get fs q = some e → a <+: q → a ≠ q → ea.kind = .dir := by
      intro q e hg hp hne
      obtain ⟨pe, hpe, hd⟩ := prefix_is_dir hw hg hp
      rw [hga] at hpe
      simp only [Option.some.injEq] at hpe
      rw [hpe]; exact hd hne
    split at h
    · simp at h
    · rename_i hane
      split at h
      · -- the new name is free
        rename_i hwb
        have hgb : get fs b = none := get_none_of_walk_err hw hwb
        split at h
        · simp at h
        · rename_i hc
          obtain ⟨hbne, pb, hpb, hpbd⟩ := canCreate_ok hc
          have hgpb := walk_ok_get hpb
          split at h
          · simp at h
          · rename_i hchk
            simp only [Except.ok.injEq] at h
            subst h
            have hneab : a ≠ b := by intro e; rw [e, hgb] at hga; simp at hga
            have hab : ¬ a <+: b := by
              intro hp
              have hp' := prefix_dropLast hp hneab
              apply hchk
              refine ⟨?_, (isPrefix_iff _ _).mpr hp'⟩
              by_cases heq : a = b.dropLast
              · rw [← heq, hga] at hgpb
                simp only [Option.some.injEq] at hgpb
                rw [hgpb]; exact hpbd
              · exact hdirOf _ _ hgpb hp' heq
            have hba : ¬ b <+: a := by
              intro hp
              obtain ⟨pe, hpe, _⟩ := prefix_is_dir hw hga hp
              rw [hgb] at hpe; simp at hpe
            exact ⟨wf_moveTree a b hw hab hba hbne hgpb hpbd, fun q h1 h2 => viewAt_moveTree_other fs a b q h1 h2, .inr ⟨hab, hba⟩⟩
      · simp at h
      · -- the new name exists
        rename_i eb hwb
        have hgb := walk_ok_get hwb
        split at h
        · simp at h
        · rename_i hbne
          split at h
          · simp only [Except.ok.injEq] at h
            subst h
            exact ⟨hw, fun _ _ _ => rfl, .inl rfl⟩
          · rename_i hneab
            split at h
            · simp at h
            · rename_i hchk
              split at h
              · simp at h
              · rename_i hc1
                split at h
                · simp at h
                · rename_i hc2
                  split at h
                  · simp at h
                  · rename_i hc3
                    simp only [Except.ok.injEq] at h
                    subst h
                    obtain ⟨pb, hgpb, hpbd⟩ := hw.1 b eb hgb hbne
                    have hab : ¬ a <+: b := by
                      intro hp
                      have hp' := prefix_dropLast hp hneab
                      apply hchk
                      exact ⟨hdirOf b eb hgb hp hneab, (isPrefix_iff _ _).mpr hp'⟩
                    have hba : ¬ b <+: a := by
                      intro hp
                      have hnb : b ≠ a := fun e => hneab e.symm
                      obtain ⟨pe, hpe, hd⟩ := prefix_is_dir hw hga hp
                      rw [hgb] at hpe
                      simp only [Option.some.injEq] at hpe
                      have hebd : eb.kind = .dir := by rw [hpe]; exact hd hnb
                      have hch := children_ne_nil_of_below hw hga hp hnb
                      by_cases hk : ea.kind = .dir
                      · exact hc3 ⟨hk, hch⟩
                      · exact hc2 ⟨hk, hebd⟩
                    exact ⟨wf_moveTree a b hw hab hba hbne hgpb hpbd, fun q h1 h2 => viewAt_moveTree_other fs a b q h1 h2, .inr ⟨hab, hba⟩⟩


theorem rename_frame {fs fs1 : T} {a b : Path} (h : rename fs a b = .ok fs1) (hw : WF fs) :
    WF fs1 ∧ ∀ q, ¬ a <+: q → ¬ b <+: q → viewAt fs1 q = viewAt fs q :=
  ⟨(rename_frame' h hw).1, (rename_frame' h hw).2.1⟩

/-- a successful Rename leaves what Lstat shows at the two parent directories as it was -/
theorem rename_parents {fs fs1 : T} {d1 d2 : Path} {n1 n2 : Name} (h : rename fs (d1 ++ [n1]) (d2 ++ [n2]) = .ok fs1) (hw : WF fs) :
    viewAt fs1 d1 = viewAt fs d1 ∧ viewAt fs1 d2 = viewAt fs d2 := by
  obtain ⟨_, hview, hinc⟩ := rename_frame' h hw
  rcases hinc with heq | ⟨hab, hba⟩
  · rw [heq]; exact ⟨rfl, rfl⟩
  · have longer : ∀ (d : Path) (n : Name), ¬ (d ++ [n]) <+: d := by
      intro d n hp
      have := hp.length_le
      simp only [List.length_append, List.length_cons, List.length_nil] at this
      omega
    refine ⟨hview d1 (longer d1 n1) ?_, hview d2 ?_ (longer d2 n2)⟩
    · intro hp; exact hba (hp.trans (List.prefix_append d1 [n1]))
    · intro hp; exact hab (hp.trans (List.prefix_append d2 [n2]))

end Fs
end Absnfs
