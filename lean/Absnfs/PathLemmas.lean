/-
  PathLemmas: byte paths versus component paths. On the clean absolute paths the server builds (`CleanPath`),
  `fsPath` (how the backend reads a path) is injective, turns `joinName` into appending a component, and turns
  the cache's byte-prefix test (`Lru.underPrefix`) into the component-prefix relation.
-/
import Absnfs.ServerPaths
namespace Absnfs

theorem splitOnByte_ne_nil (sep : UInt8) (bs : Bytes) : splitOnByte sep bs ≠ [] := by
  induction bs with
  | nil => simp [splitOnByte]
  | cons b bs ih =>
    unfold splitOnByte
    split
    · simp
    · split <;> simp

theorem splitOnByte_cons' (sep b : UInt8) (bs cur : Bytes) (rest : List Bytes) (h : splitOnByte sep bs = cur :: rest) :
    splitOnByte sep (b :: bs) = if b = sep then [] :: cur :: rest else (b :: cur) :: rest := by
  rw [splitOnByte, h]

/-- strings.Split distributes over a separator -/
theorem splitOnByte_append_sep (sep : UInt8) (x y : Bytes) :
    splitOnByte sep (x ++ sep :: y) = splitOnByte sep x ++ splitOnByte sep y := by
  induction x with
  | nil =>
    simp only [List.nil_append]
    cases h : splitOnByte sep y with
    | nil => exact absurd h (splitOnByte_ne_nil sep y)
    | cons cur rest =>
      rw [splitOnByte_cons' sep sep y cur rest h]
      simp [splitOnByte]
  | cons b xs ih =>
    simp only [List.cons_append]
    cases hx : splitOnByte sep xs with
    | nil => exact absurd hx (splitOnByte_ne_nil sep xs)
    | cons cur rest =>
      rw [splitOnByte_cons' sep b xs cur rest hx]
      rw [splitOnByte_cons' sep b (xs ++ sep :: y) cur (rest ++ splitOnByte sep y) (by rw [ih, hx]; rfl)]
      split <;> simp

/-- a string without the separator is one piece -/
theorem splitOnByte_noSep (sep : UInt8) (c : Bytes) (h : sep ∉ c) : splitOnByte sep c = [c] := by
  induction c with
  | nil => rfl
  | cons b bs ih =>
    have hb : b ≠ sep := fun e => h (by simp [e])
    have hbs : sep ∉ bs := fun e => h (by simp [e])
    unfold splitOnByte
    rw [ih hbs]
    simp [hb]

namespace Server

theorem fsPath_root : fsPath [47] = [] := by decide

theorem fsPath_joinName (d name : Bytes) (hn : NoSep name) : fsPath (joinName d name) = fsPath d ++ [name] := by
  obtain ⟨h1, h2, h3, _⟩ := hn
  unfold joinName
  split
  · rename_i hd
    subst hd
    have : (47 : UInt8) :: name = [] ++ 47 :: name := rfl
    rw [this]
    unfold fsPath
    rw [splitOnByte_append_sep, splitOnByte_noSep 47 name h2]
    simp [splitOnByte, h1, h3]
  · unfold fsPath
    rw [splitOnByte_append_sep, splitOnByte_noSep 47 name h2]
    simp [h1, h3]

theorem cleanPath_ne_nil {p : Bytes} (h : CleanPath p) : p ≠ [] := by
  cases h with
  | root => simp
  | child d name hd hn =>
    unfold joinName
    split <;> simp

theorem cleanPath_head {p : Bytes} (h : CleanPath p) : p.head? = some 47 := by
  induction h with
  | root => rfl
  | child d name hd hn ih =>
    unfold joinName
    split
    · rfl
    · cases d with
      | nil => simp at ih
      | cons a as => simpa using ih

/-- the component path of a clean byte path determines it -/
theorem fsPath_inj {p q : Bytes} (hp : CleanPath p) (hq : CleanPath q) (h : fsPath p = fsPath q) : p = q := by
  induction hp generalizing q with
  | root =>
    cases hq with
    | root => rfl
    | child d name hd hn =>
      rw [fsPath_root, fsPath_joinName d name hn] at h
      simp at h
  | child d name hd hn ih =>
    cases hq with
    | root =>
      rw [fsPath_root, fsPath_joinName d name hn] at h
      simp at h
    | child d' name' hd' hn' =>
      rw [fsPath_joinName d name hn, fsPath_joinName d' name' hn'] at h
      have hlen : (fsPath d).length = (fsPath d').length := by
        have := congrArg List.length h
        simp only [List.length_append, List.length_cons, List.length_nil] at this
        omega
      obtain ⟨h1, h2⟩ := List.append_inj h hlen
      simp only [List.cons.injEq, and_true] at h2
      rw [ih hd' h1, h2]

theorem fsPath_eq_nil {p : Bytes} (hp : CleanPath p) (h : fsPath p = []) : p = [47] :=
  fsPath_inj hp .root (by rw [h, fsPath_root])

/-- a clean path other than the root does not end in '/' -/
theorem cleanPath_getLast {p : Bytes} (hp : CleanPath p) (hne : p ≠ [47]) : p.getLast? ≠ some 47 := by
  cases hp with
  | root => exact absurd rfl hne
  | child d name hd hn =>
    obtain ⟨h1, h2, _, _⟩ := hn
    have hl : name.getLast? ≠ some 47 := by
      intro h
      exact h2 (List.mem_of_getLast? h)
    unfold joinName
    split
    · rw [List.getLast?_cons]
      cases hg : name.getLast? with
      | none => simp [List.getLast?_eq_none_iff] at hg; exact absurd hg h1
      | some x => simp only [Option.getD_some]; rw [hg] at hl; exact hl
    · rw [List.getLast?_append, List.getLast?_cons]
      cases hg : name.getLast? with
      | none => simp [List.getLast?_eq_none_iff] at hg; exact absurd hg h1
      | some x => simp only [Option.getD_some, Option.some_or]; rw [hg] at hl; exact hl

/-- C02 (RENAME): an entry that survives `InvalidatePrefix(p)` is not at or below `p` in the tree -/
theorem underPrefix_of_prefix {p k : Bytes} (hp : CleanPath p) (hk : CleanPath k)
    (h : fsPath p <+: fsPath k) : Lru.underPrefix k p = true := by
  by_cases hroot : p = [47]
  · subst hroot
    unfold Lru.underPrefix
    simp only [Bool.or_eq_true, beq_iff_eq]
    right
    have := cleanPath_head hk
    cases k with
    | nil => simp at this
    | cons a as =>
      simp only [List.head?_cons, Option.some.injEq] at this
      subst this
      simp
  · have hpre : (if p.getLast? = some 47 then p.dropLast else p) ++ [47] = p ++ [47] := by
      simp [cleanPath_getLast hp hroot]
    unfold Lru.underPrefix
    simp only [hpre, Bool.or_eq_true, beq_iff_eq]
    induction hk with
    | root =>
      rw [fsPath_root] at h
      have := List.prefix_nil.mp h
      exact absurd (fsPath_eq_nil hp this) hroot
    | child d name hd hn ih =>
      rw [fsPath_joinName d name hn, List.prefix_concat_iff] at h
      rcases h with h | h
      · left
        have := fsPath_inj hp (.child d name hd hn) (by rw [h, fsPath_joinName d name hn])
        exact this.symm
      · right
        rcases ih h with h1 | h1
        · subst h1
          unfold joinName
          simp only [hroot, if_false]
          exact List.isPrefixOf_iff_prefix.mpr ⟨name, by simp⟩
        · have hdne : d ≠ [47] := by
            intro hd47
            subst hd47
            have := List.isPrefixOf_iff_prefix.mp h1
            have hl := this.length_le
            simp only [List.length_append, List.length_cons, List.length_nil] at hl
            have : p.length = 0 := by omega
            exact cleanPath_ne_nil hp (List.eq_nil_of_length_eq_zero this)
          unfold joinName
          simp only [hdne, if_false]
          have := List.isPrefixOf_iff_prefix.mp h1
          exact List.isPrefixOf_iff_prefix.mpr (this.trans (List.prefix_append d (47 :: name)))


theorem splitOnByte_pieces_noSep (sep : UInt8) (bs : Bytes) : ∀ c ∈ splitOnByte sep bs, sep ∉ c := by
  induction bs with
  | nil => intro c hc; simp [splitOnByte] at hc; subst hc; simp
  | cons b bs ih =>
    cases hx : splitOnByte sep bs with
    | nil => exact absurd hx (splitOnByte_ne_nil sep bs)
    | cons cur rest =>
      rw [splitOnByte_cons' sep b bs cur rest hx]
      rw [hx] at ih
      intro c hc
      split at hc
      · simp only [List.mem_cons] at hc
        rcases hc with rfl | rfl | hc
        · simp
        · exact ih _ (List.mem_cons_self ..)
        · exact ih c (List.mem_cons_of_mem _ hc)
      · rename_i hb
        simp only [List.mem_cons] at hc
        rcases hc with rfl | hc
        · intro hmem
          simp only [List.mem_cons] at hmem
          rcases hmem with h1 | h1
          · exact hb h1.symm
          · exact ih cur (List.mem_cons_self ..) h1
        · exact ih c (List.mem_cons_of_mem _ hc)

/-- path.Clean's components are joinable names: non-empty, no '/', not "." or ".." -/
theorem applyTarget_noSep (base : Fs.Path) (t : Bytes) (hb : ∀ c ∈ base, NoSep c) : ∀ c ∈ Fs.applyTarget base t, NoSep c := by
  unfold Fs.applyTarget
  simp only
  have hpieces := splitOnByte_pieces_noSep 47 t
  generalize splitOnByte 47 t = comps at hpieces
  have hstart : ∀ c ∈ (if t.head? = some 47 then ([] : Fs.Path) else base), NoSep c := by
    split
    · intro c hc; simp at hc
    · exact hb
  generalize (if t.head? = some 47 then ([] : Fs.Path) else base) = start at hstart
  induction comps generalizing start with
  | nil => simpa using hstart
  | cons x xs ih =>
    simp only [List.foldl_cons]
    apply ih (fun c hc => hpieces c (List.mem_cons_of_mem _ hc))
    split
    · exact hstart
    · rename_i h1
      split
      · intro c hc; exact hstart c (List.dropLast_subset _ hc)
      · rename_i h2
        intro c hc
        simp only [List.mem_append, List.mem_singleton] at hc
        rcases hc with hc | rfl
        · exact hstart c hc
        · simp only [not_or] at h1
          exact ⟨h1.1, hpieces c (List.mem_cons_self ..), h1.2, h2⟩

theorem foldl_join_clean' (comps : List Bytes) (h : ∀ c ∈ comps, NoSep c) (acc : Bytes)
    (hacc : acc = [] ∨ (CleanPath acc ∧ acc ≠ [47])) :
    comps ≠ [] ∨ acc ≠ [] → CleanPath (comps.foldl (fun a c => a ++ 47 :: c) acc) := by
  induction comps generalizing acc with
  | nil =>
    intro hne
    simp only [List.foldl_nil]
    rcases hacc with h0 | h1
    · rcases hne with h2 | h2
      · exact absurd rfl h2
      · exact absurd h0 h2
    · exact h1.1
  | cons c cs ih =>
    intro _
    simp only [List.foldl_cons]
    have hns := h c (List.mem_cons_self ..)
    apply ih (fun x hx => h x (List.mem_cons_of_mem _ hx))
    · right
      rcases hacc with h0 | ⟨h1, h2⟩
      · subst h0
        refine ⟨?_, ?_⟩
        · have : ([] : Bytes) ++ 47 :: c = joinName [47] c := by simp [joinName]
          rw [this]; exact .child [47] c .root hns
        · intro heq
          simp only [List.nil_append, List.cons.injEq, true_and] at heq
          exact hns.1 heq
      · refine ⟨?_, ?_⟩
        · have : acc ++ 47 :: c = joinName acc c := by simp [joinName, h2]
          rw [this]; exact .child acc c h1 hns
        · intro heq
          have := congrArg List.length heq
          simp only [List.length_append, List.length_cons, List.length_nil] at this
          have : acc.length = 0 := by omega
          have hnil : acc = [] := List.eq_nil_of_length_eq_zero this
          rw [hnil] at heq
          simp only [List.nil_append, List.cons.injEq, true_and] at heq
          exact hns.1 heq
    · right
      intro heq
      have := congrArg List.length heq
      simp at this

/-- path.Clean of an absolute path is a clean path -/
theorem cleanAbs_clean (raw : Bytes) : CleanPath (cleanAbs raw) := by
  unfold cleanAbs
  simp only
  split
  · exact .root
  · rename_i hne
    exact foldl_join_clean' _ (applyTarget_noSep [] raw (fun c hc => by simp at hc)) [] (.inl rfl) (.inl hne)

end Server
end Absnfs
