/-
  PoolInv: invariants of the worker-pool transition system and the progress lemma.
-/
import Absnfs.Pool
namespace Absnfs
namespace Pool

theorem split_at {α : Type} {l : List α} {i : Nat} {x : α} (h : l[i]? = some x) (y : α) :
    ∃ a b, l = a ++ x :: b ∧ l.set i y = a ++ y :: b := by
  induction l generalizing i with
  | nil => simp at h
  | cons z zs ih =>
    cases i with
    | zero =>
      simp at h; subst h
      exact ⟨[], zs, rfl, rfl⟩
    | succ j =>
      simp at h
      obtain ⟨a, b, h1, h2⟩ := ih h
      exact ⟨z :: a, b, by simp [h1], by simp [h2]⟩

def tasksOf (ws : List Worker) : List Nat := ws.filterMap (·.task)

/-- occurrences of `x` in the one-element list `[t]` (kept opaque for `omega`) -/
def one (x t : Nat) : Nat := List.count x [t]

theorem count_cons_one (x t : Nat) (l : List Nat) : List.count x (t :: l) = one x t + List.count x l := by
  simp only [one, List.count_cons, List.count_nil]; omega

/-- close a permutation goal from a permutation hypothesis by counting occurrences -/
syntax "perm_count " ident : tactic
macro_rules
  | `(tactic| perm_count $h) => `(tactic|
      (rw [List.perm_iff_count] at $h:ident ⊢
       intro x
       have hx := $h:ident x
       simp only [List.count_append, count_cons_one, List.count_nil] at hx ⊢
       omega))

structure Inv (n : Nat) (drains : Bool) (s : St) : Prop where
  perm : (s.queue ++ (busy s ++ (s.executed ++ s.told))).Perm s.accepted
  nodup : s.accepted.Nodup
  exitedIdle : ∀ w ∈ s.workers, w.exited = true → w.task = none
  exitedWhy : (∃ w ∈ s.workers, w.exited = true) → (s.ctxDone = true ∨ s.closed = true)
  doneNotRunning : s.ctxDone = true → s.running = false
  closedDone : s.closed = true → s.ctxDone = true
  stoppedAll : s.stopped = true → (s.closed = true ∧ (∀ w ∈ s.workers, w.exited = true) ∧ (drains = true → s.queue = []))
  size : s.workers.length = n

theorem inv_init (n : Nat) (drains : Bool) : Inv n drains (init n) := by
  constructor <;> simp [init, busy]

theorem inv_step (n : Nat) (drains : Bool) (s s' : St) (hI : Inv n drains s) (hs : Step drains s s') :
    Inv n drains s' := by
  cases hs with
  | submit t hr hc hroom hnew =>
    constructor
    · have hp := hI.perm
      simp only [busy] at hp ⊢
      perm_count hp
    · exact List.nodup_cons.mpr ⟨hnew, hI.nodup⟩
    · exact hI.exitedIdle
    · exact hI.exitedWhy
    · exact hI.doneNotRunning
    · exact hI.closedDone
    · intro hst
      have h1 := hI.stoppedAll hst
      have h2 := hI.doneNotRunning (hI.closedDone h1.1)
      rw [hr] at h2; exact absurd h2 (by decide)
    · exact hI.size
  | take i t rest hi hq =>
    obtain ⟨a, b, h1, h2⟩ := split_at hi (⟨some t, false⟩ : Worker)
    constructor
    · have hp := hI.perm
      simp only [busy, setWorker] at hp ⊢
      rw [h2]; rw [h1, hq] at hp
      simp only [List.filterMap_append, List.filterMap_cons] at hp ⊢
      perm_count hp
    · exact hI.nodup
    · intro w hw hex
      simp only [setWorker, h2, List.mem_append, List.mem_cons] at hw
      rcases hw with hw | rfl | hw
      · exact hI.exitedIdle w (by rw [h1]; simp [hw]) hex
      · simp at hex
      · exact hI.exitedIdle w (by rw [h1]; simp [hw]) hex
    · intro ⟨w, hw, hex⟩
      apply hI.exitedWhy
      simp only [setWorker, h2, List.mem_append, List.mem_cons] at hw
      rcases hw with hw | rfl | hw
      · exact ⟨w, by rw [h1]; simp [hw], hex⟩
      · simp at hex
      · exact ⟨w, by rw [h1]; simp [hw], hex⟩
    · exact hI.doneNotRunning
    · exact hI.closedDone
    · intro hst
      have := hI.stoppedAll hst
      have hx := this.2.1 ⟨none, false⟩ (by rw [h1]; simp)
      simp at hx
    · simp [setWorker, hI.size]
  | finish i t hi =>
    obtain ⟨a, b, h1, h2⟩ := split_at hi (⟨none, false⟩ : Worker)
    constructor
    · have hp := hI.perm
      simp only [busy, setWorker] at hp ⊢
      rw [h2]; rw [h1] at hp
      simp only [List.filterMap_append, List.filterMap_cons] at hp ⊢
      perm_count hp
    · exact hI.nodup
    · intro w hw hex
      simp only [setWorker, h2, List.mem_append, List.mem_cons] at hw
      rcases hw with hw | rfl | hw
      · exact hI.exitedIdle w (by rw [h1]; simp [hw]) hex
      · rfl
      · exact hI.exitedIdle w (by rw [h1]; simp [hw]) hex
    · intro ⟨w, hw, hex⟩
      apply hI.exitedWhy
      simp only [setWorker, h2, List.mem_append, List.mem_cons] at hw
      rcases hw with hw | rfl | hw
      · exact ⟨w, by rw [h1]; simp [hw], hex⟩
      · simp at hex
      · exact ⟨w, by rw [h1]; simp [hw], hex⟩
    · exact hI.doneNotRunning
    · exact hI.closedDone
    · intro hst
      have := hI.stoppedAll hst
      have hx := this.2.1 ⟨some t, false⟩ (by rw [h1]; simp)
      simp at hx
    · simp [setWorker, hI.size]
  | exitCtx i hi hd =>
    obtain ⟨a, b, h1, h2⟩ := split_at hi (⟨none, true⟩ : Worker)
    constructor
    · have hp := hI.perm
      simp only [busy, setWorker] at hp ⊢
      rw [h2]; rw [h1] at hp
      simp only [List.filterMap_append, List.filterMap_cons] at hp ⊢
      perm_count hp
    · exact hI.nodup
    · intro w hw hex
      simp only [setWorker, h2, List.mem_append, List.mem_cons] at hw
      rcases hw with hw | rfl | hw
      · exact hI.exitedIdle w (by rw [h1]; simp [hw]) hex
      · rfl
      · exact hI.exitedIdle w (by rw [h1]; simp [hw]) hex
    · intro _; exact Or.inl hd
    · exact hI.doneNotRunning
    · exact hI.closedDone
    · intro hst
      have := hI.stoppedAll hst
      have hx := this.2.1 ⟨none, false⟩ (by rw [h1]; simp)
      simp at hx
    · simp [setWorker, hI.size]
  | exitClosed i hi hc he =>
    obtain ⟨a, b, h1, h2⟩ := split_at hi (⟨none, true⟩ : Worker)
    constructor
    · have hp := hI.perm
      simp only [busy, setWorker] at hp ⊢
      rw [h2]; rw [h1] at hp
      simp only [List.filterMap_append, List.filterMap_cons] at hp ⊢
      perm_count hp
    · exact hI.nodup
    · intro w hw hex
      simp only [setWorker, h2, List.mem_append, List.mem_cons] at hw
      rcases hw with hw | rfl | hw
      · exact hI.exitedIdle w (by rw [h1]; simp [hw]) hex
      · rfl
      · exact hI.exitedIdle w (by rw [h1]; simp [hw]) hex
    · intro _; exact Or.inr hc
    · exact hI.doneNotRunning
    · exact hI.closedDone
    · intro hst
      have := hI.stoppedAll hst
      have hx := this.2.1 ⟨none, false⟩ (by rw [h1]; simp)
      simp at hx
    · simp [setWorker, hI.size]
  | stopBegin hr =>
    constructor
    · exact hI.perm
    · exact hI.nodup
    · exact hI.exitedIdle
    · intro _; exact Or.inl rfl
    · intro _; rfl
    · intro _; rfl
    · intro hst
      have := hI.stoppedAll hst
      have := hI.doneNotRunning (hI.closedDone this.1)
      rw [hr] at this; exact absurd this (by decide)
    · exact hI.size
  | stopClose hr hd hc =>
    constructor
    · exact hI.perm
    · exact hI.nodup
    · exact hI.exitedIdle
    · intro _; exact Or.inr rfl
    · intro _; exact hr
    · intro _; exact hd
    · intro hst
      have := (hI.stoppedAll hst).1
      rw [hc] at this; exact absurd this (by decide)
    · exact hI.size
  | stopDone hc hs hall =>
    cases drains with
    | false =>
      simp only [Bool.false_eq_true, if_false]
      exact ⟨hI.perm, hI.nodup, hI.exitedIdle, hI.exitedWhy, hI.doneNotRunning, hI.closedDone,
        fun _ => ⟨hc, hall, fun h => absurd h (by decide)⟩, hI.size⟩
    | true =>
      simp only [if_true]
      constructor
      · have hp := hI.perm
        simp only [busy] at hp ⊢
        perm_count hp
      · exact hI.nodup
      · exact hI.exitedIdle
      · exact hI.exitedWhy
      · exact hI.doneNotRunning
      · exact hI.closedDone
      · intro _; exact ⟨hc, hall, fun _ => rfl⟩
      · exact hI.size

theorem inv_reach (n : Nat) (drains : Bool) (s : St) (h : Reach drains n s) : Inv n drains s := by
  induction h with
  | init => exact inv_init n drains
  | step s s' _ hs ih => exact inv_step n drains s s' ih hs

end Pool
end Absnfs
