/-
  Bytes: byte strings and big-endian integer codecs.
  Models encoding/binary.BigEndian as used by xdrEncodeUint32/xdrEncodeUint64/
  xdrDecodeUint32 (rpc_types.go) and binary.Read/Write of uint32/uint64.
  Go `[]byte` and `string` are both `List UInt8` here (Go strings are byte strings).
-/
namespace Absnfs

abbrev Bytes := List UInt8

def zeros (n : Nat) : Bytes := List.replicate n 0

@[simp] theorem zeros_length (n : Nat) : (zeros n).length = n := by simp [zeros]

/-- XDR padding needed after `n` bytes: `(4 - n % 4) % 4`. -/
def pad4 (n : Nat) : Nat := (4 - n % 4) % 4

theorem pad4_lt (n : Nat) : pad4 n < 4 := by unfold pad4; omega
theorem pad4_spec (n : Nat) : (n + pad4 n) % 4 = 0 := by unfold pad4; omega

def encU32 (n : Nat) : Bytes :=
  [UInt8.ofNat (n / 16777216 % 256), UInt8.ofNat (n / 65536 % 256),
   UInt8.ofNat (n / 256 % 256), UInt8.ofNat (n % 256)]

def decU32 : Bytes → Option (Nat × Bytes)
  | a :: b :: c :: d :: rest =>
      some (16777216 * a.toNat + 65536 * b.toNat + 256 * c.toNat + d.toNat, rest)
  | _ => none

def encU64 (n : Nat) : Bytes := encU32 (n / 4294967296 % 4294967296) ++ encU32 (n % 4294967296)

def decU64 (bs : Bytes) : Option (Nat × Bytes) :=
  match decU32 bs with
  | none => none
  | some (hi, r) =>
    match decU32 r with
    | none => none
    | some (lo, r') => some (4294967296 * hi + lo, r')

@[simp] theorem encU32_length (n : Nat) : (encU32 n).length = 4 := by simp [encU32]
@[simp] theorem encU64_length (n : Nat) : (encU64 n).length = 8 := by simp [encU64]

theorem decU32_encU32 (n : Nat) (h : n < 4294967296) (rest : Bytes) :
    decU32 (encU32 n ++ rest) = some (n, rest) := by
  simp [encU32, decU32]
  omega

theorem decU32_encU32' (n : Nat) (h : n < 4294967296) : decU32 (encU32 n) = some (n, []) := by
  have := decU32_encU32 n h []
  simpa using this

theorem decU32_lt {bs : Bytes} {n : Nat} {r : Bytes} (h : decU32 bs = some (n, r)) :
    n < 4294967296 := by
  match bs, h with
  | a :: b :: c :: d :: rest, h =>
    simp [decU32] at h
    have := a.toNat_lt; have := b.toNat_lt; have := c.toNat_lt; have := d.toNat_lt
    omega

theorem decU32_length {bs : Bytes} {n : Nat} {r : Bytes} (h : decU32 bs = some (n, r)) :
    bs.length = r.length + 4 := by
  match bs, h with
  | a :: b :: c :: d :: rest, h =>
    simp [decU32] at h
    simp [h.2]

theorem decU32_none_of_short {bs : Bytes} (h : bs.length < 4) : decU32 bs = none := by
  match bs with
  | [] => rfl
  | [_] => rfl
  | [_, _] => rfl
  | [_, _, _] => rfl
  | _ :: _ :: _ :: _ :: _ => simp at h; omega

theorem decU32_eq_split {bs : Bytes} {n : Nat} {r : Bytes} (h : decU32 bs = some (n, r)) :
    bs = encU32 n ++ r := by
  match bs, h with
  | a :: b :: c :: d :: rest, h =>
    simp [decU32] at h
    obtain ⟨hn, hr⟩ := h
    subst hr
    have ha := a.toNat_lt; have hb := b.toNat_lt; have hc := c.toNat_lt; have hd := d.toNat_lt
    have e1 : n / 16777216 % 256 = a.toNat := by omega
    have e2 : n / 65536 % 256 = b.toNat := by omega
    have e3 : n / 256 % 256 = c.toNat := by omega
    have e4 : n % 256 = d.toNat := by omega
    simp [encU32, e1, e2, e3, e4]

theorem decU64_encU64 (n : Nat) (h : n < 18446744073709551616) (rest : Bytes) :
    decU64 (encU64 n ++ rest) = some (n, rest) := by
  unfold decU64 encU64
  rw [List.append_assoc, decU32_encU32 _ (by omega)]
  simp only
  rw [decU32_encU32 _ (by omega)]
  simp only
  congr 2
  omega

theorem decU64_lt {bs : Bytes} {n : Nat} {r : Bytes} (h : decU64 bs = some (n, r)) :
    n < 18446744073709551616 := by
  unfold decU64 at h
  split at h
  · simp at h
  · rename_i hi r1 h1
    split at h
    · simp at h
    · rename_i lo r2 h2
      simp at h
      have := decU32_lt h1; have := decU32_lt h2
      omega

theorem decU64_length {bs : Bytes} {n : Nat} {r : Bytes} (h : decU64 bs = some (n, r)) :
    bs.length = r.length + 8 := by
  unfold decU64 at h
  split at h
  · simp at h
  · rename_i hi r1 h1
    split at h
    · simp at h
    · rename_i lo r2 h2
      simp at h
      have := decU32_length h1; have := decU32_length h2
      rw [← h.2]; omega

/-- strings.Split(s, sep) for a one-byte separator -/
def splitOnByte (sep : UInt8) : Bytes → List Bytes
  | [] => [[]]
  | b :: bs =>
    match splitOnByte sep bs with
    | [] => [[b]]
    | cur :: rest => if b = sep then [] :: cur :: rest else (b :: cur) :: rest

/-! Hex I/O for the line-protocol driver (not used in theorems). -/

def hexDigit (n : Nat) : Char :=
  if n < 10 then Char.ofNat (48 + n) else Char.ofNat (87 + n)

def toHex (bs : Bytes) : String :=
  if bs.isEmpty then "-" else
  String.ofList (bs.flatMap fun b => [hexDigit (b.toNat / 16), hexDigit (b.toNat % 16)])

def hexVal (c : Char) : Option Nat :=
  if '0' ≤ c ∧ c ≤ '9' then some (c.toNat - 48)
  else if 'a' ≤ c ∧ c ≤ 'f' then some (c.toNat - 87)
  else none

def fromHexAux : List Char → Bytes → Option Bytes
  | [], acc => some acc.reverse
  | a :: b :: rest, acc =>
    match hexVal a, hexVal b with
    | some x, some y => fromHexAux rest (UInt8.ofNat (x * 16 + y) :: acc)
    | _, _ => none
  | [_], _ => none

def fromHex (s : String) : Option Bytes :=
  if s = "-" then some [] else fromHexAux s.toList []

end Absnfs
