/-
  ServerCoherent: the attribute cache only ever holds what the backend said (C02). Every way the server fills
  the cache — Lookup's miss path, GetAttr, READDIRPLUS's refresh — stores the result of an Lstat made in the
  same step, and a negative entry only after an ENOENT; cache reads only reorder or drop entries. Hence every
  procedure that does not modify the backend preserves coherence. (For the modifying procedures coherence
  additionally needs their invalidations to cover what the modification changes: see Props/C02.)
-/
import Absnfs.ServerAttrs
namespace Absnfs
namespace Server

theorem coherent_of_sub {s s' : St} (hfs : s'.fs = s.fs) (hc : AcCoherent s)
    (hsub : ∀ e ∈ s'.ac.entries, e ∈ s.ac.entries ∨ EntryOK s.fs e) : AcCoherent s' := by
  intro e he
  rw [hfs]
  rcases hsub e he with h | h
  · exact hc e h
  · exact h

theorem acGet_coherent (s : St) (now : Nat) (p : Bytes) (hc : AcCoherent s) : AcCoherent (acGet s now p).1 := by
  apply coherent_of_sub (s := s) (s' := (acGet s now p).1) rfl hc
  intro e he
  exact .inl (Lru.get_sub s.ac now p e he)

theorem acPut_coherent (s : St) (now : Nat) (p : Bytes) (a : Attrs) (hc : AcCoherent s) (ha : MatchesLstat s.fs p a) :
    AcCoherent (acPut s now p a) := by
  apply coherent_of_sub (s := s) (s' := acPut s now p a) rfl hc
  intro e he
  rcases Lru.putEntry_sub s.ac _ e he with h | h
  · right; rw [h]; exact ha
  · exact .inl h

theorem acPutNeg_coherent (s : St) (now : Nat) (p : Bytes) (hc : AcCoherent s)
    (he : ∃ err, Fs.lstat s.fs (fsPath p) = .error err) : AcCoherent (acPutNeg s now p) := by
  apply coherent_of_sub (s := s) (s' := acPutNeg s now p) rfl hc
  intro e hmem
  unfold acPutNeg Lru.putNegative at hmem
  simp only at hmem
  split at hmem
  · rcases Lru.putEntry_sub s.ac _ e hmem with h | h
    · right; rw [h]; exact he
    · exact .inl h
  · exact .inl hmem

theorem lookupPath_coherent (s : St) (now : Nat) (p : Bytes) (hc : AcCoherent s) : AcCoherent (lookupPath s now p).1 := by
  unfold lookupPath
  split
  · exact hc
  · have h1 := acGet_coherent s now p hc
    simp only
    split
    · exact h1
    · exact h1
    · split
      · rename_i e he
        split
        · exact acPutNeg_coherent _ now p h1 ⟨e, by simpa using he⟩
        · exact h1
      · rename_i i hi
        exact acPut_coherent _ now p _ h1 ⟨i, by simpa using hi, rfl, rfl, rfl, rfl⟩

theorem getAttr_coherent (s : St) (now : Nat) (n : Node) (hc : AcCoherent s) : AcCoherent (getAttr s now n).1 := by
  unfold getAttr
  have h1 := acGet_coherent s now n.path hc
  simp only
  split
  · exact h1
  · rename_i i hi
    exact acPut_coherent _ now n.path _ h1 ⟨i, by simpa using hi, rfl, rfl, rfl, rfl⟩

theorem getAttrOr_coherent (s : St) (now : Nat) (n : Node) (d : Attrs) (hc : AcCoherent s) : AcCoherent (getAttrOr s now n d).1 := by
  unfold getAttrOr
  have := getAttr_coherent s now n hc
  split <;> simp_all

theorem allocate_coherent (s : St) (n : Node) (hc : AcCoherent s) : AcCoherent (allocate s n).1 := hc

theorem lookupEach_coherent (s : St) (now : Nat) (dir : Bytes) (names : List Bytes) (hc : AcCoherent s) :
    AcCoherent (lookupEach s now dir names).1 := by
  induction names generalizing s with
  | nil => exact hc
  | cons n ns ih =>
    unfold lookupEach
    split
    · exact ih s hc
    · split
      · exact ih s hc
      · rename_i p _
        have hl := lookupPath_coherent s now p hc
        split
        · rename_i s1 _ heq; rw [heq] at hl; exact ih s1 hl
        · rename_i s1 node heq; rw [heq] at hl; exact ih s1 hl

theorem readDir_coherent (s : St) (now : Nat) (d : Node) (hc : AcCoherent s) : AcCoherent (readDir s now d).1 := by
  unfold readDir
  simp only
  split
  · rename_i s1 names heq
    simp only
    apply lookupEach_coherent
    split at heq
    · simp at heq
    · split at heq
      · simp only [Option.some.injEq, Prod.mk.injEq] at heq
        rw [← heq.1]; exact hc
      · simp at heq
  · split
    · exact hc
    · simp only
      apply lookupEach_coherent
      exact hc

/-- nodes produced by Lookup over a coherent cache carry their path's fileid -/
theorem lookupEach_fileIds (s : St) (now : Nat) (dir : Bytes) (names : List Bytes) (hc : AcCoherent s) :
    ∀ n ∈ (lookupEach s now dir names).2, n.attrs.fileId = fnv64 n.path := by
  induction names generalizing s with
  | nil => intro n hn; simp [lookupEach] at hn
  | cons x xs ih =>
    unfold lookupEach
    split
    · exact ih s hc
    · split
      · exact ih s hc
      · rename_i p _
        have hl := lookupPath_coherent s now p hc
        split
        · rename_i s1 _ heq; rw [heq] at hl; exact ih s1 hl
        · rename_i s1 node heq
          rw [heq] at hl
          simp only
          intro n hn
          simp only [List.mem_cons] at hn
          rcases hn with rfl | hn
          · obtain ⟨hp, i, _, _, _, _, hf⟩ := (lookupPath_sound (s' := s1) hc).1 n heq
            rw [hf, hp]
          · exact ih s1 hl n hn

theorem refreshEach_coherent (s : St) (now : Nat) (l : List Node) (hc : AcCoherent s)
    (hids : ∀ n ∈ l, n.attrs.fileId = fnv64 n.path) : AcCoherent (refreshEach s now l).1 := by
  induction l generalizing s with
  | nil => exact hc
  | cons n ns ih =>
    unfold refreshEach
    simp only
    have h1 := acGet_coherent s now n.path hc
    have hrest : ∀ m ∈ ns, m.attrs.fileId = fnv64 m.path := fun m hm => hids m (List.mem_cons_of_mem _ hm)
    split
    · exact ih _ h1 hrest
    · rename_i i hi
      apply ih _ _ hrest
      exact acPut_coherent _ now n.path _ h1
        ⟨i, by simpa using hi, rfl, rfl, rfl, by simp [attrsOfInfo, hids n (List.mem_cons_self ..)]⟩

end Server
end Absnfs

namespace Absnfs
namespace Server

theorem getAttr_coherent' {s s' : St} {now : Nat} {n : Node} {r : Except Fs.Errno Attrs} (h : getAttr s now n = (s', r))
    (hc : AcCoherent s) : AcCoherent s' := by
  have := getAttr_coherent s now n hc; rw [h] at this; exact this

theorem lookupPath_coherent' {s s' : St} {now : Nat} {p : Bytes} {r : Except Fs.Errno Node} (h : lookupPath s now p = (s', r))
    (hc : AcCoherent s) : AcCoherent s' := by
  have := lookupPath_coherent s now p hc; rw [h] at this; exact this

theorem readDir_coherent' {s s' : St} {now : Nat} {d : Node} {r : Except Fs.Errno (List Node)} (h : readDir s now d = (s', r))
    (hc : AcCoherent s) : AcCoherent s' := by
  have := readDir_coherent s now d hc; rw [h] at this; exact this

theorem fillDirPlus_ac (limit cookie : Nat) (s : St) (i used cnt : Nat) (l : List Node) :
    (fillDirPlus limit cookie s i used cnt l).1.ac = s.ac ∧ (fillDirPlus limit cookie s i used cnt l).1.fs = s.fs := by
  induction l generalizing s i used cnt with
  | nil => exact ⟨rfl, rfl⟩
  | cons e es ih =>
    unfold fillDirPlus
    split
    · exact ih ..
    · simp only
      split
      · exact ⟨rfl, rfl⟩
      · have := ih (allocate s e).1 (i + 1) (used + entrySize (baseName e.path) + plusExtra) (cnt + 1)
        split
        · rename_i heq; rw [heq] at this; exact this
        · rename_i heq; rw [heq] at this; exact this

theorem procGetattr_coherent (s : St) (c : Ctx) (args : Bytes) (hc : AcCoherent s) : AcCoherent (procGetattr s c args).1 := by
  unfold procGetattr
  split
  · exact hc
  · split
    · exact hc
    · split <;> (rename_i h; exact getAttr_coherent' h hc)

theorem procLookup_coherent (s : St) (c : Ctx) (args : Bytes) (hc : AcCoherent s) : AcCoherent (procLookup s c args).1 := by
  unfold procLookup
  split
  · exact hc
  · split
    · exact hc
    · split
      · exact hc
      · split
        · exact hc
        · have keep : ∀ (t : St) (n : Node) (k : Attrs → Outcome), AcCoherent t → AcCoherent (lookupDirAttr t c.now n k).1 :=
            fun t n k ht => getAttrOr_coherent t c.now n n.attrs ht
          split
          · exact keep _ _ _ hc
          · split
            · rename_i h; exact keep _ _ _ (lookupPath_coherent' h hc)
            · rename_i h; exact keep _ _ _ (allocate_coherent _ _ (lookupPath_coherent' h hc))

theorem procAccess_coherent (s : St) (c : Ctx) (args : Bytes) (hc : AcCoherent s) : AcCoherent (procAccess s c args).1 := by
  unfold procAccess
  split
  · exact hc
  · split
    · exact hc
    · split
      · exact hc
      · split <;> (rename_i h; exact getAttr_coherent' h hc)

theorem procReadlink_coherent (s : St) (c : Ctx) (args : Bytes) (hc : AcCoherent s) : AcCoherent (procReadlink s c args).1 := by
  unfold procReadlink
  split
  · exact hc
  · split
    · exact hc
    · split
      · exact hc
      · split
        · exact hc
        · split
          · exact hc
          · split <;> (rename_i h; exact getAttr_coherent' h hc)

theorem procRead_coherent (s : St) (c : Ctx) (args : Bytes) (hc : AcCoherent s) : AcCoherent (procRead s c args).1 := by
  unfold procRead
  split
  · exact hc
  · split
    · exact hc
    · split
      · exact hc
      · split
        · exact hc
        · split
          · exact hc
          · split
            · exact hc
            · simp only
              split
              · exact hc
              · split <;> (rename_i h; exact getAttr_coherent' h hc)

theorem withObjAttr_coherent (s : St) (c : Ctx) (args : Bytes) (k : Rfc.Fattr → Rfc.Body) (hc : AcCoherent s) :
    AcCoherent (withObjAttr s c args k).1 := by
  unfold withObjAttr
  split
  · exact hc
  · split
    · exact hc
    · split <;> (rename_i h; exact getAttr_coherent' h hc)

theorem procReaddir_coherent (s : St) (c : Ctx) (args : Bytes) (hc : AcCoherent s) : AcCoherent (procReaddir s c args).1 := by
  unfold procReaddir
  split
  · exact hc
  · split
    · exact hc
    · split
      · exact hc
      · split
        · exact hc
        · split
          · exact hc
          · split
            · exact hc
            · split
              · rename_i h; exact readDir_coherent' h hc
              · rename_i h1
                have hc1 := readDir_coherent' h1 hc
                split
                · rename_i h2; exact getAttr_coherent' h2 hc1
                · rename_i h2
                  have hc2 := getAttr_coherent' h2 hc1
                  simp only
                  split <;> exact hc2

theorem procMnt_coherent (s : St) (c : Ctx) (args : Bytes) (hc : AcCoherent s) : AcCoherent (procMnt s c args).1 := by
  unfold procMnt
  split
  · exact hc
  · split
    · exact hc
    · simp only
      generalize (if cleanAbs _ = [47] then 0 else firstBadComponent _) = bad
      split
      · exact hc
      · split
        · rename_i h; exact lookupPath_coherent' h hc
        · rename_i h; exact allocate_coherent _ _ (lookupPath_coherent' h hc)

end Server
end Absnfs

