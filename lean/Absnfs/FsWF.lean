/-
  FsWF: well-formedness of the backing-filesystem model (every stored path's parent is a stored directory) and
  what it buys: resolution (`walk`, hence Lstat) is just a map lookup. Each operation keeps it.
-/
import Absnfs.FsLemmas
namespace Absnfs
namespace Fs

/-- no orphans: the parent of every stored path is a stored directory -/
def Orphanless (fs : T) : Prop :=
  ∀ q e, get fs q = some e → q ≠ [] → ∃ pe, get fs q.dropLast = some pe ∧ pe.kind = .dir

/-- the map is a map: no path is stored twice -/
def NoDupKeys (fs : T) : Prop := (fs.ents.map (·.1)).Nodup

/-- well-formed: no orphans, no path stored twice -/
def WF (fs : T) : Prop := Orphanless fs ∧ NoDupKeys fs

theorem nodup_set {fs : T} (h : NoDupKeys fs) (p : Path) (e : Entry) : NoDupKeys (set fs p e) := by
  unfold NoDupKeys set
  simp only [List.map_cons, List.nodup_cons]
  refine ⟨?_, h.sublist ((List.filter_sublist).map _)⟩
  intro hm
  obtain ⟨x, hx, hxp⟩ := List.mem_map.mp hm
  have := (List.mem_filter.mp hx).2
  simp [hxp] at this

theorem nodup_del {fs : T} (h : NoDupKeys fs) (p : Path) : NoDupKeys (del fs p) := by
  unfold NoDupKeys del
  exact h.sublist ((List.filter_sublist).map _)

theorem wf_empty (m : Nat) : WF (empty m) := by
  refine ⟨?_, by simp [NoDupKeys, empty]⟩
  intro q e h hne
  unfold get empty at h
  simp only [List.find?_cons, List.find?_nil] at h
  split at h
  · rename_i hq
    simp only [beq_iff_eq] at hq
    exact absurd hq.symm hne
  · simp at h

/-- under WF, a stored path resolves to what is stored -/
theorem walk_of_get {fs : T} (hw : WF fs) : ∀ (n : Nat) (q : Path) (e : Entry), q.length = n → get fs q = some e → walk fs q = .ok e := by
  intro n
  induction n with
  | zero =>
    intro q e hl hg
    have : q = [] := List.eq_nil_of_length_eq_zero hl
    subst this
    simp [walk, walkFrom, hg]
  | succ n ih =>
    intro q e hl hg
    have hne : q ≠ [] := by intro h; subst h; simp at hl
    obtain ⟨pe, hpe, hdir⟩ := hw.1 q e hg hne
    have hq := dropLast_append_getLast q hne
    have hlen : q.dropLast.length = n := by simp [List.length_dropLast, hl]
    have hpar := ih q.dropLast pe hlen hpe
    unfold walk at hpar ⊢
    rw [hq, walkFrom_snoc, hpar]
    simp only [hdir, ne_eq, not_true_eq_false, if_false, List.nil_append]
    rw [← hq, hg]

theorem walk_eq_of_get {fs : T} (hw : WF fs) {q : Path} {e : Entry} (hg : get fs q = some e) : walk fs q = .ok e :=
  walk_of_get hw q.length q e rfl hg

theorem walk_err_of_none {fs : T} {q : Path} (hg : get fs q = none) : ∃ err, walk fs q = .error err := by
  cases h : walk fs q with
  | error err => exact ⟨err, rfl⟩
  | ok e => rw [walk_ok_get h] at hg; simp at hg

theorem get_none_of_walk_err {fs : T} (hw : WF fs) {q : Path} {err : Errno} (h : walk fs q = .error err) : get fs q = none := by
  cases hg : get fs q with
  | none => rfl
  | some e => rw [walk_eq_of_get hw hg] at h; simp at h

/-- what Lstat shows of a path: kind, size, permission bits -/
def viewAt (fs : T) (q : Path) : Option (Kind × Nat × Nat) :=
  (get fs q).map fun e => ((infoOf e).kind, (infoOf e).size, (infoOf e).perm)

theorem lstat_ok_view {fs : T} {q : Path} {i : Info} (h : lstat fs q = .ok i) : viewAt fs q = some (i.kind, i.size, i.perm) := by
  unfold lstat at h
  cases hw : walk fs q with
  | error e => simp [hw, Except.map] at h
  | ok e =>
    simp only [hw, Except.map, Except.ok.injEq] at h
    unfold viewAt
    rw [walk_ok_get hw, ← h]
    rfl

theorem lstat_of_view {fs : T} (hw : WF fs) {q : Path} {k : Kind} {sz pm : Nat} (h : viewAt fs q = some (k, sz, pm)) :
    ∃ i, lstat fs q = .ok i ∧ i.kind = k ∧ i.size = sz ∧ i.perm = pm := by
  unfold viewAt at h
  cases hg : get fs q with
  | none => simp [hg] at h
  | some e =>
    simp only [hg, Option.map_some, Option.some.injEq, Prod.mk.injEq] at h
    refine ⟨infoOf e, ?_, h.1, h.2.1, h.2.2⟩
    unfold lstat
    rw [walk_eq_of_get hw hg]
    rfl

theorem lstat_err_view {fs : T} (hw : WF fs) {q : Path} {err : Errno} (h : lstat fs q = .error err) : viewAt fs q = none := by
  unfold lstat at h
  cases hwk : walk fs q with
  | ok e => simp [hwk, Except.map] at h
  | error e' =>
    unfold viewAt
    rw [get_none_of_walk_err hw hwk]
    rfl

theorem lstat_err_of_view {fs : T} {q : Path} (h : viewAt fs q = none) : ∃ err, lstat fs q = .error err := by
  unfold viewAt at h
  cases hg : get fs q with
  | some e => simp [hg] at h
  | none =>
    obtain ⟨err, he⟩ := walk_err_of_none hg
    exact ⟨err, by unfold lstat; rw [he]; rfl⟩

/-! ### WF is kept by the map updates the operations make -/

theorem wf_nextIno {fs : T} (hw : WF fs) (n : Nat) : WF { fs with nextIno := n } := ⟨hw.1, hw.2⟩

theorem wf_set_samekind {fs : T} (hw : WF fs) {p : Path} {e0 e : Entry} (h0 : get fs p = some e0) (hk : e.kind = e0.kind) :
    WF (set fs p e) := by
  refine ⟨?_, nodup_set hw.2 p e⟩
  intro q x hq hne
  rw [get_set] at hq
  have hpar : ∃ pe, get fs q.dropLast = some pe ∧ pe.kind = .dir := by
    split at hq
    · rename_i hqp; subst hqp; exact hw.1 q e0 h0 hne
    · exact hw.1 q x hq hne
  obtain ⟨pe, hpe, hd⟩ := hpar
  rw [get_set]
  split
  · rename_i hdp
    rw [hdp] at hpe
    rw [h0] at hpe
    simp only [Option.some.injEq] at hpe
    exact ⟨e, rfl, by rw [hk, hpe]; exact hd⟩
  · exact ⟨pe, hpe, hd⟩

theorem dropLast_ne_self {α : Type} (p : List α) (h : p ≠ []) : p.dropLast ≠ p := by
  intro heq
  have := congrArg List.length heq
  simp only [List.length_dropLast] at this
  have : p.length ≠ 0 := by intro h0; exact h (List.eq_nil_of_length_eq_zero h0)
  omega

theorem wf_set_new {fs : T} (hw : WF fs) {p : Path} {e pe : Entry} (hnone : get fs p = none) (hne : p ≠ [])
    (hpar : get fs p.dropLast = some pe) (hdir : pe.kind = .dir) : WF (set fs p e) := by
  refine ⟨?_, nodup_set hw.2 p e⟩
  intro q x hq hqne
  rw [get_set] at hq
  split at hq
  · rename_i hqp
    subst hqp
    rw [get_set_other _ _ _ _ (dropLast_ne_self q hne)]
    exact ⟨pe, hpar, hdir⟩
  · obtain ⟨pe', hpe', hd'⟩ := hw.1 q x hq hqne
    rw [get_set]
    split
    · rename_i hdp; rw [hdp, hnone] at hpe'; simp at hpe'
    · exact ⟨pe', hpe', hd'⟩

theorem wf_del_leaf {fs : T} (hw : WF fs) {p : Path} (hleaf : ∀ c, get fs (p ++ [c]) = none) : WF (del fs p) := by
  refine ⟨?_, nodup_del hw.2 p⟩
  intro q x hq hqne
  rw [get_del] at hq
  split at hq
  · simp at hq
  · obtain ⟨pe, hpe, hd⟩ := hw.1 q x hq hqne
    rw [get_del]
    split
    · rename_i hdp
      have := dropLast_append_getLast q hqne
      rw [hdp] at this
      rw [this, hleaf] at hq
      simp at hq
    · exact ⟨pe, hpe, hd⟩

/-- a stored child shows up in `children` -/
theorem children_ne_nil_of_get {fs : T} {p : Path} {c : Name} {x : Entry} (h : get fs (p ++ [c]) = some x) :
    children fs p ≠ [] := by
  unfold get at h
  cases hf : fs.ents.find? (·.1 == p ++ [c]) with
  | none => simp [hf] at h
  | some y =>
    have hmem := List.mem_of_find?_eq_some hf
    have hy : y.1 = p ++ [c] := by have := List.find?_some hf; simpa using this
    unfold children
    intro hnil
    have := List.filterMap_eq_nil_iff.mp hnil y hmem
    obtain ⟨q, e⟩ := y
    simp only at hy
    subst hy
    simp at this

/-- what `remove` requires makes the removed path a leaf -/
theorem leaf_of_removable {fs : T} (hw : WF fs) {p : Path} {e : Entry} (he : get fs p = some e)
    (h : ¬ (e.kind = .dir ∧ children fs p ≠ [])) : ∀ c, get fs (p ++ [c]) = none := by
  intro c
  cases hg : get fs (p ++ [c]) with
  | none => rfl
  | some x =>
    exfalso
    apply h
    obtain ⟨pe, hpe, hd⟩ := hw.1 (p ++ [c]) x hg (by simp)
    simp only [List.dropLast_concat] at hpe
    rw [he] at hpe
    simp only [Option.some.injEq] at hpe
    exact ⟨by rw [hpe]; exact hd, children_ne_nil_of_get hg⟩

end Fs
end Absnfs
