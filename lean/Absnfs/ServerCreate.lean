/-
  ServerCreate: CREATE over a name that is taken (C03).
-/
import Absnfs.ServerFrame
namespace Absnfs
namespace Server

def outStatus : Outcome → Option Nat
  | .res r => some r.status
  | _ => none

theorem createFinish_fs (s2 : St) (st : Nat) (c : Ctx) (n : Node) (pre : Attrs) (p : Bytes) :
    (createFinish s2 st c n pre p).1.fs = s2.fs := by
  unfold createFinish
  split
  · exact getAttrOr_fs s2 c.now n pre
  · have hl := lookupPath_fs s2 c.now p
    split
    · rename_i s3 e heq
      rw [heq] at hl
      simp only
      rw [getAttrOr_fs]; exact hl
    · rename_i s3 node heq
      rw [heq] at hl
      simp only
      rw [allocate_fs, getAttrOr_fs]; exact hl

theorem createFinish_status (s2 : St) (st : Nat) (c : Ctx) (n : Node) (pre : Attrs) (p : Bytes) (h : st ≠ 0) :
    outStatus (createFinish s2 st c n pre p).2 = some st := by
  unfold createFinish
  simp only [h, if_true, ne_eq, not_false_eq_true]
  rfl

theorem createFinish_ok_only_from_zero (s2 : St) (st : Nat) (c : Ctx) (n : Node) (pre : Attrs) (p : Bytes)
    (h : outStatus (createFinish s2 st c n pre p).2 = some 0) : st = 0 := by
  by_cases hst : st = 0
  · exact hst
  · rw [createFinish_status s2 st c n pre p hst] at h
    simp at h; exact h

/-- C03 (a): GUARDED, a non-regular object, or an EXCLUSIVE create whose verifier the table does not accept:
    NFS3ERR_EXIST and nothing is touched. -/
theorem createExisting_exist (s1 : St) (c : Ctx) (n : Node) (pre : Attrs) (p : Bytes) (info : Fs.Info) (how : Nat)
    (sa : Sattr3) (verf : Bytes)
    (hcase : how = 1 ∨ info.kind ≠ .file ∨ (how = 2 ∧ sameExclusive s1 p verf = false)) :
    outStatus (createExisting s1 c n pre p info how sa verf).2 = some 17 ∧
    (createExisting s1 c n pre p info how sa verf).1.fs = s1.fs := by
  have h17 : createStep1 s1 p info how sa verf = (s1, 17) := by
    unfold createStep1
    rcases hcase with h | h | ⟨h2, hs⟩
    · simp [h]
    · simp [h]
    · by_cases h1 : how = 1 ∨ info.kind ≠ .file
      · simp [h1]
      · simp [h1, h2, hs]
  unfold createExisting
  rw [h17]
  exact ⟨createFinish_status s1 17 c n pre p (by decide), createFinish_fs s1 17 c n pre p⟩

/-- C03 (b): without an explicit size, and for every EXCLUSIVE create, nothing is touched, whatever the status. -/
theorem createExisting_untouched (s1 : St) (c : Ctx) (n : Node) (pre : Attrs) (p : Bytes) (info : Fs.Info) (how : Nat)
    (sa : Sattr3) (verf : Bytes) (hcase : how = 2 ∨ sa.size = none) :
    (createExisting s1 c n pre p info how sa verf).1.fs = s1.fs := by
  unfold createExisting
  rw [createFinish_fs]
  unfold createStep1
  split
  · rfl
  · split
    · rfl
    · split
      · rename_i hsz
        rcases hcase with h2 | hn
        · exact absurd h2 hsz.1
        · rw [hn] at hsz; simp at hsz
      · rfl

/-- C03 (c): with an explicit size (UNCHECKED over a regular file) the only possible change is the truncation /
    zero-extension of that file to that size. -/
theorem createExisting_size (s1 : St) (c : Ctx) (n : Node) (pre : Attrs) (p : Bytes) (info : Fs.Info) (how : Nat)
    (sa : Sattr3) (verf : Bytes) (sz : Nat) (hsz : sa.size = some sz) :
    (createExisting s1 c n pre p info how sa verf).1.fs = s1.fs ∨
    Fs.truncate s1.fs (fsPath p) sz = .ok (createExisting s1 c n pre p info how sa verf).1.fs := by
  unfold createExisting
  rw [createFinish_fs]
  unfold createStep1
  split
  · exact .inl rfl
  · split
    · exact .inl rfl
    · split
      · simp only [hsz, Option.getD_some]
        split
        · exact .inl rfl
        · split
          · exact .inl rfl
          · split
            · exact .inl rfl
            · rename_i fs1 htr
              exact .inr (by simpa using htr)
      · exact .inl rfl

/-- C03 (d): NFS3_OK for an EXCLUSIVE create over an existing object means it is a regular file and the
    verifier table accepted the verifier (the retransmission test). -/
theorem createExisting_exclusive_ok (s1 : St) (c : Ctx) (n : Node) (pre : Attrs) (p : Bytes) (info : Fs.Info)
    (sa : Sattr3) (verf : Bytes)
    (h : outStatus (createExisting s1 c n pre p info 2 sa verf).2 = some 0) :
    info.kind = .file ∧ sameExclusive s1 p verf = true := by
  by_cases hk : info.kind = .file
  · by_cases hs : sameExclusive s1 p verf = true
    · exact ⟨hk, hs⟩
    · have := (createExisting_exist s1 c n pre p info 2 sa verf (.inr (.inr ⟨rfl, by simpa using hs⟩))).1
      rw [this] at h; simp at h
  · have := (createExisting_exist s1 c n pre p info 2 sa verf (.inr (.inl hk))).1
    rw [this] at h; simp at h

/-- the verifier table: a path created exclusively accepts exactly the verifier that created it -/
theorem sameExclusive_after_remember (s : St) (p verf v2 : Bytes) :
    sameExclusive (rememberExclusive s p verf) p v2 = (verf == v2) := by
  unfold sameExclusive rememberExclusive
  simp

/-- Truncate at the Fs level: only the data of the file the path resolves to changes, to the old data cut or
    zero-extended to the size. -/
theorem truncate_ok {fs fs1 : Fs.T} {p : Fs.Path} {sz : Nat} (h : Fs.truncate fs p sz = .ok fs1) :
    ∃ q e, Fs.follow fs p = (q, .ok e) ∧ e.kind ≠ .dir ∧ fs1 = Fs.set fs q { e with data := Fs.truncBytes e.data sz } := by
  unfold Fs.truncate at h
  split at h
  · simp at h
  · rename_i q e hf
    split at h
    · simp at h
    · rename_i hk
      split at h
      · simp at h
      · simp only [Except.ok.injEq] at h
        exact ⟨q, e, hf, hk, h.symm⟩

end Server
end Absnfs

namespace Absnfs
namespace Server

/-- CREATE of a name that is taken goes through `createExisting` (with the backend as GETATTR of the directory left it:
    the filesystem itself unchanged) — for every well-formed request on a live directory handle. -/
theorem procCreate_taken (s : St) (c : Ctx) (args : Bytes) (h : Nat) (r1 r2 r3 name : Bytes) (how : Nat) (sa : Sattr3)
    (verf : Bytes) (n : Node) (s1 : St) (pre : Attrs) (info : Fs.Info)
    (hro : s.cfg.readOnly = false) (hfh : decFh' s args = some (h, r1)) (hname : decStr s r1 = some (name, r2))
    (hvalid : validateFilename name = 0) (hhow : decU32 r2 = some (how, r3))
    (hparse : parseCreateHow how r3 = some (sa, verf))
    (hmode : validateMode (sa.mode.getD 0o644) = 0)
    (hn : nodeOf s h = some n) (hpre : getAttr s c.now n = (s1, .ok pre))
    (hlstat : Fs.lstat s1.fs (fsPath (joinName n.path name)) = .ok info) :
    procCreate s c args = createExisting s1 c n pre (joinName n.path name) info how sa verf := by
  unfold procCreate
  simp only [hro, Bool.false_eq_true, if_false, hfh, hname, hvalid, ne_eq, not_true_eq_false, hhow]
  simp only [hparse, hmode, not_true_eq_false, if_false, hn, hpre, hlstat]

end Server
end Absnfs
