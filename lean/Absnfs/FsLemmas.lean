/-
  FsLemmas: the flat-map view of the backing filesystem — what `set`/`del` do to `get`, and which operations
  keep owners / data.
-/
import Absnfs.Fs
namespace Absnfs
namespace Fs

theorem get_set_same (fs : T) (p : Path) (e : Entry) : get (set fs p e) p = some e := by
  simp [get, set]

theorem get_set_other (fs : T) (p q : Path) (e : Entry) (h : q ≠ p) : get (set fs p e) q = get fs q := by
  unfold get set
  simp only [List.find?_cons]
  have h1 : ((p, e).1 == q) = false := by simpa using fun hh => h hh.symm
  rw [h1]
  simp only
  congr 1
  induction fs.ents with
  | nil => rfl
  | cons x xs ih =>
    simp only [List.filter_cons]
    by_cases hx : x.1 = p
    · have hxq : (x.1 == q) = false := by rw [hx]; simpa using fun hh => h hh.symm
      have hne : (x.1 != p) = false := by simp [hx]
      simp only [hne, Bool.false_eq_true, if_false, List.find?_cons, hxq]
      exact ih
    · have : (x.1 != p) = true := by simpa using hx
      simp only [this, if_true, List.find?_cons]
      split
      · rfl
      · exact ih

theorem get_set (fs : T) (p q : Path) (e : Entry) : get (set fs p e) q = if q = p then some e else get fs q := by
  by_cases h : q = p
  · subst h; simp [get_set_same]
  · simp [h, get_set_other fs p q e h]

/-- owner of the object at a path -/
def ownerAt (fs : T) (q : Path) : Option (Nat × Nat) := (get fs q).map fun e => (e.uid, e.gid)

/-- contents (kind and bytes) of the object at a path -/
def contentAt (fs : T) (q : Path) : Option (Kind × Bytes) := (get fs q).map fun e => (e.kind, e.data)

theorem ownerAt_set (fs : T) (p q : Path) (e : Entry) :
    ownerAt (set fs p e) q = if q = p then some (e.uid, e.gid) else ownerAt fs q := by
  unfold ownerAt; rw [get_set]; split <;> rfl

theorem contentAt_set (fs : T) (p q : Path) (e : Entry) :
    contentAt (set fs p e) q = if q = p then some (e.kind, e.data) else contentAt fs q := by
  unfold contentAt; rw [get_set]; split <;> rfl

/-- `walk` returns the entry stored at the path -/
theorem walkFrom_ok_get {fs : T} {pre : Path} {cs : List Name} {e : Entry} (h : walkFrom fs pre cs = .ok e) :
    get fs (pre ++ cs) = some e := by
  induction cs generalizing pre with
  | nil =>
    simp only [walkFrom] at h
    split at h
    · simp only [Except.ok.injEq] at h; subst h; simpa
    · simp at h
  | cons c cs ih =>
    simp only [walkFrom] at h
    split at h
    · simp at h
    · split at h
      · simp at h
      · split at h
        · simp at h
        · have := ih h
          simpa using this

theorem walk_ok_get {fs : T} {p : Path} {e : Entry} (h : walk fs p = .ok e) : get fs p = some e := by
  have := walkFrom_ok_get (pre := []) h
  simpa using this

/-- `follow` ends at a path where that entry is stored -/
theorem followFrom_ok_get {fs : T} {fuel : Nat} {p q : Path} {e : Entry} (h : followFrom fs fuel p = (q, .ok e)) :
    get fs q = some e := by
  induction fuel generalizing p with
  | zero => simp [followFrom] at h
  | succ n ih =>
    simp only [followFrom] at h
    split at h
    · simp at h
    · rename_i e' hw
      split at h
      · exact ih h
      · simp only [Prod.mk.injEq, Except.ok.injEq] at h
        rw [← h.1, ← h.2]
        exact walk_ok_get hw

theorem follow_ok_get {fs : T} {p q : Path} {e : Entry} (h : follow fs p = (q, .ok e)) : get fs q = some e :=
  followFrom_ok_get h

/-- chmod keeps every owner and every object's contents -/
theorem chmod_owner {fs fs1 : T} {p : Path} {perm : Nat} (h : chmod fs p perm = .ok fs1) (q : Path) :
    ownerAt fs1 q = ownerAt fs q ∧ contentAt fs1 q = contentAt fs q := by
  unfold chmod at h
  split at h
  · simp at h
  · rename_i q0 e hf
    simp only [Except.ok.injEq] at h
    subst h
    have hg := follow_ok_get hf
    rw [ownerAt_set, contentAt_set]
    by_cases hq : q = q0
    · subst hq; simp [ownerAt, contentAt, hg]
    · simp [hq]

/-- truncate keeps every owner -/
theorem truncate_owner {fs fs1 : T} {p : Path} {n : Nat} (h : truncate fs p n = .ok fs1) (q : Path) :
    ownerAt fs1 q = ownerAt fs q := by
  unfold truncate at h
  split at h
  · simp at h
  · rename_i q0 e hf
    split at h
    · simp at h
    · split at h
      · simp at h
      · simp only [Except.ok.injEq] at h
        subst h
        have hg := follow_ok_get hf
        rw [ownerAt_set]
        by_cases hq : q = q0
        · subst hq; simp [ownerAt, hg]
        · simp [hq]

/-- chown sets the owner of the object the path resolves to and of nothing else; contents are kept -/
theorem chown_owner {fs fs1 : T} {p : Path} {uid gid : Nat} (h : chown fs p uid gid = .ok fs1) :
    ∃ q0 e, follow fs p = (q0, .ok e) ∧
      ∀ q, ownerAt fs1 q = (if q = q0 then some (uid, gid) else ownerAt fs q) ∧ contentAt fs1 q = contentAt fs q := by
  unfold chown at h
  split at h
  · simp at h
  · rename_i q0 e hf
    simp only [Except.ok.injEq] at h
    subst h
    refine ⟨q0, e, hf, fun q => ?_⟩
    have hg := follow_ok_get hf
    unfold chownAt
    rw [ownerAt_set, contentAt_set]
    by_cases hq : q = q0
    · subst hq; simp [contentAt, hg]
    · simp [hq]

theorem lchown_owner {fs fs1 : T} {p : Path} {uid gid : Nat} (h : lchown fs p uid gid = .ok fs1) :
    ∀ q, ownerAt fs1 q = (if q = p then some (uid, gid) else ownerAt fs q) ∧ contentAt fs1 q = contentAt fs q := by
  unfold lchown at h
  split at h
  · simp at h
  · rename_i e hw
    simp only [Except.ok.injEq] at h
    subst h
    intro q
    have hg := walk_ok_get hw
    unfold chownAt
    rw [ownerAt_set, contentAt_set]
    by_cases hq : q = p
    · subst hq; simp [contentAt, hg]
    · simp [hq]

end Fs
end Absnfs

namespace Absnfs
namespace Fs

/-- walking one more component -/
theorem walkFrom_snoc (fs : T) (pre : Path) (cs : List Name) (c : Name) :
    walkFrom fs pre (cs ++ [c]) =
      match walkFrom fs pre cs with
      | .error e => .error e
      | .ok cur =>
        if cur.kind ≠ .dir then .error .ENOTDIR
        else match get fs (pre ++ cs ++ [c]) with
          | none => .error .ENOENT
          | some x => .ok x := by
  induction cs generalizing pre with
  | nil =>
    simp only [List.nil_append, walkFrom, List.append_nil]
    cases hg : get fs pre with
    | none => rfl
    | some cur =>
      simp only
      split
      · rfl
      · cases hg2 : get fs (pre ++ [c]) with
        | none => rfl
        | some x => simp [hg2]
  | cons a cs ih =>
    simp only [List.cons_append, walkFrom]
    cases hg : get fs pre with
    | none => rfl
    | some cur =>
      simp only
      split
      · rfl
      · cases hg2 : get fs (pre ++ [a]) with
        | none => rfl
        | some x =>
          simp only
          rw [ih (pre ++ [a])]
          simp [List.append_assoc]

/-- `walkFrom` only looks at the entries stored at prefixes of the path it walks -/
theorem walkFrom_congr (fs fs' : T) (pre : Path) (cs : List Name)
    (h : ∀ k, k ≤ cs.length → get fs' (pre ++ cs.take k) = get fs (pre ++ cs.take k)) :
    walkFrom fs' pre cs = walkFrom fs pre cs := by
  induction cs generalizing pre with
  | nil =>
    have := h 0 (by simp)
    simp only [List.take_zero, List.append_nil] at this
    simp [walkFrom, this]
  | cons a cs ih =>
    have h0 := h 0 (by simp)
    have h1 := h 1 (by simp)
    simp only [List.take_zero, List.append_nil] at h0
    simp only [List.take_succ_cons, List.take_zero] at h1
    simp only [walkFrom, h0, h1]
    cases get fs pre with
    | none => rfl
    | some cur =>
      simp only
      split
      · rfl
      · cases get fs (pre ++ [a]) with
        | none => rfl
        | some x =>
          simp only
          apply ih
          intro k hk
          have := h (k + 1) (by simp; omega)
          simpa [List.take_succ_cons, List.append_assoc] using this

/-- a freshly stored entry whose parent resolves to a directory is what `walk` finds at its path -/
theorem walk_set_new (fs : T) (d : Path) (c : Name) (e : Entry) (par : Entry)
    (hpar : walk fs d = .ok par) (hdir : par.kind = .dir) :
    walk (set fs (d ++ [c]) e) (d ++ [c]) = .ok e := by
  unfold walk
  rw [walkFrom_snoc]
  have hsame : walkFrom (set fs (d ++ [c]) e) [] d = walkFrom fs [] d := by
    apply walkFrom_congr
    intro k hk
    simp only [List.nil_append]
    apply get_set_other
    intro heq
    have := congrArg List.length heq
    simp only [List.length_take, List.length_append, List.length_cons, List.length_nil] at this
    omega
  rw [hsame]
  unfold walk at hpar
  rw [hpar]
  simp only [hdir, ne_eq, not_true_eq_false, if_false, List.nil_append]
  rw [get_set_same]

/-- entries stored elsewhere are found as before (for paths that do not pass through the new one) -/
theorem walk_set_other (fs : T) (p q : Path) (e : Entry) (h : ¬ p.isPrefixOf q = true) :
    walk (set fs p e) q = walk fs q := by
  unfold walk
  apply walkFrom_congr
  intro k _
  simp only [List.nil_append]
  apply get_set_other
  intro heq
  apply h
  rw [← heq]
  exact List.isPrefixOf_iff_prefix.mpr (List.take_prefix k q)

end Fs
end Absnfs

namespace Absnfs
namespace Fs

theorem get_nextIno (fs : T) (n : Nat) (q : Path) : get { fs with nextIno := n } q = get fs q := rfl

theorem walk_nextIno (fs : T) (n : Nat) (q : Path) : walk { fs with nextIno := n } q = walk fs q := by
  unfold walk
  exact walkFrom_congr _ _ _ _ (fun _ _ => rfl)

theorem dropLast_append_getLast {α : Type} (l : List α) (h : l ≠ []) : l = l.dropLast ++ [l.getLast h] :=
  (List.dropLast_concat_getLast h).symm

/-- what a successful Mkdir / Symlink / (new-file) Create did: one new entry under an existing directory -/
theorem canCreate_ok {fs : T} {p : Path} (h : canCreate fs p = .ok ()) :
    p ≠ [] ∧ ∃ par, walk fs p.dropLast = .ok par ∧ par.kind = .dir := by
  unfold canCreate at h
  split at h
  · simp at h
  · rename_i hne
    split at h
    · simp at h
    · rename_i par hw
      split at h
      · simp at h
      · rename_i hk
        exact ⟨by intro h0; exact hne h0, par, hw, by simpa using hk⟩

theorem mkdir_ok {fs fs1 : T} {p : Path} {perm : Nat} (h : mkdir fs p perm = .ok fs1) :
    p ≠ [] ∧ (∃ par, walk fs p.dropLast = .ok par ∧ par.kind = .dir) ∧
    fs1 = { (set fs p { kind := .dir, perm := perm % 512, uid := 0, gid := 0, data := [], ino := fs.nextIno }) with
            nextIno := fs.nextIno + 1 } := by
  unfold mkdir at h
  split at h
  · simp at h
  · split at h
    · simp at h
    · rename_i hc
      simp only [Except.ok.injEq] at h
      obtain ⟨hne, hpar⟩ := canCreate_ok hc
      exact ⟨hne, hpar, h.symm⟩
  · simp at h

/-- after a successful Mkdir the new directory is what the path resolves to, without following anything -/
theorem mkdir_then_walk {fs fs1 : T} {p : Path} {perm : Nat} (h : mkdir fs p perm = .ok fs1) :
    ∃ e, walk fs1 p = .ok e ∧ e.kind = .dir ∧ e.uid = 0 ∧ e.gid = 0 ∧ follow fs1 p = (p, .ok e) := by
  obtain ⟨hne, ⟨par, hpar, hdir⟩, hfs1⟩ := mkdir_ok h
  have hp := dropLast_append_getLast p hne
  have hw : walk fs1 p = .ok { kind := .dir, perm := perm % 512, uid := 0, gid := 0, data := [], ino := fs.nextIno } := by
    rw [hfs1, walk_nextIno, hp]
    exact walk_set_new fs p.dropLast (p.getLast hne) _ par hpar hdir
  refine ⟨{ kind := .dir, perm := perm % 512, uid := 0, gid := 0, data := [], ino := fs.nextIno }, hw, rfl, rfl, rfl, ?_⟩
  unfold follow followFrom
  simp [hw]

/-- owners after Mkdir: the new directory belongs to 0:0 (the backend's default), everything else as before -/
theorem mkdir_owner {fs fs1 : T} {p : Path} {perm : Nat} (h : mkdir fs p perm = .ok fs1) (q : Path) :
    ownerAt fs1 q = if q = p then some (0, 0) else ownerAt fs q := by
  obtain ⟨_, _, hfs1⟩ := mkdir_ok h
  rw [hfs1]
  show ownerAt (set fs p _) q = _
  rw [ownerAt_set]

end Fs
end Absnfs

namespace Absnfs
namespace Fs

theorem symlink_ok {fs fs1 : T} {p : Path} {target : Bytes} (h : symlink fs target p = .ok fs1) :
    p ≠ [] ∧ (∃ par, walk fs p.dropLast = .ok par ∧ par.kind = .dir) ∧
    fs1 = { (set fs p { kind := .link, perm := 0o777, uid := 0, gid := 0, data := target, ino := fs.nextIno }) with
            nextIno := fs.nextIno + 1 } := by
  unfold symlink at h
  split at h
  · simp at h
  · split at h
    · simp at h
    · rename_i hc
      simp only [Except.ok.injEq] at h
      obtain ⟨hne, hpar⟩ := canCreate_ok hc
      exact ⟨hne, hpar, h.symm⟩
  · simp at h

theorem symlink_then_walk {fs fs1 : T} {p : Path} {target : Bytes} (h : symlink fs target p = .ok fs1) :
    walk fs1 p = .ok { kind := .link, perm := 0o777, uid := 0, gid := 0, data := target, ino := fs.nextIno } := by
  obtain ⟨hne, ⟨par, hpar, hdir⟩, hfs1⟩ := symlink_ok h
  have hp := dropLast_append_getLast p hne
  rw [hfs1, walk_nextIno, hp]
  exact walk_set_new fs p.dropLast (p.getLast hne) _ par hpar hdir

theorem symlink_owner {fs fs1 : T} {p : Path} {target : Bytes} (h : symlink fs target p = .ok fs1) (q : Path) :
    ownerAt fs1 q = if q = p then some (0, 0) else ownerAt fs q := by
  obtain ⟨_, _, hfs1⟩ := symlink_ok h
  rw [hfs1]
  show ownerAt (set fs p _) q = _
  rw [ownerAt_set]

end Fs
end Absnfs

namespace Absnfs
namespace Fs

/-- two filesystems are the same map (entry order in the list and the next inode number aside) -/
def SameMap (a b : T) : Prop := ∀ q, get a q = get b q

theorem SameMap.refl (a : T) : SameMap a a := fun _ => rfl
theorem SameMap.symm {a b : T} (h : SameMap a b) : SameMap b a := fun q => (h q).symm
theorem SameMap.trans {a b c : T} (h1 : SameMap a b) (h2 : SameMap b c) : SameMap a c := fun q => (h1 q).trans (h2 q)

/-- stores at different paths commute -/
theorem set_set_comm (fs : T) (p q : Path) (e f : Entry) (h : p ≠ q) :
    SameMap (set (set fs p e) q f) (set (set fs q f) p e) := by
  intro x
  rw [get_set, get_set, get_set, get_set]
  by_cases hx : x = q
  · subst hx; simp [Ne.symm h]
  · by_cases hy : x = p
    · subst hy; simp [hx]
    · simp [hx, hy]

theorem get_del (fs : T) (p q : Path) : get (del fs p) q = if q = p then none else get fs q := by
  unfold get del
  simp only
  induction fs.ents with
  | nil => simp
  | cons x xs ih =>
    simp only [List.filter_cons]
    by_cases hx : x.1 = p
    · have hne : (x.1 != p) = false := by simp [hx]
      simp only [hne, Bool.false_eq_true, if_false, List.find?_cons]
      by_cases hq : q = p
      · simp only [hq, if_true] at ih ⊢; exact ih
      · have : (x.1 == q) = false := by rw [hx]; simpa using fun hh => hq hh.symm
        simp only [hq, if_false, this] at ih ⊢
        exact ih
    · have hne : (x.1 != p) = true := by simpa using hx
      simp only [hne, if_true, List.find?_cons]
      by_cases hxq : x.1 = q
      · have : (x.1 == q) = true := by simpa using hxq
        have hq : q ≠ p := by rw [← hxq]; exact hx
        simp [this, hq]
      · have : (x.1 == q) = false := by simpa using hxq
        simp only [this]
        exact ih

/-- a store and a removal at different paths commute -/
theorem set_del_comm (fs : T) (p q : Path) (e : Entry) (h : p ≠ q) :
    SameMap (del (set fs p e) q) (set (del fs q) p e) := by
  intro x
  rw [get_del, get_set, get_set, get_del]
  by_cases hx : x = q
  · subst hx; simp [Ne.symm h]
  · by_cases hy : x = p
    · subst hy; simp [hx]
    · simp [hx, hy]

theorem del_del_comm (fs : T) (p q : Path) : SameMap (del (del fs p) q) (del (del fs q) p) := by
  intro x
  rw [get_del, get_del, get_del, get_del]
  by_cases hx : x = q <;> by_cases hy : x = p <;> simp [hx, hy]

/-- resolution only depends on the map -/
theorem walkFrom_sameMap {a b : T} (h : SameMap a b) (pre : Path) (cs : List Name) : walkFrom a pre cs = walkFrom b pre cs :=
  walkFrom_congr b a pre cs (fun _ _ => h _)

theorem walk_sameMap {a b : T} (h : SameMap a b) (p : Path) : walk a p = walk b p := walkFrom_sameMap h [] p

/-- what an operation on `p` stores does not change how any path that does not pass through `p` resolves:
    operations on names in different places of the tree do not see each other -/
theorem resolution_independent (fs : T) (p q : Path) (e : Entry) (h : ¬ p.isPrefixOf q = true) :
    walk (set fs p e) q = walk fs q := walk_set_other fs p q e h

end Fs
end Absnfs
