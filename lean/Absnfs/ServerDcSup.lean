/-
  ServerDcSup: coherence of the directory cache across every procedure (C02 / C26).

  "Every cached listing equals the backend's listing of its key" is false of the model and of the code (DESIGN
  §11.7: a listing may have been stored for a key that was a symbolic link at the time). What does hold, and what
  makes the cache transparent, is `DcSup`: every cached listing of a key contains the name of every object the
  backend currently has directly below that key. READDIR looks every cached name up again, so names that no longer
  exist disappear from the reply; what must never happen is that an existing child is missing from a cached
  listing — that is the hidden mutation C02 forbids, and exactly what a forgotten invalidation produces.

  The invariant is preserved because
  * procedures that do not create names only shrink what exists (`Safe`),
  * CREATE / MKDIR / SYMLINK add one name below a directory whose listing they drop,
  * RENAME adds names only at or below the destination, and drops every listing at or below it and the
    destination's parent,
  * READDIR stores the backend's listing of the very key it read.
-/
import Absnfs.ServerListing
import Absnfs.ServerInvProcs
import Absnfs.FsSorted
namespace Absnfs
namespace Server

def existsAt (fs : Fs.T) (q : Fs.Path) : Bool := (Fs.get fs q).isSome

/-- a cached listing is in strictly increasing name order (as the backend returned it) and names every object that
    exists directly below its key -/
def ListOK (fs : Fs.T) (e : Lru.Entry (List Bytes)) : Prop :=
  CleanPath e.key ∧ ∀ names, e.val = some names →
    Fs.Increasing names ∧ ∀ x, existsAt fs (fsPath e.key ++ [x]) = true → x ∈ names

def DcSupD (fs : Fs.T) (d : Option (Lru.Cache (List Bytes))) : Prop := ∀ c, d = some c → ∀ e ∈ c.entries, ListOK fs e
def DcSup (s : St) : Prop := DcSupD s.fs s.dc

/-- the second cache holds no entry the first does not hold -/
def DcSubD (d d' : Option (Lru.Cache (List Bytes))) : Prop :=
  ∀ c', d' = some c' → ∃ c, d = some c ∧ ∀ e ∈ c'.entries, e ∈ c.entries

theorem DcSubD.refl (d : Option (Lru.Cache (List Bytes))) : DcSubD d d := fun c' h => ⟨c', h, fun _ he => he⟩

theorem DcSubD.trans {a b c : Option (Lru.Cache (List Bytes))} (h1 : DcSubD a b) (h2 : DcSubD b c) : DcSubD a c := by
  intro c' hc'
  obtain ⟨cb, hb, hsub2⟩ := h2 c' hc'
  obtain ⟨ca, ha, hsub1⟩ := h1 cb hb
  exact ⟨ca, ha, fun e he => hsub1 e (hsub2 e he)⟩

theorem DcSubD.of_eq {a b : Option (Lru.Cache (List Bytes))} (h : b = a) : DcSubD a b := by rw [h]; exact DcSubD.refl a

theorem DcSubD.map {d : Option (Lru.Cache (List Bytes))} (f : Lru.Cache (List Bytes) → Lru.Cache (List Bytes))
    (hf : ∀ c, ∀ e ∈ (f c).entries, e ∈ c.entries) : DcSubD d (d.map f) := by
  intro c' hc'
  cases d with
  | none => simp at hc'
  | some c0 =>
    simp only [Option.map_some, Option.some.injEq] at hc'
    exact ⟨c0, rfl, by rw [← hc']; exact hf c0⟩

theorem invalidate_sub (c : Lru.Cache (List Bytes)) (p : Bytes) : ∀ e ∈ (Lru.invalidate c p).entries, e ∈ c.entries :=
  fun _ he => List.mem_of_mem_eraseP he

theorem invalidatePrefix_sub (c : Lru.Cache (List Bytes)) (p : Bytes) : ∀ e ∈ (Lru.invalidatePrefix c p).entries, e ∈ c.entries :=
  fun _ he => (Lru.invalidatePrefix_mem he).1

theorem DcSubD.invalidate (d : Option (Lru.Cache (List Bytes))) (p : Bytes) : DcSubD d (d.map fun c => Lru.invalidate c p) :=
  DcSubD.map _ fun c => invalidate_sub c p

theorem DcSubD.invalidatePrefix (d : Option (Lru.Cache (List Bytes))) (p : Bytes) : DcSubD d (d.map fun c => Lru.invalidatePrefix c p) :=
  DcSubD.map _ fun c => invalidatePrefix_sub c p

theorem DcSubD.get (d : Option (Lru.Cache (List Bytes))) (now : Nat) (p : Bytes) : DcSubD d (d.map fun c => (Lru.get c now p).1) :=
  DcSubD.map _ fun c => Lru.get_sub c now p

/-- a step after which nothing exists that did not exist before, and the cache gained no entry -/
structure Safe (s s' : St) : Prop where
  sub : DcSubD s.dc s'.dc
  ex : ∀ q, existsAt s'.fs q = true → existsAt s.fs q = true

theorem Safe.refl (s : St) : Safe s s := ⟨DcSubD.refl _, fun _ h => h⟩

theorem Safe.trans {a b c : St} (h1 : Safe a b) (h2 : Safe b c) : Safe a c :=
  ⟨h1.sub.trans h2.sub, fun q h => h1.ex q (h2.ex q h)⟩

theorem Safe.of_eq {s s' : St} (hdc : s'.dc = s.dc) (hfs : s'.fs = s.fs) : Safe s s' :=
  ⟨DcSubD.of_eq hdc, fun q h => by rw [hfs] at h; exact h⟩

theorem dcSupD_of_sub {fs fs' : Fs.T} {d d' : Option (Lru.Cache (List Bytes))} (h : DcSupD fs d) (hsub : DcSubD d d')
    (hex : ∀ c', d' = some c' → ∀ e ∈ c'.entries, ∀ x, existsAt fs' (fsPath e.key ++ [x]) = true →
      existsAt fs (fsPath e.key ++ [x]) = true) : DcSupD fs' d' := by
  intro c' hc' e he
  obtain ⟨c, hc, hs⟩ := hsub c' hc'
  obtain ⟨hk, hn⟩ := h c hc e (hs e he)
  exact ⟨hk, fun names hv => ⟨(hn names hv).1, fun x hx => (hn names hv).2 x (hex c' hc' e he x hx)⟩⟩

theorem dcSup_of_safe {s s' : St} (h : DcSup s) (hs : Safe s s') : DcSup s' :=
  dcSupD_of_sub h hs.sub fun _ _ _ _ x hx => hs.ex _ hx

/-! ### existence in the backend model -/

theorem existsAt_of_view {fs fs' : Fs.T} {q : Fs.Path} (h : Fs.viewAt fs' q = Fs.viewAt fs q) : existsAt fs' q = existsAt fs q := by
  unfold Fs.viewAt at h
  unfold existsAt
  cases h1 : Fs.get fs' q <;> cases h2 : Fs.get fs q <;> simp [h1, h2] at h ⊢

theorem existsAt_set (fs : Fs.T) (p q : Fs.Path) (e : Fs.Entry) :
    existsAt (Fs.set fs p e) q = (decide (q = p) || existsAt fs q) := by
  unfold existsAt
  rw [Fs.get_set]
  by_cases h : q = p <;> simp [h]

theorem existsAt_del (fs : Fs.T) (p q : Fs.Path) :
    existsAt (Fs.del fs p) q = (!decide (q = p) && existsAt fs q) := by
  unfold existsAt
  rw [Fs.get_del]
  by_cases h : q = p <;> simp [h]

/-- overwriting an existing entry changes nothing about what exists -/
theorem existsAt_set_existing {fs : Fs.T} {p : Fs.Path} {e0 : Fs.Entry} (h0 : Fs.get fs p = some e0) (e : Fs.Entry) (q : Fs.Path) :
    existsAt (Fs.set fs p e) q = existsAt fs q := by
  rw [existsAt_set]
  by_cases h : q = p
  · subst h; simp [existsAt, h0]
  · simp [h]

/-! ### the backend's listing of a directory names every stored child -/

theorem mem_children_of_get {fs : Fs.T} {p : Fs.Path} {x : Fs.Name} {y : Fs.Entry} (h : Fs.get fs (p ++ [x]) = some y) :
    ∃ y', (x, y') ∈ Fs.children fs p := by
  unfold Fs.get at h
  cases hf : fs.ents.find? (·.1 == p ++ [x]) with
  | none => simp [hf] at h
  | some z =>
    have hmem := List.mem_of_find?_eq_some hf
    have hz : z.1 = p ++ [x] := by have := List.find?_some hf; simpa using this
    refine ⟨z.2, ?_⟩
    unfold Fs.children
    simp only [List.mem_filterMap]
    refine ⟨z, hmem, ?_⟩
    obtain ⟨q, e⟩ := z
    simp only at hz
    subst hz
    simp

theorem mem_insertSorted (a : Fs.Name × Fs.Entry) (l : List (Fs.Name × Fs.Entry)) (z : Fs.Name × Fs.Entry) :
    z = a ∨ z ∈ l → z ∈ Fs.insertSorted a l := by
  induction l with
  | nil => intro h; rcases h with h | h <;> simp_all [Fs.insertSorted]
  | cons b bs ih =>
    intro h
    unfold Fs.insertSorted
    split
    · rcases h with h | h
      · simp [h]
      · exact List.mem_cons_of_mem _ h
    · rcases h with h | h
      · exact List.mem_cons_of_mem _ (ih (.inl h))
      · rcases List.mem_cons.mp h with h1 | h1
        · simp [h1]
        · exact List.mem_cons_of_mem _ (ih (.inr h1))

theorem mem_sortByName {l : List (Fs.Name × Fs.Entry)} {z : Fs.Name × Fs.Entry} (h : z ∈ l) : z ∈ Fs.sortByName l := by
  induction l with
  | nil => simp at h
  | cons a as ih =>
    have : Fs.sortByName (a :: as) = Fs.insertSorted a (Fs.sortByName as) := rfl
    rw [this]
    apply mem_insertSorted
    rcases List.mem_cons.mp h with h1 | h1
    · exact .inl h1
    · exact .inr (ih h1)

/-- Readdir of a path names everything stored directly below that path (when the path is a symbolic link or a
    file nothing is stored below it, and Readdir may list another directory or fail) -/
theorem readdir_names_children {fs : Fs.T} (hw : Fs.WF fs) {p : Fs.Path} {ents : List (Fs.Name × Fs.Info)}
    (h : Fs.readdir fs p = .ok ents) (x : Fs.Name) (hx : existsAt fs (p ++ [x]) = true) : x ∈ ents.map (·.1) := by
  unfold existsAt at hx
  cases hg : Fs.get fs (p ++ [x]) with
  | none => simp [hg] at hx
  | some y =>
    obtain ⟨pe, hpe, hd⟩ := Fs.prefix_is_dir hw hg (List.prefix_append p [x])
    have hdir : pe.kind = .dir := hd (by intro h0; have := congrArg List.length h0; simp at this)
    have hwk := Fs.walk_eq_of_get hw hpe
    have hf := Fs.follow_of_walk_nonlink hwk (by rw [hdir]; decide)
    unfold Fs.readdir at h
    rw [hf] at h
    simp only [hdir, ne_eq, not_true_eq_false, if_false, Except.ok.injEq] at h
    obtain ⟨y', hy'⟩ := mem_children_of_get hg
    rw [← h]
    simp only [List.map_map, List.mem_map, Function.comp]
    exact ⟨(x, y'), mem_sortByName hy', rfl⟩

theorem readdir_names_increasing {fs : Fs.T} (hw : Fs.WF fs) {p : Fs.Path} {ents : List (Fs.Name × Fs.Info)}
    (h : Fs.readdir fs p = .ok ents) : Fs.Increasing (ents.map (·.1)) := by
  unfold Fs.readdir at h
  split at h
  · simp at h
  · rename_i q e _
    split at h
    · simp at h
    · simp only [Except.ok.injEq] at h
      rw [← h]
      have : ((Fs.sortByName (Fs.children fs q)).map fun x => (x.1, Fs.infoOf x.2)).map (·.1) =
          (Fs.sortByName (Fs.children fs q)).map (·.1) := by simp [List.map_map, Function.comp_def]
      rw [this]
      exact Fs.sorted_children_increasing hw q

/-! ### ReadDir keeps the invariant: what it stores is the backend's listing of the key it stores it under -/

theorem lookupEach_dc (s : St) (now : Nat) (dir : Bytes) (names : List Bytes) : (lookupEach s now dir names).1.dc = s.dc := by
  induction names generalizing s with
  | nil => rfl
  | cons n ns ih =>
    unfold lookupEach
    split
    · exact ih s
    · split
      · exact ih s
      · split
        · rename_i heq; rw [ih, lookupPath_dc' heq]
        · rename_i heq; simp only; rw [ih, lookupPath_dc' heq]

theorem readDir_dcSup (s : St) (now : Nat) (d : Node) (hI : CInv s) (hS : DcSup s) (hd : CleanPath d.path) :
    DcSup (readDir s now d).1 := by
  unfold DcSup
  rw [readDir_fs]
  unfold readDir
  simp only
  split
  · rename_i s1 names heq
    simp only
    rw [lookupEach_dc]
    split at heq
    · simp at heq
    · rename_i c hc
      split at heq
      · rename_i c1 nm hget
        simp only [Option.some.injEq, Prod.mk.injEq] at heq
        rw [← heq.1]
        simp only
        refine dcSupD_of_sub hS ?_ (fun _ _ _ _ _ hx => hx)
        rw [hc]
        intro c' hc'
        simp only [Option.some.injEq] at hc'
        refine ⟨c, rfl, ?_⟩
        rw [← hc']
        have := Lru.get_sub c now d.path
        rw [hget] at this
        exact this
      · simp at heq
  · have h0 : DcSupD s.fs (s.dc.map fun c => (Lru.get c now d.path).1) :=
      dcSupD_of_sub hS (DcSubD.get _ now d.path) (fun _ _ _ _ _ hx => hx)
    split
    · exact h0
    · rename_i ents hrd
      simp only
      rw [lookupEach_dc]
      simp only
      intro c' hc' e he
      cases hdc : s.dc with
      | none => simp [hdc] at hc'
      | some c0 =>
        simp only [hdc, Option.map_some, Option.some.injEq] at hc'
        have h0' := h0 _ (by rw [hdc]; rfl)
        rw [← hc'] at he
        split at he
        · exact h0' e he
        · rcases Lru.putEntry_sub _ _ e he with h1 | h1
          · rw [h1]
            refine ⟨hd, ?_⟩
            intro names hv
            simp only [Option.some.injEq] at hv
            rw [← hv]
            exact ⟨readdir_names_increasing hI.wf hrd, fun x hx => readdir_names_children hI.wf hrd x hx⟩
          · exact h0' e h1

/-! ### building blocks that touch neither the backend nor the directory cache -/

theorem getAttr_safe' {s s' : St} {now : Nat} {n : Node} {r : Except Fs.Errno Attrs} (h : getAttr s now n = (s', r)) : Safe s s' :=
  Safe.of_eq (getAttr_dc' h) (getAttr_fs' h)

theorem getAttrOr_safe' {s s' : St} {now : Nat} {n : Node} {d a : Attrs} (h : getAttrOr s now n d = (s', a)) : Safe s s' :=
  Safe.of_eq (getAttrOr_dc' h) (by have := getAttrOr_fs s now n d; rw [h] at this; exact this)

theorem getAttrOr_safe (s : St) (now : Nat) (n : Node) (d : Attrs) : Safe s (getAttrOr s now n d).1 :=
  getAttrOr_safe' (s' := (getAttrOr s now n d).1) (a := (getAttrOr s now n d).2) rfl

theorem lookupPath_safe' {s s' : St} {now : Nat} {p : Bytes} {r : Except Fs.Errno Node} (h : lookupPath s now p = (s', r)) : Safe s s' :=
  Safe.of_eq (lookupPath_dc' h) (lookupPath_fs' h)

theorem allocate_safe' {s s' : St} {n : Node} {fh : Nat} (h : allocate s n = (s', fh)) : Safe s s' := by
  have : s' = (allocate s n).1 := by rw [h]
  rw [this]; exact Safe.of_eq rfl rfl

theorem allocate_safe (s : St) (n : Node) : Safe s (allocate s n).1 := Safe.of_eq rfl rfl

theorem lookupDirAttr_safe (s : St) (now : Nat) (n : Node) (k : Attrs → Outcome) : Safe s (lookupDirAttr s now n k).1 := by
  rw [lookupDirAttr_fst]
  exact getAttrOr_safe' (s' := (getAttrOr s now n n.attrs).1) (a := (getAttrOr s now n n.attrs).2) rfl

/-- walk back from the final state along the hypotheses `split` left behind -/
macro "safe_back" : tactic => `(tactic| repeat (first
  | exact Safe.refl _
  | refine Safe.trans ?_ (getAttr_safe' (by assumption))
  | refine Safe.trans ?_ (getAttrOr_safe' (by assumption))
  | refine Safe.trans ?_ (lookupPath_safe' (by assumption))
  | refine Safe.trans ?_ (allocate_safe' (by assumption))
  | refine Safe.trans ?_ (lookupDirAttr_safe _ _ _ _)
  | refine Safe.trans ?_ (allocate_safe _ _)))

theorem procGetattr_safe (s : St) (c : Ctx) (args : Bytes) : Safe s (procGetattr s c args).1 := by
  unfold procGetattr
  repeat' split
  all_goals safe_back

theorem procLookup_safe (s : St) (c : Ctx) (args : Bytes) : Safe s (procLookup s c args).1 := by
  unfold procLookup
  repeat' split
  all_goals safe_back

theorem procAccess_safe (s : St) (c : Ctx) (args : Bytes) : Safe s (procAccess s c args).1 := by
  unfold procAccess
  repeat' split
  all_goals safe_back

theorem procReadlink_safe (s : St) (c : Ctx) (args : Bytes) : Safe s (procReadlink s c args).1 := by
  unfold procReadlink
  repeat' split
  all_goals safe_back

theorem procRead_safe (s : St) (c : Ctx) (args : Bytes) : Safe s (procRead s c args).1 := by
  unfold procRead
  repeat' split
  all_goals safe_back

theorem withObjAttr_safe (s : St) (c : Ctx) (args : Bytes) (k : Rfc.Fattr → Rfc.Body) : Safe s (withObjAttr s c args k).1 := by
  unfold withObjAttr
  repeat' split
  all_goals safe_back

theorem procCommit_safe (s : St) (c : Ctx) (args : Bytes) : Safe s (procCommit s c args).1 := by
  unfold procCommit
  repeat' split
  all_goals safe_back

theorem procMnt_safe (s : St) (c : Ctx) (args : Bytes) : Safe s (procMnt s c args).1 := by
  unfold procMnt
  split
  · safe_back
  · split
    · safe_back
    · simp only
      repeat' split
      all_goals safe_back

theorem handleMount_safe (s : St) (c : Ctx) (proc : Nat) (args : Bytes) : Safe s (handleMount s c proc args).1 := by
  unfold handleMount
  split <;> first | exact Safe.refl _ | exact procMnt_safe s c args | (split <;> exact Safe.refl _)

/-! ### backend operations that create nothing -/

theorem chmod_ex {fs fs1 : Fs.T} {p : Fs.Path} {perm : Nat} (h : Fs.chmod fs p perm = .ok fs1) (q : Fs.Path) :
    existsAt fs1 q = existsAt fs q := by
  unfold Fs.chmod at h
  split at h
  · simp at h
  · rename_i q0 e hf
    simp only [Except.ok.injEq] at h
    rw [← h]; exact existsAt_set_existing (Fs.follow_ok_get hf) _ q

theorem truncate_ex {fs fs1 : Fs.T} {p : Fs.Path} {n : Nat} (h : Fs.truncate fs p n = .ok fs1) (q : Fs.Path) :
    existsAt fs1 q = existsAt fs q := by
  unfold Fs.truncate at h
  split at h
  · simp at h
  · rename_i q0 e hf
    split at h
    · simp at h
    · split at h
      · simp at h
      · simp only [Except.ok.injEq] at h
        rw [← h]; exact existsAt_set_existing (Fs.follow_ok_get hf) _ q

theorem writeAt_ex {fs fs1 : Fs.T} {p : Fs.Path} {off k : Nat} {w : Bytes} (h : Fs.writeAt fs p off w = .ok (fs1, k)) (q : Fs.Path) :
    existsAt fs1 q = existsAt fs q := by
  unfold Fs.writeAt at h
  split at h
  · simp at h
  · rename_i q0 e hf
    split at h
    · simp at h
    · split at h
      · simp only [Except.ok.injEq, Prod.mk.injEq] at h
        rw [← h.1]
      · split at h
        · simp at h
        · simp only [Except.ok.injEq, Prod.mk.injEq] at h
          rw [← h.1]; exact existsAt_set_existing (Fs.follow_ok_get hf) _ q

theorem chown_ex {fs fs1 : Fs.T} {p : Fs.Path} {u g : Nat} (h : Fs.chown fs p u g = .ok fs1) (q : Fs.Path) :
    existsAt fs1 q = existsAt fs q := by
  unfold Fs.chown at h
  split at h
  · simp at h
  · rename_i q0 e hf
    simp only [Except.ok.injEq] at h
    rw [← h]; exact existsAt_set_existing (Fs.follow_ok_get hf) _ q

theorem lchown_ex {fs fs1 : Fs.T} {p : Fs.Path} {u g : Nat} (h : Fs.lchown fs p u g = .ok fs1) (q : Fs.Path) :
    existsAt fs1 q = existsAt fs q := by
  unfold Fs.lchown at h
  split at h
  · simp at h
  · rename_i e hf
    simp only [Except.ok.injEq] at h
    rw [← h]; exact existsAt_set_existing (Fs.walk_ok_get hf) _ q

theorem remove_ex {fs fs1 : Fs.T} {p : Fs.Path} (h : Fs.remove fs p = .ok fs1) (q : Fs.Path) :
    existsAt fs1 q = true → existsAt fs q = true := by
  unfold Fs.remove at h
  split at h
  · simp at h
  · split at h
    · simp at h
    · split at h
      · simp at h
      · simp only [Except.ok.injEq] at h
        rw [← h, existsAt_del]
        intro hq
        simp only [Bool.and_eq_true] at hq
        exact hq.2

/-- the backend changed without creating anything; caches other than the directory cache may have changed -/
theorem Safe.of_ex {s s' : St} (hdc : s'.dc = s.dc) (hex : ∀ q, existsAt s'.fs q = true → existsAt s.fs q = true) : Safe s s' :=
  ⟨DcSubD.of_eq hdc, hex⟩

theorem chownQuiet_safe (s : St) (p : Bytes) (u g : Nat) : Safe s (chownQuiet s p u g) := by
  unfold chownQuiet
  split
  · rename_i f hf
    exact Safe.of_ex rfl fun q hq => by rw [← chown_ex hf q]; exact hq
  · exact Safe.refl s

theorem lchownQuiet_safe (s : St) (p : Bytes) (u g : Nat) : Safe s (lchownQuiet s p u g) := by
  unfold lchownQuiet
  split
  · rename_i f hf
    exact Safe.of_ex rfl fun q hq => by rw [← lchown_ex hf q]; exact hq
  · exact Safe.refl s

/-! ### SETATTR and WRITE -/

theorem setAttrOp_safe (s : St) (h : Nat) (n : Node) (a : Attrs) (ts : Bool) : Safe s (setAttrOp s h n a ts).1 := by
  unfold setAttrOp
  split
  · exact Safe.refl s
  · simp only
    split
    · exact Safe.refl s
    · rename_i fs1 h1
      have e1 : ∀ q, existsAt fs1 q = existsAt s.fs q := by
        intro q
        split at h1
        · exact chmod_ex h1 q
        · simp only [Except.ok.injEq] at h1; rw [← h1]
      split
      · exact Safe.of_ex rfl fun q hq => by rw [← e1 q]; exact hq
      · rename_i fs2 h2
        have e2 : ∀ q, existsAt fs2 q = existsAt s.fs q := by
          intro q
          split at h2
          · split at h2
            · rw [lchown_ex h2 q, e1 q]
            · rw [chown_ex h2 q, e1 q]
          · simp only [Except.ok.injEq] at h2; rw [← h2, e1 q]
        split
        · exact Safe.of_ex rfl fun q hq => by rw [← e2 q]; exact hq
        · exact Safe.of_ex rfl fun q hq => by rw [← e2 q]; exact hq

theorem setAttrOp_safe' {s s' : St} {h : Nat} {n : Node} {a : Attrs} {ts : Bool} {r : Option Nat}
    (heq : setAttrOp s h n a ts = (s', r)) : Safe s s' := by
  have := setAttrOp_safe s h n a ts
  rw [heq] at this; exact this

theorem setattrSize_safe {s1 s2 : St} {h : Nat} {n : Node} {pre : Attrs} {sz : Option Nat}
    (heq : setattrSize s1 h n pre sz = .ok s2) : Safe s1 s2 := by
  unfold setattrSize at heq
  split at heq
  · simp only [Except.ok.injEq] at heq; rw [← heq]; exact Safe.refl s1
  · split at heq
    · simp at heq
    · split at heq
      · simp at heq
      · split at heq
        · simp at heq
        · split at heq
          · simp at heq
          · rename_i fs1 htr
            simp only at heq
            split at heq <;>
              (simp only [Except.ok.injEq] at heq; rw [← heq]
               exact Safe.of_ex rfl fun q hq => by rw [← truncate_ex htr q]; exact hq)

theorem setattrApply_safe (s2 : St) (c : Ctx) (h : Nat) (sa : Sattr3) (pre : Attrs) : Safe s2 (setattrApply s2 c h sa pre).1 := by
  unfold setattrApply
  split
  · exact Safe.refl s2
  · simp only
    split
    · rename_i s3 st heq
      exact setAttrOp_safe' heq
    · rename_i s3 heq
      have h3 := setAttrOp_safe' heq
      split <;> (rename_i hg; exact h3.trans (getAttr_safe' hg))

theorem procSetattr_safe (s : St) (c : Ctx) (args : Bytes) : Safe s (procSetattr s c args).1 := by
  unfold procSetattr
  split
  · exact Safe.refl s
  · split
    · exact Safe.refl s
    · split
      · exact Safe.refl s
      · split
        · exact Safe.refl s
        · split
          · exact Safe.refl s
          · split
            · exact Safe.refl s
            · split
              · exact Safe.refl s
              · split
                · rename_i hg; exact getAttr_safe' hg
                · rename_i s1 pre hg
                  have h1 := getAttr_safe' hg
                  split
                  · exact h1
                  · split
                    · exact h1
                    · rename_i s2 hsz
                      exact (h1.trans (setattrSize_safe hsz)).trans (setattrApply_safe s2 c _ _ pre)

theorem writeOp_safe {s1 s2 : St} {h : Nat} {n : Node} {off k : Nat} {data : Bytes}
    (heq : writeOp s1 h n off data = .ok (s2, k)) : Safe s1 s2 := by
  unfold writeOp at heq
  split at heq
  · simp at heq
  · split at heq
    · simp at heq
    · rename_i fs1 k1 hw
      simp only at heq
      split at heq <;>
        (simp only [Except.ok.injEq, Prod.mk.injEq] at heq; rw [← heq.1]
         exact Safe.of_ex rfl fun q hq => by rw [← writeAt_ex hw q]; exact hq)

theorem procWrite_safe (s : St) (c : Ctx) (args : Bytes) : Safe s (procWrite s c args).1 := by
  unfold procWrite
  repeat' split
  all_goals first
    | (safe_back; done)
    | (rename_i hw _ _ _ hg
       exact ((getAttr_safe' (by assumption)).trans (writeOp_safe hw)).trans (getAttr_safe' hg))

/-! ### REMOVE and RMDIR -/

theorem removeOp_safe {s1 s2 : St} {n : Node} {name : Bytes} (heq : removeOp s1 n name = .ok s2) : Safe s1 s2 := by
  unfold removeOp at heq
  split at heq
  · simp at heq
  · split at heq
    · simp at heq
    · rename_i fs1 hrm
      simp only [Except.ok.injEq] at heq
      rw [← heq]
      exact ⟨DcSubD.invalidate _ _, fun q hq => remove_ex hrm q hq⟩

theorem procRemove_safe (s : St) (c : Ctx) (args : Bytes) : Safe s (procRemove s c args).1 := by
  unfold procRemove
  repeat' split
  all_goals first
    | (safe_back; done)
    | (rename_i hr _ _ _ hg
       exact ((getAttr_safe' (by assumption)).trans (removeOp_safe hr)).trans (getAttr_safe' hg))

theorem procRmdir_safe (s : St) (c : Ctx) (args : Bytes) : Safe s (procRmdir s c args).1 := by
  unfold procRmdir
  split
  · exact Safe.refl s
  · split
    · exact Safe.refl s
    · split
      · exact Safe.refl s
      · split
        · exact Safe.refl s
        · split
          · exact Safe.refl s
          · split
            · exact Safe.refl s
            · split
              · rename_i hg; exact getAttr_safe' hg
              · rename_i s1 pre hg
                have h1 := getAttr_safe' hg
                simp only
                split
                · exact h1
                · split
                  · exact h1
                  · split
                    · split <;> exact h1.trans (getAttrOr_safe _ _ _ _)
                    · rename_i fs1 hrm
                      split <;>
                        (rename_i hg2
                         refine (h1.trans ?_).trans (getAttr_safe' hg2)
                         exact ⟨(DcSubD.invalidate _ _).trans (DcSubD.invalidate _ _), fun q hq => remove_ex hrm q hq⟩)

/-! ### CREATE, MKDIR, SYMLINK: one new name, and the listing of its directory is dropped -/

theorem dcSupD_new {fs fs' : Fs.T} {d d' : Option (Lru.Cache (List Bytes))} {dir name : Bytes}
    (h : DcSupD fs d) (hd : CleanPath dir) (hsub : DcSubD d d') (hcold : DcColdD d' dir)
    (hex : ∀ q, q ≠ fsPath dir ++ [name] → existsAt fs' q = true → existsAt fs q = true) : DcSupD fs' d' := by
  refine dcSupD_of_sub h hsub ?_
  intro c' hc' e he x hx
  refine hex _ ?_ hx
  intro heq
  obtain ⟨c, hc, hs⟩ := hsub c' hc'
  have hkc : CleanPath e.key := (h c hc e (hs e he)).1
  have h1 : fsPath e.key = fsPath dir := List.append_inj_left' heq rfl
  have hk : e.key = dir := fsPath_inj hkc hd h1
  apply hcold c' hc'
  rw [← hk]
  exact List.mem_map.mpr ⟨e, he, rfl⟩

theorem invalidateForNew_dcSup {s : St} {fs1 : Fs.T} {dir name : Bytes} (hI : CInv s) (hS : DcSup s) (hd : CleanPath dir)
    (hn : NoSep name) (hview : ∀ q, q ≠ fsPath (joinName dir name) → Fs.viewAt fs1 q = Fs.viewAt s.fs q) :
    DcSup (invalidateForNew { s with fs := fs1 } dir (joinName dir name)) := by
  unfold DcSup
  show DcSupD fs1 (s.dc.map fun c => Lru.invalidate c dir)
  refine dcSupD_new (name := name) hS hd (DcSubD.invalidate _ _) (coldD_invalidate_self hI.dci dir) ?_
  intro q hq hx
  rw [← fsPath_joinName dir name hn] at hq
  rw [← existsAt_of_view (hview q hq)]; exact hx

theorem procMkdir_dcSup (s : St) (c : Ctx) (args : Bytes) (h : CInv s) (hS : DcSup s) : DcSup (procMkdir s c args).1 := by
  unfold procMkdir
  split
  · exact hS
  · split
    · exact hS
    · split
      · exact hS
      · rename_i name _ _
        split
        · exact hS
        · rename_i hv
          have hns : NoSep name := noSep_of_valid name (by simpa using hv)
          split
          · exact hS
          · simp only
            split
            · exact hS
            · split
              · exact hS
              · rename_i n hn
                have hnc := nodeOf_cleanI h hn
                split
                · rename_i heq; exact dcSup_of_safe hS (getAttr_safe' heq)
                · rename_i s1 pre heq
                  have h1 := getAttr_cinv' heq h hnc
                  have hS1 := dcSup_of_safe hS (getAttr_safe' heq)
                  split
                  · exact dcSup_of_safe hS1 (getAttrOr_safe _ _ _ _)
                  · rename_i fs1 hmk
                    obtain ⟨hw1, hview, _⟩ := Fs.mkdir_frame hmk h1.wf
                    have hS2 := invalidateForNew_dcSup h1 hS1 hnc hns hview
                    have hS3 := fun u g => dcSup_of_safe hS2 (chownQuiet_safe _ (joinName n.path name) u g)
                    split
                    · rename_i hl; exact dcSup_of_safe (hS3 _ _) (lookupPath_safe' hl)
                    · rename_i s4 node hl
                      have hS4 := dcSup_of_safe (hS3 _ _) (lookupPath_safe' hl)
                      split
                      · rename_i hg; exact dcSup_of_safe hS4 (getAttr_safe' hg)
                      · rename_i hg
                        exact dcSup_of_safe (dcSup_of_safe hS4 (getAttr_safe' hg)) (allocate_safe _ _)

theorem symlinkOp_dcSup {s : St} (h : CInv s) (hS : DcSup s) (now : Nat) (dir : Node) (name target : Bytes) (hd : CleanPath dir.path)
    (hn : NoSep name) : DcSup (symlinkOp s now dir name target).1 := by
  unfold symlinkOp
  split
  · exact hS
  · rename_i p hp
    have hpe := sanitize_some hp
    split
    · exact hS
    · rename_i fs1 hsl
      obtain ⟨hw1, hview, _⟩ := Fs.symlink_frame hsl h.wf
      rw [hpe] at hview ⊢
      have hS2 := invalidateForNew_dcSup h hS hd hn hview
      exact dcSup_of_safe hS2 (lookupPath_safe' (s' := (lookupPath _ now _).1) (r := (lookupPath _ now _).2) rfl)

theorem symlinkOp_dcSup' {s s' : St} {now : Nat} {dir : Node} {name target : Bytes} {r : Except Fs.Errno Node}
    (heq : symlinkOp s now dir name target = (s', r)) (h : CInv s) (hS : DcSup s) (hd : CleanPath dir.path) (hn : NoSep name) :
    DcSup s' := by
  have := symlinkOp_dcSup h hS now dir name target hd hn
  rw [heq] at this; exact this

theorem procSymlink_dcSup (s : St) (c : Ctx) (args : Bytes) (h : CInv s) (hS : DcSup s) : DcSup (procSymlink s c args).1 := by
  unfold procSymlink
  split
  · exact hS
  · split
    · exact hS
    · split
      · exact hS
      · rename_i name _ _
        split
        · exact hS
        · rename_i hv
          have hns : NoSep name := noSep_of_valid name (by simpa using hv)
          split
          · exact hS
          · split
            · exact hS
            · split
              · exact hS
              · split
                · exact hS
                · split
                  · exact hS
                  · split
                    · exact hS
                    · rename_i n hn
                      have hnc := nodeOf_cleanI h hn
                      split
                      · rename_i heq; exact dcSup_of_safe hS (getAttr_safe' heq)
                      · rename_i s1 pre heq
                        have h1 := getAttr_cinv' heq h hnc
                        have hS1 := dcSup_of_safe hS (getAttr_safe' heq)
                        split
                        · rename_i s2 st hso
                          have hS2 := symlinkOp_dcSup' hso h1 hS1 hnc hns
                          exact dcSup_of_safe hS2 (getAttrOr_safe _ _ _ _)
                        · rename_i s2 node hso
                          have hS2 := symlinkOp_dcSup' hso h1 hS1 hnc hns
                          have hS3 := fun u g => dcSup_of_safe hS2 (lchownQuiet_safe s2 (joinName n.path name) u g)
                          simp only
                          split
                          · rename_i hg; exact dcSup_of_safe (hS3 _ _) (getAttr_safe' hg)
                          · rename_i hg
                            exact dcSup_of_safe (dcSup_of_safe (hS3 _ _) (getAttr_safe' hg)) (allocate_safe _ _)

theorem createOp_dcSup {s : St} (h : CInv s) (hS : DcSup s) (now : Nat) (dir : Node) (name : Bytes) (perm : Nat) (hd : CleanPath dir.path)
    (hn : NoSep name) (hmiss : ∃ err, Fs.lstat s.fs (fsPath (joinName dir.path name)) = .error err) :
    DcSup (createOp s now dir name perm).1 := by
  unfold createOp
  split
  · exact hS
  · rename_i p hp
    have hpe := sanitize_some hp
    obtain ⟨err, herr⟩ := hmiss
    rw [← hpe] at herr
    have hwk := Fs.lstat_err_walk herr
    split
    · exact hS
    · rename_i fs1 hcr
      obtain ⟨hw1, hview1, e, hwe, hke⟩ := Fs.create_new_frame hwk hcr h.wf
      have hnl : e.kind ≠ .link := by rw [hke]; decide
      split
      · rename_i e' hch
        obtain ⟨fs2, hok⟩ := Fs.chmod_ok_of_nonlink (perm := perm % 512) hwe hnl
        rw [hok] at hch
        simp at hch
      · rename_i fs2 hch
        obtain ⟨hw2, hview2⟩ := Fs.chmod_at_nonlink hwe hnl hch hw1
        have hview : ∀ q, q ≠ fsPath p → Fs.viewAt fs2 q = Fs.viewAt s.fs q := fun q hq => (hview2 q hq).trans (hview1 q hq)
        rw [hpe] at hview ⊢
        have hS2 := invalidateForNew_dcSup h hS hd hn hview
        exact dcSup_of_safe hS2 (lookupPath_safe' (s' := (lookupPath _ now _).1) (r := (lookupPath _ now _).2) rfl)

theorem createOp_dcSup' {s s' : St} {now : Nat} {dir : Node} {name : Bytes} {perm : Nat} {r : Except Fs.Errno Node}
    (heq : createOp s now dir name perm = (s', r)) (h : CInv s) (hS : DcSup s) (hd : CleanPath dir.path) (hn : NoSep name)
    (hmiss : ∃ err, Fs.lstat s.fs (fsPath (joinName dir.path name)) = .error err) : DcSup s' := by
  have := createOp_dcSup h hS now dir name perm hd hn hmiss
  rw [heq] at this; exact this

theorem rememberExclusive_safe (s : St) (p verf : Bytes) : Safe s (rememberExclusive s p verf) := Safe.of_eq rfl rfl

theorem createNew_dcSup (s1 : St) (c : Ctx) (n : Node) (pre : Attrs) (name : Bytes) (mode how : Nat) (sa : Sattr3) (verf : Bytes)
    (h1 : CInv s1) (hS1 : DcSup s1) (hnc : CleanPath n.path) (hns : NoSep name)
    (hmiss : ∃ err, Fs.lstat s1.fs (fsPath (joinName n.path name)) = .error err) :
    DcSup (createNew s1 c n pre name mode how sa verf).1 := by
  unfold createNew
  split
  · rename_i s2 st hco
    have hS2 := createOp_dcSup' hco h1 hS1 hnc hns hmiss
    exact dcSup_of_safe hS2 (getAttrOr_safe _ _ _ _)
  · rename_i s2 node hco
    have hS2 := createOp_dcSup' hco h1 hS1 hnc hns hmiss
    have hS3 : DcSup (if how = 2 then rememberExclusive s2 node.path verf else s2) := by
      split
      · exact dcSup_of_safe hS2 (rememberExclusive_safe _ _ _)
      · exact hS2
    have hS4 := dcSup_of_safe hS3 (chownQuiet_safe _ node.path (ownerUid c sa) (ownerGid c sa))
    simp only
    split
    · rename_i hg; exact dcSup_of_safe hS4 (getAttr_safe' hg)
    · rename_i hg
      exact dcSup_of_safe (dcSup_of_safe hS4 (getAttr_safe' hg)) (allocate_safe _ _)

theorem createStep1_safe (s1 : St) (p : Bytes) (info : Fs.Info) (how : Nat) (sa : Sattr3) (verf : Bytes) :
    Safe s1 (createStep1 s1 p info how sa verf).1 := by
  unfold createStep1
  split
  · exact Safe.refl s1
  · split
    · exact Safe.refl s1
    · split
      · simp only
        split
        · exact Safe.of_eq rfl rfl
        · split
          · exact Safe.of_eq rfl rfl
          · split
            · exact Safe.of_eq rfl rfl
            · rename_i fs1 htr
              exact Safe.of_ex rfl fun q hq => by rw [← truncate_ex htr q]; exact hq
      · exact Safe.refl s1

theorem createFinish_safe (s2 : St) (st : Nat) (c : Ctx) (n : Node) (pre : Attrs) (p : Bytes) : Safe s2 (createFinish s2 st c n pre p).1 := by
  unfold createFinish
  split
  · exact getAttrOr_safe _ _ _ _
  · split
    · rename_i hl
      exact (lookupPath_safe' hl).trans (getAttrOr_safe _ _ _ _)
    · rename_i s3 node hl
      exact ((lookupPath_safe' hl).trans (getAttrOr_safe _ _ _ _)).trans (allocate_safe _ _)

theorem procCreate_dcSup (s : St) (c : Ctx) (args : Bytes) (h : CInv s) (hS : DcSup s) : DcSup (procCreate s c args).1 := by
  unfold procCreate
  split
  · exact hS
  · split
    · exact hS
    · split
      · exact hS
      · rename_i name _ _
        split
        · exact hS
        · rename_i hv
          have hpv : validateFilename name = 0 := by simpa using hv
          have hns : NoSep name := noSep_of_valid name hpv
          split
          · exact hS
          · split
            · exact hS
            · simp only
              split
              · exact hS
              · split
                · exact hS
                · rename_i n hn
                  have hnc := nodeOf_cleanI h hn
                  split
                  · rename_i heq; exact dcSup_of_safe hS (getAttr_safe' heq)
                  · rename_i s1 pre heq
                    have h1 := getAttr_cinv' heq h hnc
                    have hS1 := dcSup_of_safe hS (getAttr_safe' heq)
                    split
                    · rename_i info hinfo
                      unfold createExisting
                      exact dcSup_of_safe hS1 ((createStep1_safe s1 _ info _ _ _).trans (createFinish_safe _ _ c n pre _))
                    · rename_i err herr
                      exact createNew_dcSup s1 c n pre name _ _ _ _ h1 hS1 hnc hns ⟨err, herr⟩

/-! ### RENAME: names appear only at or below the destination; every listing there, and the destination's
    parent's, is dropped -/

theorem rename_result {fs fs1 : Fs.T} {a b : Fs.Path} (h : Fs.rename fs a b = .ok fs1) : fs1 = fs ∨ fs1 = Fs.moveTree fs a b := by
  unfold Fs.rename at h
  split at h
  · simp at h
  · split at h
    · simp at h
    · split at h
      · split at h
        · simp at h
        · split at h
          · simp at h
          · simp only [Except.ok.injEq] at h; exact .inr h.symm
      · simp at h
      · split at h
        · simp at h
        · split at h
          · simp only [Except.ok.injEq] at h; exact .inl h.symm
          · split at h
            · simp at h
            · split at h
              · simp at h
              · split at h
                · simp at h
                · split at h
                  · simp at h
                  · simp only [Except.ok.injEq] at h; exact .inr h.symm

/-- outside the destination's subtree Rename creates nothing -/
theorem rename_ex {fs fs1 : Fs.T} {a b : Fs.Path} (h : Fs.rename fs a b = .ok fs1) (q : Fs.Path) (hb : ¬ b <+: q) :
    existsAt fs1 q = true → existsAt fs q = true := by
  rcases rename_result h with h1 | h1
  · rw [h1]; exact id
  · rw [h1]
    unfold existsAt
    by_cases ha : a <+: q
    · rw [Fs.get_moveTree_under_a a b fs q ha hb]; simp
    · rw [Fs.get_moveTree_other a b fs q ha hb]; exact id

theorem renameOp_dcSup {s2 s3 : St} {d1 d2 : Node} {n1 n2 : Bytes} (heq : renameOp s2 d1 n1 d2 n2 = .ok s3) (h : CInv s2) (hS : DcSup s2)
    (hd1 : CleanPath d1.path) (hd2 : CleanPath d2.path) (hn1 : NoSep n1) (hn2 : NoSep n2) : DcSup s3 := by
  unfold renameOp at heq
  split at heq
  · rename_i p1 p2 hp1 hp2
    have hpe2 := sanitize_some hp2
    have hpc2 : CleanPath p2 := by rw [hpe2]; exact .child d2.path n2 hd2 hn2
    split at heq
    · simp at heq
    · rename_i fs1 hrn
      simp only [Except.ok.injEq] at heq
      rw [← heq]
      unfold DcSup
      show DcSupD fs1 ((((s2.dc.map fun c => Lru.invalidate c d1.path).map fun c => Lru.invalidate c d2.path).map
        fun c => Lru.invalidatePrefix c p1).map fun c => Lru.invalidatePrefix c p2)
      have hsub : DcSubD s2.dc ((((s2.dc.map fun c => Lru.invalidate c d1.path).map fun c => Lru.invalidate c d2.path).map
          fun c => Lru.invalidatePrefix c p1).map fun c => Lru.invalidatePrefix c p2) :=
        (((DcSubD.invalidate _ _).trans (DcSubD.invalidate _ _)).trans (DcSubD.invalidatePrefix _ _)).trans (DcSubD.invalidatePrefix _ _)
      refine dcSupD_of_sub hS hsub ?_
      intro c' hc' e he x hx
      -- what survived the invalidations
      cases hdc : s2.dc with
      | none => simp [hdc] at hc'
      | some c0 =>
        simp only [hdc, Option.map_some, Option.some.injEq] at hc'
        rw [← hc'] at he
        obtain ⟨he1, hk2⟩ := Lru.invalidatePrefix_mem he
        obtain ⟨he2, _⟩ := Lru.invalidatePrefix_mem he1
        have hI1 : Lru.Inv (Lru.invalidate c0 d1.path) := Lru.inv_invalidate (h.dci c0 hdc) _
        obtain ⟨he3, hkd2⟩ := Lru.invalidate_mem hI1 he2
        have he4 := (Lru.invalidate_mem (h.dci c0 hdc) he3).1
        have hkc : CleanPath e.key := (hS c0 hdc e he4).1
        refine rename_ex hrn _ ?_ hx
        intro hpre
        have hb : fsPath p2 = fsPath d2.path ++ [n2] := by rw [hpe2]; exact fsPath_joinName d2.path n2 hn2
        by_cases hsame : fsPath p2 = fsPath e.key ++ [x]
        · rw [hb] at hsame
          have : fsPath d2.path = fsPath e.key := List.append_inj_left' hsame rfl
          exact hkd2 (fsPath_inj hkc hd2 this.symm)
        · have := Fs.prefix_dropLast hpre hsame
          simp only [List.dropLast_concat] at this
          rw [underPrefix_of_prefix hpc2 hkc this] at hk2
          simp at hk2
  · simp at heq

theorem procRename_dcSup (s : St) (c : Ctx) (args : Bytes) (h : CInv s) (hS : DcSup s) : DcSup (procRename s c args).1 := by
  unfold procRename
  split
  · exact hS
  · split
    · exact hS
    · split
      · exact hS
      · rename_i n1 _ _
        split
        · exact hS
        · rename_i hv1
          have hns1 : NoSep n1 := noSep_of_valid n1 (by simpa using hv1)
          split
          · exact hS
          · split
            · exact hS
            · rename_i n2 _ _
              split
              · exact hS
              · rename_i hv2
                have hns2 : NoSep n2 := noSep_of_valid n2 (by simpa using hv2)
                split
                · exact hS
                · rename_i d1 hd1
                  have hc1 := nodeOf_cleanI h hd1
                  split
                  · exact hS
                  · rename_i d2 hd2
                    have hc2 := nodeOf_cleanI h hd2
                    split
                    · rename_i heq; exact dcSup_of_safe hS (getAttr_safe' heq)
                    · rename_i s1 pre1 heq1
                      have h1 := getAttr_cinv' heq1 h hc1
                      have hS1 := dcSup_of_safe hS (getAttr_safe' heq1)
                      split
                      · rename_i heq; exact dcSup_of_safe hS1 (getAttr_safe' heq)
                      · rename_i s2 pre2 heq2
                        have h2 := getAttr_cinv' heq2 h1 hc2
                        have hS2 := dcSup_of_safe hS1 (getAttr_safe' heq2)
                        split
                        · exact dcSup_of_safe hS2 ((getAttrOr_safe _ _ _ _).trans (getAttrOr_safe _ _ _ _))
                        · rename_i s3 hro
                          have hS3 := renameOp_dcSup hro h2 hS2 hc1 hc2 hns1 hns2
                          split
                          · rename_i hg; exact dcSup_of_safe hS3 (getAttr_safe' hg)
                          · rename_i hg
                            have hS4 := dcSup_of_safe hS3 (getAttr_safe' hg)
                            split <;> (rename_i hg2; exact dcSup_of_safe hS4 (getAttr_safe' hg2))

/-! ### READDIR and READDIRPLUS -/

theorem readDir_dcSup' {s s' : St} {now : Nat} {d : Node} {r : Except Fs.Errno (List Node)} (heq : readDir s now d = (s', r))
    (hI : CInv s) (hS : DcSup s) (hd : CleanPath d.path) : DcSup s' := by
  have := readDir_dcSup s now d hI hS hd
  rw [heq] at this; exact this

theorem refreshEach_dc (s : St) (now : Nat) (l : List Node) : (refreshEach s now l).1.dc = s.dc := by
  induction l generalizing s with
  | nil => rfl
  | cons n ns ih =>
    unfold refreshEach
    simp only
    split
    · simp only; rw [ih]; rfl
    · simp only; rw [ih]; rfl

theorem fillDirPlus_dc (limit cookie : Nat) (s : St) (i used cnt : Nat) (l : List Node) :
    (fillDirPlus limit cookie s i used cnt l).1.dc = s.dc := by
  induction l generalizing s i used cnt with
  | nil => rfl
  | cons e es ih =>
    unfold fillDirPlus
    split
    · exact ih ..
    · simp only
      split
      · rfl
      · have := ih (allocate s e).1 (i + 1) (used + entrySize (baseName e.path) + plusExtra) (cnt + 1)
        have h0 : (allocate s e).1.dc = s.dc := rfl
        split <;> simp_all

theorem refreshEach_safe (s : St) (now : Nat) (l : List Node) : Safe s (refreshEach s now l).1 :=
  Safe.of_eq (refreshEach_dc s now l) (refreshEach_fs s now l)

theorem fillDirPlus_safe (limit cookie : Nat) (s : St) (i used cnt : Nat) (l : List Node) :
    Safe s (fillDirPlus limit cookie s i used cnt l).1 :=
  Safe.of_eq (fillDirPlus_dc limit cookie s i used cnt l) (fillDirPlus_fs limit cookie s i used cnt l)

theorem fillDirPlus_safe' {limit cookie : Nat} {s s' : St} {i used cnt : Nat} {l : List Node} {r : Fill Rfc.DirEntPlus}
    (h : fillDirPlus limit cookie s i used cnt l = (s', r)) : Safe s s' := by
  have := fillDirPlus_safe limit cookie s i used cnt l
  rw [h] at this; exact this

theorem procReaddir_dcSup (s : St) (c : Ctx) (args : Bytes) (h : CInv s) (hS : DcSup s) : DcSup (procReaddir s c args).1 := by
  unfold procReaddir
  split
  · exact hS
  · split
    · exact hS
    · split
      · exact hS
      · split
        · exact hS
        · split
          · exact hS
          · rename_i n hn
            have hnc := nodeOf_cleanI h hn
            split
            · exact hS
            · split
              · rename_i heq; exact readDir_dcSup' heq h hS hnc
              · rename_i s1 nodes heq
                have hS1 := readDir_dcSup' heq h hS hnc
                split
                · rename_i hg; exact dcSup_of_safe hS1 (getAttr_safe' hg)
                · rename_i hg
                  have hS2 := dcSup_of_safe hS1 (getAttr_safe' hg)
                  simp only
                  split <;> exact hS2

theorem procReaddirplus_dcSup (s : St) (c : Ctx) (args : Bytes) (h : CInv s) (hS : DcSup s) : DcSup (procReaddirplus s c args).1 := by
  unfold procReaddirplus
  split
  · exact hS
  · split
    · exact hS
    · split
      · exact hS
      · split
        · exact hS
        · split
          · exact hS
          · split
            · exact hS
            · rename_i n hn
              have hnc := nodeOf_cleanI h hn
              split
              · exact hS
              · split
                · rename_i heq; exact readDir_dcSup' heq h hS hnc
                · rename_i s1 nodes0 heq
                  have hS1 := readDir_dcSup' heq h hS hnc
                  have hS2 := dcSup_of_safe hS1 (refreshEach_safe s1 c.now nodes0)
                  simp only
                  split
                  · rename_i hg; exact dcSup_of_safe hS2 (getAttr_safe' hg)
                  · rename_i hg
                    have hS3 := dcSup_of_safe hS2 (getAttr_safe' hg)
                    split <;> (rename_i hf; exact dcSup_of_safe hS3 (fillDirPlus_safe' hf))

/-! ### every request -/

theorem handleNfs_dcSup (s : St) (c : Ctx) (proc : Nat) (args : Bytes) (h : CInv s) (hS : DcSup s) :
    DcSup (handleNfs s c proc args).1 := by
  unfold handleNfs
  split
  · exact hS
  · exact dcSup_of_safe hS (procGetattr_safe s c args)
  · exact dcSup_of_safe hS (procSetattr_safe s c args)
  · exact dcSup_of_safe hS (procLookup_safe s c args)
  · exact dcSup_of_safe hS (procAccess_safe s c args)
  · exact dcSup_of_safe hS (procReadlink_safe s c args)
  · exact dcSup_of_safe hS (procRead_safe s c args)
  · exact dcSup_of_safe hS (procWrite_safe s c args)
  · exact procCreate_dcSup s c args h hS
  · exact procMkdir_dcSup s c args h hS
  · exact procSymlink_dcSup s c args h hS
  · exact hS
  · exact dcSup_of_safe hS (procRemove_safe s c args)
  · exact dcSup_of_safe hS (procRmdir_safe s c args)
  · exact procRename_dcSup s c args h hS
  · exact hS
  · exact procReaddir_dcSup s c args h hS
  · exact procReaddirplus_dcSup s c args h hS
  · exact dcSup_of_safe hS (withObjAttr_safe ..)
  · exact dcSup_of_safe hS (withObjAttr_safe ..)
  · exact dcSup_of_safe hS (withObjAttr_safe ..)
  · exact dcSup_of_safe hS (procCommit_safe s c args)
  · exact hS

/-- C02 (directory cache): whatever the request, every listing the directory cache holds afterwards still names
    every object the backend has directly below the listing's key -/
theorem handle_dcSup (s : St) (c : Ctx) (prog vers proc : Nat) (args : Bytes) (h : CInv s) (hS : DcSup s) :
    DcSup (handle s c prog vers proc args).1 := by
  unfold handle
  split
  · split
    · exact hS
    · exact dcSup_of_safe hS (handleMount_safe s c proc args)
  · split
    · split
      · exact hS
      · exact handleNfs_dcSup s c proc args h hS
    · exact hS

theorem runReqs_dcSup (s : St) (rs : List Req) (h : CInv s) (hS : DcSup s) : DcSup (runReqs s rs) := by
  induction rs generalizing s with
  | nil => exact hS
  | cons r rs ih =>
    exact ih _ (handle_cinv s r.ctx r.prog r.vers r.proc r.args h) (handle_dcSup s r.ctx r.prog r.vers r.proc r.args h hS)

/-- a directory cache without entries (a new server) satisfies the invariant -/
theorem dcSup_of_empty {s : St} (h : ∀ c, s.dc = some c → c.entries = []) : DcSup s := by
  intro c hc e he
  rw [h c hc] at he
  simp at he

/-! ### what the invariant buys: a listing, whether answered from the cache or from the backend, misses nothing -/

theorem lstat_of_existsAt {fs : Fs.T} (hw : Fs.WF fs) {q : Fs.Path} (h : existsAt fs q = true) : ∃ i, Fs.lstat fs q = .ok i := by
  unfold existsAt at h
  cases hg : Fs.get fs q with
  | none => simp [hg] at h
  | some e => exact ⟨Fs.infoOf e, by unfold Fs.lstat; rw [Fs.walk_eq_of_get hw hg]; rfl⟩

theorem existsAt_of_lstat {fs : Fs.T} {q : Fs.Path} {i : Fs.Info} (h : Fs.lstat fs q = .ok i) : existsAt fs q = true := by
  obtain ⟨e, hwe, _⟩ := Fs.lstat_ok_walk h
  unfold existsAt
  rw [Fs.walk_ok_get hwe]; rfl

/-- Lookup-by-name over a coherent cache finds every listable name of the list that exists in the backend -/
theorem lookupEach_complete (s : St) (now : Nat) (dir : Bytes) (names : List Bytes) (hI : CInv s) (hd : CleanPath dir)
    (x : Bytes) (hx : x ∈ names) (hl : listable dir x = true) (hex : ∃ i, Fs.lstat s.fs (fsPath (joinName dir x)) = .ok i) :
    joinName dir x ∈ (lookupEach s now dir names).2.map (·.path) := by
  induction names generalizing s with
  | nil => simp at hx
  | cons n ns ih =>
    have hlx := hl
    unfold listable at hlx
    simp only [Bool.and_eq_true, Bool.not_eq_true', decide_eq_false_iff_not, Option.isSome_iff_exists] at hlx
    obtain ⟨hskipx, px, hsanx⟩ := hlx
    unfold lookupEach
    split
    · rename_i hskip
      have hne : x ≠ n := by intro h; subst h; exact hskipx hskip
      have hx' : x ∈ ns := by rcases List.mem_cons.mp hx with h | h; exact absurd h hne; exact h
      exact ih s hI hx' hex
    · rename_i hskip
      split
      · rename_i hsan
        have hne : x ≠ n := by intro h; subst h; rw [hsanx] at hsan; simp at hsan
        have hx' : x ∈ ns := by rcases List.mem_cons.mp hx with h | h; exact absurd h hne; exact h
        exact ih s hI hx' hex
      · rename_i p hsan
        have hpe := sanitize_some hsan
        have hns : NoSep n := by
          simp only [not_or] at hskip
          refine ⟨hskip.2.2.1, ?_, hskip.1, hskip.2.1⟩
          intro h47; exact hskip.2.2.2.1 (by simpa using h47)
        have hpc : CleanPath p := by rw [hpe]; exact .child dir n hd hns
        split
        · rename_i s1 e heq
          have h1 : CInv s1 := lookupPath_cinv' heq hI hpc
          have hfs := lookupPath_fs' heq
          by_cases hxn : x = n
          · subst hxn
            obtain ⟨i, hi⟩ := hex
            exact absurd heq (fun heq => lookupPath_not_error hI.coh (cleanPath_ne_nil hpc) (by rw [hpe]; exact hi) heq)
          · have hx' : x ∈ ns := by rcases List.mem_cons.mp hx with h | h; exact absurd h hxn; exact h
            exact ih s1 h1 hx' (by rw [hfs]; exact hex)
        · rename_i s1 node heq
          have h1 : CInv s1 := lookupPath_cinv' heq hI hpc
          have hfs := lookupPath_fs' heq
          simp only [List.map_cons, List.mem_cons]
          by_cases hxn : x = n
          · left; rw [lookupPath_path heq, hpe, hxn]
          · right
            have hx' : x ∈ ns := by rcases List.mem_cons.mp hx with h | h; exact absurd h hxn; exact h
            exact ih s1 h1 hx' (by rw [hfs]; exact hex)

/-- … and returns nothing but listable names of the list -/
theorem lookupEach_paths (s : St) (now : Nat) (dir : Bytes) (names : List Bytes) :
    ∀ nd ∈ (lookupEach s now dir names).2, ∃ x ∈ names, listable dir x = true ∧ nd.path = joinName dir x := by
  induction names generalizing s with
  | nil => intro nd hnd; simp [lookupEach] at hnd
  | cons n ns ih =>
    intro nd hnd
    unfold lookupEach at hnd
    split at hnd
    · obtain ⟨x, hx, h⟩ := ih s nd hnd
      exact ⟨x, List.mem_cons_of_mem _ hx, h⟩
    · rename_i hskip
      split at hnd
      · obtain ⟨x, hx, h⟩ := ih s nd hnd
        exact ⟨x, List.mem_cons_of_mem _ hx, h⟩
      · rename_i p hsan
        have hl : listable dir n = true := by
          unfold listable
          simp only [hsan, Option.isSome_some, Bool.and_true, Bool.not_eq_true', decide_eq_false_iff_not]
          exact hskip
        split at hnd
        · rename_i s1 e heq
          obtain ⟨x, hx, h⟩ := ih s1 nd hnd
          exact ⟨x, List.mem_cons_of_mem _ hx, h⟩
        · rename_i s1 node heq
          simp only [List.mem_cons] at hnd
          rcases hnd with h | h
          · exact ⟨n, List.mem_cons_self .., hl, by rw [h, lookupPath_path heq, sanitize_some hsan]⟩
          · obtain ⟨x, hx, h'⟩ := ih s1 nd h
            exact ⟨x, List.mem_cons_of_mem _ hx, h'⟩

/-- READDIR's node list — from the directory cache or from the backend — contains every object the backend has
    directly below the directory whose name the listing loop accepts -/
theorem readDir_complete (s : St) (now : Nat) (d : Node) (nodes : List Node) (hI : CInv s) (hS : DcSup s) (hd : CleanPath d.path)
    (h : (readDir s now d).2 = .ok nodes) (x : Bytes) (hl : listable d.path x = true)
    (hx : existsAt s.fs (fsPath d.path ++ [x]) = true) : joinName d.path x ∈ nodes.map (·.path) := by
  have hns : NoSep x := by
    unfold listable at hl
    simp only [Bool.and_eq_true, Bool.not_eq_true', decide_eq_false_iff_not, not_or] at hl
    refine ⟨hl.1.2.2.1, ?_, hl.1.1, hl.1.2.1⟩
    intro h47; exact hl.1.2.2.2.1 (by simpa using h47)
  have hex : ∃ i, Fs.lstat s.fs (fsPath (joinName d.path x)) = .ok i := by
    rw [fsPath_joinName d.path x hns]; exact lstat_of_existsAt hI.wf hx
  unfold readDir at h
  simp only at h
  split at h
  · rename_i s1 names heq
    simp only [Except.ok.injEq] at h
    rw [← h]
    split at heq
    · simp at heq
    · rename_i c hc
      split at heq
      · rename_i c1 nm hget
        simp only [Option.some.injEq, Prod.mk.injEq] at heq
        have hI1 : CInv s1 := by
          rw [← heq.1]
          refine cinv_congr hI rfl rfl rfl rfl ?_
          intro c' hc'
          simp only [Option.some.injEq] at hc'
          rw [← hc']
          have := Lru.inv_get (hI.dci c hc) now d.path
          rw [hget] at this; exact this
        have hfs1 : s1.fs = s.fs := by rw [← heq.1]
        -- the cached listing names every child
        have hmem : x ∈ names := by
          rw [← heq.2]
          have hr : Lru.getRead c now d.path = .hit nm := by
            unfold Lru.get at hget
            split at hget
            · simp at hget
            · rename_i hne
              simp only [Prod.mk.injEq] at hget
              exact hget.2
          unfold Lru.getRead at hr
          split at hr
          · simp at hr
          · rename_i e hlk
            obtain ⟨hemem, hek⟩ := Lru.lookup_some_mem hlk
            split at hr
            · split at hr
              · rename_i v hv
                simp only [Lru.Res.hit.injEq] at hr
                have := ((hS c hc e hemem).2 v hv).2 x (by rw [hek]; exact hx)
                rw [← hr]; exact this
              · simp at hr
            · simp at hr
        exact lookupEach_complete s1 now d.path names hI1 hd x hmem hl (by rw [hfs1]; exact hex)
      · simp at heq
  · split at h
    · simp at h
    · rename_i ents hrd
      simp only [Except.ok.injEq] at h
      rw [← h]
      have hmem : x ∈ ents.map (·.1) := readdir_names_children hI.wf hrd x hx
      refine lookupEach_complete _ now d.path _ ?_ hd x hmem hl hex
      exact cinv_congr hI rfl rfl rfl rfl ((hI.dci.map_get now d.path).map_putIf _ now d.path _)

/-- … and every node is a listable name directly below the directory (whatever list of names it was built from) -/
theorem readDir_paths (s : St) (now : Nat) (d : Node) (nodes : List Node) (h : (readDir s now d).2 = .ok nodes) :
    ∀ nd ∈ nodes, ∃ x, True ∧ listable d.path x = true ∧ nd.path = joinName d.path x := by
  intro nd hnd
  unfold readDir at h
  simp only at h
  split at h
  · simp only [Except.ok.injEq] at h
    rw [← h] at hnd
    obtain ⟨x, _, hl, hp⟩ := lookupEach_paths _ now d.path _ nd hnd
    exact ⟨x, trivial, hl, hp⟩
  · split at h
    · simp at h
    · simp only [Except.ok.injEq] at h
      rw [← h] at hnd
      obtain ⟨x, _, hl, hp⟩ := lookupEach_paths _ now d.path _ nd hnd
      exact ⟨x, trivial, hl, hp⟩

/-! ### one READDIR call seen from the wire, whatever the directory cache holds -/

/-- a call from cookie 0 that is answered NFS3_OK with eof names every object the backend has directly below the
    directory (and whose name the listing loop accepts) — whether the listing came from the cache or the backend -/
theorem procReaddir_whole_complete (s s' : St) (c : Ctx) (args : Bytes) (a : Option Rfc.Fattr) (verf : Bytes)
    (ents : List Rfc.DirEnt) (hI : CInv s) (hS : DcSup s) (hd : Nat) (r1 r2 : Bytes) (n : Node)
    (hfh : decFh' s args = some (hd, r1)) (hck : decU64 r1 = some (0, r2)) (hn : nodeOf s hd = some n)
    (h : procReaddir s c args = (s', .res ⟨0, .readdirOk a verf ents true⟩)) (x : Bytes)
    (hl : listable n.path x = true) (hx : existsAt s.fs (fsPath n.path ++ [x]) = true) : x ∈ ents.map (·.name) := by
  unfold procReaddir at h
  rw [hfh] at h
  simp only [hck] at h
  split at h
  · simp [res] at h
  · split at h
    · simp [res] at h
    · simp only [hn] at h
      split at h
      · simp [res] at h
      · split at h
        · simp [res] at h
        · rename_i s1 nodes hrd
          split at h
          · simp [res] at h
          · rename_i s2 at' hg
            try simp only at h
            split at h
            · simp [res] at h
            · rename_i ents' lim hfill
              simp only [res, Prod.mk.injEq, Outcome.res.injEq, Rfc.Res.mk.injEq, Rfc.Body.readdirOk.injEq, true_and] at h
              obtain ⟨_, _, _, hents, hlim⟩ := h
              have hcl := nodeOf_cleanI hI hn
              have hcomp := readDir_complete s c.now n nodes hI hS hcl (by rw [hrd]) x hl hx
              have hlimF : lim = false := by cases lim <;> simp_all
              generalize hL : (if _ < dirListHeader + dirListTrailer then minReaddirReply else _) = limit at hfill
              have hlim0 : dirListHeader + dirListTrailer ≤ limit := by
                rw [← hL]; split
                · decide
                · omega
              have hps := page_spec limit 0 nodes (Nat.zero_le _) hlim0
              unfold page at hps
              rw [hfill] at hps
              obtain ⟨k, hk1, hents', _, hall, _⟩ := hps
              have hk2 := hall hlimF
              simp only [List.drop_zero] at hk2 hents'
              rw [hk2, List.take_length] at hents'
              rw [← hents, hents', numbered_names]
              have hns : NoSep x := by
                unfold listable at hl
                simp only [Bool.and_eq_true, Bool.not_eq_true', decide_eq_false_iff_not, not_or] at hl
                refine ⟨hl.1.2.2.1, ?_, hl.1.1, hl.1.2.1⟩
                intro h47; exact hl.1.2.2.2.1 (by simpa using h47)
              obtain ⟨nd, hnd, hp⟩ := List.mem_map.mp hcomp
              refine List.mem_map.mpr ⟨nd, hnd, ?_⟩
              rw [hp]; exact baseName_joinName n.path x hns

/-! ### a listing answered from the cache is the backend's listing, in the backend's order -/

/-- a name the listing loop accepts whose object exists -/
def present (fs : Fs.T) (dir n : Bytes) : Bool := listable dir n && existsAt fs (fsPath (joinName dir n))

theorem not_existsAt_of_lstat_err {fs : Fs.T} (hw : Fs.WF fs) {q : Fs.Path} {err : Fs.Errno} (h : Fs.lstat fs q = .error err) :
    existsAt fs q = false := by
  unfold existsAt
  rw [Fs.get_none_of_walk_err hw (Fs.lstat_err_walk h)]; rfl

/-- Lookup-by-name over a coherent cache returns a node for exactly the listable names of the list that exist, in the
    list's order -/
theorem lookupEach_filter (s : St) (now : Nat) (dir : Bytes) (names : List Bytes) (hI : CInv s) (hd : CleanPath dir) :
    (lookupEach s now dir names).2.map (·.path) = (names.filter (present s.fs dir)).map (joinName dir) := by
  induction names generalizing s with
  | nil => simp [lookupEach]
  | cons x xs ih =>
    unfold lookupEach
    split
    · rename_i hskip
      have : present s.fs dir x = false := by
        unfold present listable; simp only [Bool.and_eq_false_imp, Bool.and_eq_true, Bool.not_eq_true', decide_eq_false_iff_not]
        intro hc; exact absurd hskip hc.1
      rw [List.filter_cons_of_neg (by simp [this])]
      exact ih s hI
    · rename_i hskip
      split
      · rename_i hsan
        have : present s.fs dir x = false := by unfold present listable; simp [hsan]
        rw [List.filter_cons_of_neg (by simp [this])]
        exact ih s hI
      · rename_i p hsan
        have hl : listable dir x = true := by
          unfold listable
          simp only [hsan, Option.isSome_some, Bool.and_true, Bool.not_eq_true', decide_eq_false_iff_not]
          exact hskip
        have hpe := sanitize_some hsan
        have hns : NoSep x := by
          simp only [not_or] at hskip
          refine ⟨hskip.2.2.1, ?_, hskip.1, hskip.2.1⟩
          intro h47; exact hskip.2.2.2.1 (by simpa using h47)
        have hpc : CleanPath p := by rw [hpe]; exact .child dir x hd hns
        split
        · rename_i s1 e heq
          have h1 : CInv s1 := lookupPath_cinv' heq hI hpc
          have hfs := lookupPath_fs' heq
          have hno : present s.fs dir x = false := by
            unfold present
            rcases (lookupPath_sound (s' := s1) hI.coh).2 e heq with h | ⟨err, herr⟩
            · exact absurd h (cleanPath_ne_nil hpc)
            · rw [hpe] at herr
              rw [not_existsAt_of_lstat_err hI.wf herr]; simp
          rw [List.filter_cons_of_neg (by simp [hno]), ih s1 h1, hfs]
        · rename_i s1 node heq
          have h1 : CInv s1 := lookupPath_cinv' heq hI hpc
          have hfs := lookupPath_fs' heq
          have hyes : present s.fs dir x = true := by
            unfold present
            obtain ⟨_, i, hi, _⟩ := (lookupPath_sound (s' := s1) hI.coh).1 node heq
            rw [hpe] at hi
            rw [hl, existsAt_of_lstat hi]; rfl
          rw [List.filter_cons_of_pos (by simp [hyes])]
          simp only [List.map_cons]
          rw [ih s1 h1, hfs, lookupPath_path heq, hpe]

/-- the names of the objects stored directly below a path are the names `children` lists -/
theorem mem_children_iff {fs : Fs.T} (hw : Fs.WF fs) (p : Fs.Path) (x : Fs.Name) :
    x ∈ (Fs.sortByName (Fs.children fs p)).map (·.1) ↔ existsAt fs (p ++ [x]) = true := by
  constructor
  · intro h
    obtain ⟨y, hy, hyx⟩ := List.mem_map.mp h
    have hy' := Fs.of_mem_sortByName hy
    obtain ⟨n, e⟩ := y
    simp only at hyx
    subst hyx
    obtain ⟨i, hi⟩ := child_exists hw hy'
    exact existsAt_of_lstat hi
  · intro h
    unfold existsAt at h
    cases hg : Fs.get fs (p ++ [x]) with
    | none => simp [hg] at h
    | some y =>
      obtain ⟨y', hy'⟩ := mem_children_of_get hg
      exact List.mem_map.mpr ⟨(x, y'), mem_sortByName hy', rfl⟩

/-- C02 / C26: whatever the directory cache holds (under the invariant, i.e. after any history), the node list of a
    READDIR on a handle whose path is a directory of the backend is the backend's directory in name order,
    restricted to the names the listing loop accepts — the cache is invisible -/
theorem readDir_is_backend (s : St) (now : Nat) (d : Node) (nodes : List Node) (hI : CInv s) (hS : DcSup s)
    (hd : CleanPath d.path) (h : (readDir s now d).2 = .ok nodes) :
    nodes.map (·.path) =
      ((((Fs.sortByName (Fs.children s.fs (fsPath d.path))).map (·.1)).filter (listable d.path)).map (joinName d.path)) := by
  -- whichever list of names the nodes were built from: it is increasing and names every child
  have key : ∀ (S : St) (names : List Bytes), CInv S → S.fs = s.fs → Fs.Increasing names →
      (∀ x, existsAt s.fs (fsPath d.path ++ [x]) = true → x ∈ names) →
      (lookupEach S now d.path names).2.map (·.path) =
        ((((Fs.sortByName (Fs.children s.fs (fsPath d.path))).map (·.1)).filter (listable d.path)).map (joinName d.path)) := by
    intro S names hIS hfs hinc hsup
    rw [lookupEach_filter S now d.path names hIS hd, hfs]
    congr 1
    refine Fs.Increasing.ext (hinc.filter _) ((Fs.sorted_children_increasing hI.wf _).filter _) ?_
    intro x
    simp only [List.mem_filter, present, Bool.and_eq_true]
    constructor
    · rintro ⟨_, hl, hex⟩
      have hns : NoSep x := by
        unfold listable at hl
        simp only [Bool.and_eq_true, Bool.not_eq_true', decide_eq_false_iff_not, not_or] at hl
        refine ⟨hl.1.2.2.1, ?_, hl.1.1, hl.1.2.1⟩
        intro h47; exact hl.1.2.2.2.1 (by simpa using h47)
      rw [fsPath_joinName d.path x hns] at hex
      exact ⟨(mem_children_iff hI.wf _ x).mpr hex, hl⟩
    · rintro ⟨hm, hl⟩
      have hex := (mem_children_iff hI.wf _ x).mp hm
      have hns : NoSep x := by
        unfold listable at hl
        simp only [Bool.and_eq_true, Bool.not_eq_true', decide_eq_false_iff_not, not_or] at hl
        refine ⟨hl.1.2.2.1, ?_, hl.1.1, hl.1.2.1⟩
        intro h47; exact hl.1.2.2.2.1 (by simpa using h47)
      refine ⟨hsup x hex, hl, ?_⟩
      rw [fsPath_joinName d.path x hns]; exact hex
  unfold readDir at h
  simp only at h
  split at h
  · rename_i s1 names heq
    simp only [Except.ok.injEq] at h
    rw [← h]
    split at heq
    · simp at heq
    · rename_i c hc
      split at heq
      · rename_i c1 nm hget
        simp only [Option.some.injEq, Prod.mk.injEq] at heq
        have hI1 : CInv s1 := by
          rw [← heq.1]
          refine cinv_congr hI rfl rfl rfl rfl ?_
          intro c' hc'
          simp only [Option.some.injEq] at hc'
          rw [← hc']
          have := Lru.inv_get (hI.dci c hc) now d.path
          rw [hget] at this; exact this
        have hfs1 : s1.fs = s.fs := by rw [← heq.1]
        have hr : Lru.getRead c now d.path = .hit nm := by
          unfold Lru.get at hget
          split at hget
          · simp at hget
          · simp only [Prod.mk.injEq] at hget
            exact hget.2
        unfold Lru.getRead at hr
        split at hr
        · simp at hr
        · rename_i e hlk
          obtain ⟨hemem, hek⟩ := Lru.lookup_some_mem hlk
          split at hr
          · split at hr
            · rename_i v hv
              simp only [Lru.Res.hit.injEq] at hr
              have hok := (hS c hc e hemem).2 v hv
              rw [hr, heq.2, hek] at hok
              exact key s1 names hI1 hfs1 hok.1 hok.2
            · simp at hr
          · simp at hr
      · simp at heq
  · split at h
    · simp at h
    · rename_i ents hrd
      simp only [Except.ok.injEq] at h
      rw [← h]
      refine key _ _ ?_ rfl (readdir_names_increasing hI.wf hrd) (fun x hx => readdir_names_children hI.wf hrd x hx)
      exact cinv_congr hI rfl rfl rfl rfl ((hI.dci.map_get now d.path).map_putIf _ now d.path _)

/-- one READDIR call seen from the wire, whatever the directory cache holds: a call from cookie 0 answered NFS3_OK
    with eof carries exactly the names of the backend's directory that the listing loop accepts, in name order -/
theorem procReaddir_whole (s s' : St) (c : Ctx) (args : Bytes) (a : Option Rfc.Fattr) (verf : Bytes)
    (ents : List Rfc.DirEnt) (hI : CInv s) (hS : DcSup s) (hd : Nat) (r1 r2 : Bytes) (n : Node)
    (hfh : decFh' s args = some (hd, r1)) (hck : decU64 r1 = some (0, r2)) (hn : nodeOf s hd = some n)
    (h : procReaddir s c args = (s', .res ⟨0, .readdirOk a verf ents true⟩)) :
    ents.map (·.name) = ((Fs.sortByName (Fs.children s.fs (fsPath n.path))).map (·.1)).filter (listable n.path) := by
  unfold procReaddir at h
  rw [hfh] at h
  simp only [hck] at h
  split at h
  · simp [res] at h
  · split at h
    · simp [res] at h
    · simp only [hn] at h
      split at h
      · simp [res] at h
      · split at h
        · simp [res] at h
        · rename_i s1 nodes hrd
          split at h
          · simp [res] at h
          · rename_i s2 at' hg
            try simp only at h
            split at h
            · simp [res] at h
            · rename_i ents' lim hfill
              simp only [res, Prod.mk.injEq, Outcome.res.injEq, Rfc.Res.mk.injEq, Rfc.Body.readdirOk.injEq, true_and] at h
              obtain ⟨_, _, _, hents, hlim⟩ := h
              have hcl := nodeOf_cleanI hI hn
              have hlist := readDir_is_backend s c.now n nodes hI hS hcl (by rw [hrd])
              have hlimF : lim = false := by cases lim <;> simp_all
              generalize hL : (if _ < dirListHeader + dirListTrailer then minReaddirReply else _) = limit at hfill
              have hlim0 : dirListHeader + dirListTrailer ≤ limit := by
                rw [← hL]; split
                · decide
                · omega
              have hps := page_spec limit 0 nodes (Nat.zero_le _) hlim0
              unfold page at hps
              rw [hfill] at hps
              obtain ⟨k, hk1, hents', _, hall, _⟩ := hps
              have hk2 := hall hlimF
              simp only [List.drop_zero] at hk2 hents'
              rw [hk2, List.take_length] at hents'
              rw [← hents, hents', numbered_names]
              have hmm : nodes.map (fun n' => baseName n'.path) = (nodes.map (·.path)).map baseName := by
                simp [List.map_map, Function.comp_def]
              rw [hmm, hlist, List.map_map]
              have hid : ∀ x ∈ ((Fs.sortByName (Fs.children s.fs (fsPath n.path))).map (·.1)).filter (listable n.path),
                  (baseName ∘ joinName n.path) x = x := by
                intro x hx
                have hl := (List.mem_filter.mp hx).2
                have hns : NoSep x := by
                  unfold listable at hl
                  simp only [Bool.and_eq_true, Bool.not_eq_true', decide_eq_false_iff_not, not_or] at hl
                  refine ⟨hl.1.2.2.1, ?_, hl.1.1, hl.1.2.1⟩
                  intro h47; exact hl.1.2.2.2.1 (by simpa using h47)
                exact baseName_joinName n.path x hns
              rw [List.map_congr_left hid]
              simp

/-- the same for READDIRPLUS: a call from cookie 0 answered NFS3_OK with eof carries exactly the names of the backend's
    directory that the listing loop accepts, in name order, whatever the directory cache holds -/
theorem procReaddirplus_whole (s s' : St) (c : Ctx) (args : Bytes) (a : Option Rfc.Fattr) (verf : Bytes)
    (ents : List Rfc.DirEntPlus) (hI : CInv s) (hS : DcSup s) (hd : Nat) (r1 r2 : Bytes) (n : Node)
    (hfh : decFh' s args = some (hd, r1)) (hck : decU64 r1 = some (0, r2)) (hn : nodeOf s hd = some n)
    (h : procReaddirplus s c args = (s', .res ⟨0, .readdirplusOk a verf ents true⟩)) :
    ents.map (·.name) = ((Fs.sortByName (Fs.children s.fs (fsPath n.path))).map (·.1)).filter (listable n.path) := by
  unfold procReaddirplus at h
  rw [hfh] at h
  simp only [hck] at h
  split at h
  · simp [res] at h
  · split at h
    · simp [res] at h
    · split at h
      · simp [res] at h
      · simp only [hn] at h
        split at h
        · simp [res] at h
        · split at h
          · simp [res] at h
          · rename_i s1 nodes0 hrd
            split at h
            · simp [res] at h
            · rename_i s3 at' hg
              split at h
              · simp [res] at h
              · rename_i s4 ents' lim hfill
                simp only [res, Prod.mk.injEq, Outcome.res.injEq, Rfc.Res.mk.injEq, Rfc.Body.readdirplusOk.injEq, true_and] at h
                obtain ⟨_, _, _, hents, hlim⟩ := h
                have hcl := nodeOf_cleanI hI hn
                have hlist := readDir_is_backend s c.now n nodes0 hI hS hcl (by rw [hrd])
                have hlimF : lim = false := by cases lim <;> simp_all
                generalize hL : (if _ < dirListHeader + dirListTrailer then minReaddirplusReply else _) = limit at hfill
                have hlim0 : dirListHeader + dirListTrailer ≤ limit := by
                  rw [← hL]; split
                  · decide
                  · omega
                have hps := pagePlus_spec limit 0 s3 (refreshEach s1 c.now nodes0).2 (Nat.zero_le _) hlim0
                rw [hfill] at hps
                obtain ⟨k, hk1, hstrip, _, _, hall, _⟩ := hps
                have hk2 := hall hlimF
                simp only [List.drop_zero] at hk2 hstrip
                rw [hk2, List.take_length] at hstrip
                have hnames : ents'.map (·.name) = (ents'.map stripPlus).map (·.name) := by
                  simp [List.map_map, Function.comp_def, stripPlus]
                rw [← hents, hnames, hstrip, numbered_names]
                have hmm : (refreshEach s1 c.now nodes0).2.map (fun n' => baseName n'.path) =
                    ((refreshEach s1 c.now nodes0).2.map (·.path)).map baseName := by
                  simp [List.map_map, Function.comp_def]
                rw [hmm, (refreshEach_spec s1 c.now nodes0).1, hlist, List.map_map]
                have hid : ∀ x ∈ ((Fs.sortByName (Fs.children s.fs (fsPath n.path))).map (·.1)).filter (listable n.path),
                    (baseName ∘ joinName n.path) x = x := by
                  intro x hx
                  have hl := (List.mem_filter.mp hx).2
                  have hns : NoSep x := by
                    unfold listable at hl
                    simp only [Bool.and_eq_true, Bool.not_eq_true', decide_eq_false_iff_not, not_or] at hl
                    refine ⟨hl.1.2.2.1, ?_, hl.1.1, hl.1.2.1⟩
                    intro h47; exact hl.1.2.2.2.1 (by simpa using h47)
                  exact baseName_joinName n.path x hns
                rw [List.map_congr_left hid]
                simp

end Server
end Absnfs
