/-
  Rfc1813: typed NFSv3 / MOUNTv3 results (RFC 1813) with an encoder and an exact decoder.
  Times are not part of the typed value: the encoder writes zeros, the decoder skips them, so the same decoder
  reads real server replies (any times) and model replies.
-/
import Absnfs.Xdr
namespace Absnfs
namespace Rfc

structure Fattr where
  ftype : Nat
  mode : Nat
  nlink : Nat
  uid : Nat
  gid : Nat
  size : Nat
  used : Nat
  fileid : Nat
  deriving DecidableEq, Repr

def Fattr.WF (a : Fattr) : Prop :=
  1 ≤ a.ftype ∧ a.ftype ≤ 7 ∧ a.mode < 4294967296 ∧ a.nlink < 4294967296 ∧ a.uid < 4294967296 ∧
  a.gid < 4294967296 ∧ a.size < 18446744073709551616 ∧ a.used < 18446744073709551616 ∧
  a.fileid < 18446744073709551616

/-- fattr3: type mode nlink uid gid size used rdev(2) fsid fileid atime mtime ctime = 84 bytes -/
def encFattr (a : Fattr) : Bytes :=
  encU32 a.ftype ++ encU32 a.mode ++ encU32 a.nlink ++ encU32 a.uid ++ encU32 a.gid ++
  encU64 a.size ++ encU64 a.used ++ zeros 8 ++ zeros 8 ++ encU64 a.fileid ++ zeros 24

def decFattr (bs : Bytes) : Option (Fattr × Bytes) :=
  match decU32 bs with
  | none => none
  | some (ft, r1) =>
  if ft < 1 ∨ ft > 7 then none else
  match decU32 r1 with
  | none => none
  | some (mode, r2) =>
  match decU32 r2 with
  | none => none
  | some (nlink, r3) =>
  match decU32 r3 with
  | none => none
  | some (uid, r4) =>
  match decU32 r4 with
  | none => none
  | some (gid, r5) =>
  match decU64 r5 with
  | none => none
  | some (size, r6) =>
  match decU64 r6 with
  | none => none
  | some (used, r7) =>
  match take? 16 r7 with      -- rdev (specdata3) and fsid
  | none => none
  | some (_, r8) =>
  match decU64 r8 with
  | none => none
  | some (fileid, r9) =>
  match take? 24 r9 with      -- atime, mtime, ctime
  | none => none
  | some (_, r10) =>
    some ({ ftype := ft, mode := mode, nlink := nlink, uid := uid, gid := gid, size := size, used := used,
            fileid := fileid }, r10)

theorem take?_zeros (n : Nat) (rest : Bytes) : take? n (zeros n ++ rest) = some (zeros n, rest) := by
  have := take?_append (zeros n) rest
  simpa using this

theorem decFattr_encFattr (a : Fattr) (rest : Bytes) (h : a.WF) :
    decFattr (encFattr a ++ rest) = some (a, rest) := by
  obtain ⟨h1, h2, h3, h4, h5, h6, h7, h8, h9⟩ := h
  unfold decFattr encFattr
  simp only [List.append_assoc]
  rw [decU32_encU32 _ (by omega)]; simp only
  rw [if_neg (by omega)]
  rw [decU32_encU32 _ h3]; simp only
  rw [decU32_encU32 _ h4]; simp only
  rw [decU32_encU32 _ h5]; simp only
  rw [decU32_encU32 _ h6]; simp only
  rw [decU64_encU64 _ h7]; simp only
  rw [decU64_encU64 _ h8]; simp only
  have : zeros 8 ++ (zeros 8 ++ (encU64 a.fileid ++ (zeros 24 ++ rest))) =
      zeros 16 ++ (encU64 a.fileid ++ (zeros 24 ++ rest)) := by
    simp only [zeros, ← List.append_assoc]
    rfl
  rw [this, take?_zeros]; simp only
  rw [decU64_encU64 _ h9]; simp only
  rw [take?_zeros]

/-- post_op_attr -/
def encPostOp : Option Fattr → Bytes
  | none => encU32 0
  | some a => encU32 1 ++ encFattr a

def decPostOp (bs : Bytes) : Option (Option Fattr × Bytes) :=
  match decU32 bs with
  | none => none
  | some (f, r) =>
    if f = 0 then some (none, r)
    else if f = 1 then (match decFattr r with | none => none | some (a, r') => some (some a, r'))
    else none

theorem decPostOp_enc (o : Option Fattr) (rest : Bytes) (h : ∀ a, o = some a → a.WF) :
    decPostOp (encPostOp o ++ rest) = some (o, rest) := by
  cases o with
  | none => simp [decPostOp, encPostOp, decU32_encU32]
  | some a =>
    unfold decPostOp encPostOp
    rw [List.append_assoc, decU32_encU32 _ (by omega)]
    simp only [show (1 : Nat) ≠ 0 by decide, if_false, if_true]
    rw [decFattr_encFattr a rest (h a rfl)]

/-- wcc_attr (size; mtime, ctime skipped) and pre_op_attr -/
def encPreOp : Option Nat → Bytes
  | none => encU32 0
  | some sz => encU32 1 ++ encU64 sz ++ zeros 16

def decPreOp (bs : Bytes) : Option (Option Nat × Bytes) :=
  match decU32 bs with
  | none => none
  | some (f, r) =>
    if f = 0 then some (none, r)
    else if f = 1 then
      match decU64 r with
      | none => none
      | some (sz, r1) => match take? 16 r1 with
        | none => none
        | some (_, r2) => some (some sz, r2)
    else none

theorem decPreOp_enc (o : Option Nat) (rest : Bytes) (h : ∀ a, o = some a → a < 18446744073709551616) :
    decPreOp (encPreOp o ++ rest) = some (o, rest) := by
  cases o with
  | none => simp [decPreOp, encPreOp, decU32_encU32]
  | some a =>
    unfold decPreOp encPreOp
    simp only [List.append_assoc]
    rw [decU32_encU32 _ (by omega)]
    simp only [show (1 : Nat) ≠ 0 by decide, if_false, if_true]
    rw [decU64_encU64 _ (h a rfl)]; simp only
    rw [take?_zeros]

structure Wcc where
  pre : Option Nat
  post : Option Fattr
  deriving DecidableEq, Repr

def Wcc.WF (w : Wcc) : Prop := (∀ a, w.pre = some a → a < 18446744073709551616) ∧ (∀ a, w.post = some a → a.WF)

def encWcc (w : Wcc) : Bytes := encPreOp w.pre ++ encPostOp w.post

def decWcc (bs : Bytes) : Option (Wcc × Bytes) :=
  match decPreOp bs with
  | none => none
  | some (pre, r) => match decPostOp r with
    | none => none
    | some (post, r') => some (⟨pre, post⟩, r')

theorem decWcc_enc (w : Wcc) (rest : Bytes) (h : w.WF) : decWcc (encWcc w ++ rest) = some (w, rest) := by
  unfold decWcc encWcc
  rw [List.append_assoc, decPreOp_enc _ _ h.1]; simp only
  rw [decPostOp_enc _ _ h.2]

/-- post_op_fh3 -/
def encPostFh : Option Nat → Bytes
  | none => encU32 0
  | some h => encU32 1 ++ encFh h

def decPostFh (bs : Bytes) : Option (Option Nat × Bytes) :=
  match decU32 bs with
  | none => none
  | some (f, r) =>
    if f = 0 then some (none, r)
    else if f = 1 then (match decFh 64 8 r with | none => none | some (h, r') => some (some h, r'))
    else none

theorem decPostFh_enc (o : Option Nat) (rest : Bytes) (h : ∀ a, o = some a → a < 18446744073709551616) :
    decPostFh (encPostFh o ++ rest) = some (o, rest) := by
  cases o with
  | none => simp [decPostFh, encPostFh, decU32_encU32]
  | some a =>
    unfold decPostFh encPostFh
    rw [List.append_assoc, decU32_encU32 _ (by omega)]
    simp only [show (1 : Nat) ≠ 0 by decide, if_false, if_true]
    rw [decFh_encFh 64 a rest (by decide) (h a rfl)]

/-! ### Result bodies, grouped by wire shape -/

structure DirEnt where
  fileid : Nat
  name : Bytes
  cookie : Nat
  deriving DecidableEq, Repr

structure DirEntPlus where
  fileid : Nat
  name : Bytes
  cookie : Nat
  attr : Option Fattr
  fh : Option Nat
  deriving DecidableEq, Repr

inductive Body where
  | void                                              -- NULL, UMNT, UMNTALL (no status word at all)
  | statusOnly                                        -- GETATTR3resfail, MNT failure
  | attr (a : Fattr)                                  -- GETATTR3resok
  | wcc (w : Wcc)                                     -- SETATTR, REMOVE, RMDIR; *resfail of WRITE/CREATE/MKDIR/SYMLINK/MKNOD/COMMIT
  | postOp (o : Option Fattr)                         -- *resfail of LOOKUP/ACCESS/READLINK/READ/READDIR(PLUS)/FSSTAT/FSINFO/PATHCONF
  | lookupOk (fh : Nat) (obj dir : Option Fattr)
  | accessOk (obj : Option Fattr) (access : Nat)
  | readlinkOk (obj : Option Fattr) (path : Bytes)
  | readOk (obj : Option Fattr) (count : Nat) (eof : Bool) (data : Bytes)
  | writeOk (w : Wcc) (count committed : Nat) (verf : Bytes)
  | createOk (fh : Option Nat) (obj : Option Fattr) (w : Wcc)   -- CREATE/MKDIR/SYMLINK/MKNOD resok
  | wcc2 (a b : Wcc)                                  -- RENAME
  | linkRes (o : Option Fattr) (w : Wcc)              -- LINK
  | readdirOk (dir : Option Fattr) (verf : Bytes) (ents : List DirEnt) (eof : Bool)
  | readdirplusOk (dir : Option Fattr) (verf : Bytes) (ents : List DirEntPlus) (eof : Bool)
  | fsstatOk (o : Option Fattr) (tbytes fbytes abytes tfiles ffiles afiles invarsec : Nat)
  | fsinfoOk (o : Option Fattr) (rtmax rtpref rtmult wtmax wtpref wtmult dtpref maxfilesize tdSec tdNsec props : Nat)
  | pathconfOk (o : Option Fattr) (linkmax nameMax noTrunc chownRestricted caseInsensitive casePreserving : Nat)
  | commitOk (w : Wcc) (verf : Bytes)
  | mntOk (fh : Bytes) (flavors : List Nat)
  | mountList (names : List (Bytes × Bytes))          -- DUMP: (hostname, directory)*
  | exportList (exports : List (Bytes × List Bytes))  -- EXPORT: (dir, groups*)*
  deriving DecidableEq, Repr

structure Res where
  status : Nat
  body : Body
  deriving DecidableEq, Repr

def encBool (b : Bool) : Bytes := encU32 (if b then 1 else 0)

def encDirEnts : List DirEnt → Bytes
  | [] => encU32 0
  | e :: es => encU32 1 ++ encU64 e.fileid ++ encOpaque e.name ++ encU64 e.cookie ++ encDirEnts es

def encDirEntsPlus : List DirEntPlus → Bytes
  | [] => encU32 0
  | e :: es => encU32 1 ++ encU64 e.fileid ++ encOpaque e.name ++ encU64 e.cookie ++ encPostOp e.attr ++
      encPostFh e.fh ++ encDirEntsPlus es

def encMountList : List (Bytes × Bytes) → Bytes
  | [] => encU32 0
  | (h, d) :: es => encU32 1 ++ encOpaque h ++ encOpaque d ++ encMountList es

def encGroups : List Bytes → Bytes
  | [] => encU32 0
  | g :: gs => encU32 1 ++ encOpaque g ++ encGroups gs

def encExports : List (Bytes × List Bytes) → Bytes
  | [] => encU32 0
  | (d, gs) :: es => encU32 1 ++ encOpaque d ++ encGroups gs ++ encExports es

def encBody : Body → Bytes
  | .void => []
  | .statusOnly => []
  | .attr a => encFattr a
  | .wcc w => encWcc w
  | .postOp o => encPostOp o
  | .lookupOk fh obj dir => encFh fh ++ encPostOp obj ++ encPostOp dir
  | .accessOk obj acc => encPostOp obj ++ encU32 acc
  | .readlinkOk obj p => encPostOp obj ++ encOpaque p
  | .readOk obj cnt eof data => encPostOp obj ++ encU32 cnt ++ encBool eof ++ encOpaque data
  | .writeOk w cnt com verf => encWcc w ++ encU32 cnt ++ encU32 com ++ verf
  | .createOk fh obj w => encPostFh fh ++ encPostOp obj ++ encWcc w
  | .wcc2 a b => encWcc a ++ encWcc b
  | .linkRes o w => encPostOp o ++ encWcc w
  | .readdirOk d verf ents eof => encPostOp d ++ verf ++ encDirEnts ents ++ encBool eof
  | .readdirplusOk d verf ents eof => encPostOp d ++ verf ++ encDirEntsPlus ents ++ encBool eof
  | .fsstatOk o a b c d e f g => encPostOp o ++ encU64 a ++ encU64 b ++ encU64 c ++ encU64 d ++ encU64 e ++ encU64 f ++ encU32 g
  | .fsinfoOk o a b c d e f g mfs t1 t2 pr =>
      encPostOp o ++ encU32 a ++ encU32 b ++ encU32 c ++ encU32 d ++ encU32 e ++ encU32 f ++ encU32 g ++
      encU64 mfs ++ encU32 t1 ++ encU32 t2 ++ encU32 pr
  | .pathconfOk o a b c d e f => encPostOp o ++ encU32 a ++ encU32 b ++ encU32 c ++ encU32 d ++ encU32 e ++ encU32 f
  | .commitOk w verf => encWcc w ++ verf
  | .mntOk fh fl => encOpaque fh ++ encU32 fl.length ++ fl.flatMap encU32
  | .mountList l => encMountList l
  | .exportList l => encExports l

/-- the bytes after the RPC accepted-reply header -/
def encRes (r : Res) : Bytes :=
  match r.body with
  | .void => []
  | .mountList l => encMountList l          -- DUMP and EXPORT have no status word
  | .exportList l => encExports l
  | b => encU32 r.status ++ encBody b

/-- members of nfsstat3 (RFC 1813 §2.6) -/
def nfsstat3 : List Nat :=
  [0, 1, 2, 5, 6, 13, 17, 18, 19, 20, 21, 22, 27, 28, 30, 31, 63, 66, 69, 70, 71,
   10001, 10002, 10003, 10004, 10005, 10006, 10007, 10008]

/-- members of mountstat3 (RFC 1813 §5.1.5) -/
def mountstat3 : List Nat := [0, 1, 2, 5, 13, 20, 22, 63, 10004, 10006]

def decBool (bs : Bytes) : Option (Bool × Bytes) :=
  match decU32 bs with
  | some (0, r) => some (false, r)
  | some (1, r) => some (true, r)
  | _ => none

def decDirEnts : Nat → Bytes → Option (List DirEnt × Bytes)
  | 0, _ => none
  | fuel + 1, bs =>
    match decU32 bs with
    | none => none
    | some (more, r0) =>
      if more = 0 then some ([], r0) else if more ≠ 1 then none else
      match decU64 r0 with
      | none => none
      | some (fid, r1) =>
      match decOpaque 4294967295 r1 with
      | none => none
      | some (name, r2) =>
      match decU64 r2 with
      | none => none
      | some (ck, r3) =>
        match decDirEnts fuel r3 with
        | none => none
        | some (rest, r4) => some (⟨fid, name, ck⟩ :: rest, r4)

def decDirEntsPlus : Nat → Bytes → Option (List DirEntPlus × Bytes)
  | 0, _ => none
  | fuel + 1, bs =>
    match decU32 bs with
    | none => none
    | some (more, r0) =>
      if more = 0 then some ([], r0) else if more ≠ 1 then none else
      match decU64 r0 with
      | none => none
      | some (fid, r1) =>
      match decOpaque 4294967295 r1 with
      | none => none
      | some (name, r2) =>
      match decU64 r2 with
      | none => none
      | some (ck, r3) =>
      match decPostOp r3 with
      | none => none
      | some (attr, r4) =>
      match decPostFh r4 with
      | none => none
      | some (fh, r5) =>
        match decDirEntsPlus fuel r5 with
        | none => none
        | some (rest, r6) => some (⟨fid, name, ck, attr, fh⟩ :: rest, r6)

def decU32s' : Nat → Bytes → Option (List Nat × Bytes)
  | 0, bs => some ([], bs)
  | n + 1, bs =>
    match decU32 bs with
    | none => none
    | some (v, r) => match decU32s' n r with
      | none => none
      | some (vs, r') => some (v :: vs, r')

def decU64s' : Nat → Bytes → Option (List Nat × Bytes)
  | 0, bs => some ([], bs)
  | n + 1, bs =>
    match decU64 bs with
    | none => none
    | some (v, r) => match decU64s' n r with
      | none => none
      | some (vs, r') => some (v :: vs, r')

def decMountList : Nat → Bytes → Option (List (Bytes × Bytes) × Bytes)
  | 0, _ => none
  | fuel + 1, bs =>
    match decU32 bs with
    | none => none
    | some (more, r0) =>
      if more = 0 then some ([], r0) else if more ≠ 1 then none else
      match decOpaque 255 r0 with
      | none => none
      | some (h, r1) => match decOpaque 1024 r1 with
        | none => none
        | some (d, r2) => match decMountList fuel r2 with
          | none => none
          | some (rest, r3) => some ((h, d) :: rest, r3)

def decGroups : Nat → Bytes → Option (List Bytes × Bytes)
  | 0, _ => none
  | fuel + 1, bs =>
    match decU32 bs with
    | none => none
    | some (more, r0) =>
      if more = 0 then some ([], r0) else if more ≠ 1 then none else
      match decOpaque 255 r0 with
      | none => none
      | some (g, r1) => match decGroups fuel r1 with
        | none => none
        | some (rest, r2) => some (g :: rest, r2)

def decExports : Nat → Bytes → Option (List (Bytes × List Bytes) × Bytes)
  | 0, _ => none
  | fuel + 1, bs =>
    match decU32 bs with
    | none => none
    | some (more, r0) =>
      if more = 0 then some ([], r0) else if more ≠ 1 then none else
      match decOpaque 1024 r0 with
      | none => none
      | some (d, r1) => match decGroups (r1.length + 1) r1 with
        | none => none
        | some (gs, r2) => match decExports fuel r2 with
          | none => none
          | some (rest, r3) => some ((d, gs) :: rest, r3)

/-- finish: the decoder must have consumed everything -/
def done (b : Body) (rest : Bytes) : Option Body := if rest = [] then some b else none

def decWccBody (bs : Bytes) : Option Body :=
  match decWcc bs with | none => none | some (w, r) => done (.wcc w) r

def decPostOpBody (bs : Bytes) : Option Body :=
  match decPostOp bs with | none => none | some (o, r) => done (.postOp o) r

def decCreateOk (bs : Bytes) : Option Body :=
  match decPostFh bs with
  | none => none
  | some (fh, r1) => match decPostOp r1 with
    | none => none
    | some (obj, r2) => match decWcc r2 with
      | none => none
      | some (w, r3) => done (.createOk fh obj w) r3

/-- NFSv3 results: the body after the status word, for procedure `proc` and status `st` -/
def decNfsBody (proc st : Nat) (bs : Bytes) : Option Body :=
  let ok := st = 0
  match proc with
  | 1 => if ok then (match decFattr bs with | none => none | some (a, r) => done (.attr a) r) else done .statusOnly bs
  | 2 => decWccBody bs
  | 3 => if ok then
      (match decFh 64 8 bs with
       | none => none
       | some (fh, r1) => match decPostOp r1 with
         | none => none
         | some (obj, r2) => match decPostOp r2 with
           | none => none
           | some (dir, r3) => done (.lookupOk fh obj dir) r3)
    else decPostOpBody bs
  | 4 => if ok then
      (match decPostOp bs with
       | none => none
       | some (obj, r1) => match decU32 r1 with
         | none => none
         | some (acc, r2) => done (.accessOk obj acc) r2)
    else decPostOpBody bs
  | 5 => if ok then
      (match decPostOp bs with
       | none => none
       | some (obj, r1) => match decOpaque 4294967295 r1 with
         | none => none
         | some (p, r2) => done (.readlinkOk obj p) r2)
    else decPostOpBody bs
  | 6 => if ok then
      (match decPostOp bs with
       | none => none
       | some (obj, r1) => match decU32 r1 with
         | none => none
         | some (cnt, r2) => match decBool r2 with
           | none => none
           | some (eof, r3) => match decOpaque 4294967295 r3 with
             | none => none
             | some (data, r4) => done (.readOk obj cnt eof data) r4)
    else decPostOpBody bs
  | 7 => if ok then
      (match decWcc bs with
       | none => none
       | some (w, r1) => match decU32 r1 with
         | none => none
         | some (cnt, r2) => match decU32 r2 with
           | none => none
           | some (com, r3) => if com > 2 then none else match take? 8 r3 with
             | none => none
             | some (verf, r4) => done (.writeOk w cnt com verf) r4)
    else decWccBody bs
  | 8 | 9 | 10 | 11 => if ok then decCreateOk bs else decWccBody bs
  | 12 | 13 => decWccBody bs
  | 14 => (match decWcc bs with
      | none => none
      | some (a, r1) => match decWcc r1 with
        | none => none
        | some (b, r2) => done (.wcc2 a b) r2)
  | 15 => (match decPostOp bs with
      | none => none
      | some (o, r1) => match decWcc r1 with
        | none => none
        | some (w, r2) => done (.linkRes o w) r2)
  | 16 => if ok then
      (match decPostOp bs with
       | none => none
       | some (d, r1) => match take? 8 r1 with
         | none => none
         | some (verf, r2) => match decDirEnts (r2.length + 1) r2 with
           | none => none
           | some (ents, r3) => match decBool r3 with
             | none => none
             | some (eof, r4) => done (.readdirOk d verf ents eof) r4)
    else decPostOpBody bs
  | 17 => if ok then
      (match decPostOp bs with
       | none => none
       | some (d, r1) => match take? 8 r1 with
         | none => none
         | some (verf, r2) => match decDirEntsPlus (r2.length + 1) r2 with
           | none => none
           | some (ents, r3) => match decBool r3 with
             | none => none
             | some (eof, r4) => done (.readdirplusOk d verf ents eof) r4)
    else decPostOpBody bs
  | 18 => if ok then
      (match decPostOp bs with
       | none => none
       | some (o, r0) =>
         match decU64s' 6 r0 with
         | some ([a, b, c, d, e, f], r6) =>
           (match decU32 r6 with
            | none => none
            | some (g, r7) => done (.fsstatOk o a b c d e f g) r7)
         | _ => none)
    else decPostOpBody bs
  | 19 => if ok then
      (match decPostOp bs with
       | none => none
       | some (o, r0) =>
         match decU32s' 7 r0 with
         | some ([a, b, c, d, e, f, g], r1) =>
           (match decU64 r1 with
            | none => none
            | some (mfs, r2) =>
              match decU32s' 3 r2 with
              | some ([t1, t2, pr], r3) => done (.fsinfoOk o a b c d e f g mfs t1 t2 pr) r3
              | _ => none)
         | _ => none)
    else decPostOpBody bs
  | 20 => if ok then
      (match decPostOp bs with
       | none => none
       | some (o, r0) =>
         match decU32s' 6 r0 with
         | some ([a, b, c, d, e, f], r1) =>
           if c > 1 ∨ d > 1 ∨ e > 1 ∨ f > 1 then none else done (.pathconfOk o a b c d e f) r1
         | _ => none)
    else decPostOpBody bs
  | 21 => if ok then
      (match decWcc bs with
       | none => none
       | some (w, r1) => match take? 8 r1 with
         | none => none
         | some (verf, r2) => done (.commitOk w verf) r2)
    else decWccBody bs
  | _ => none

/-- Decoder of the result of (program, procedure): the whole byte string must be consumed and the body must
    have the RFC shape for its status; with `strict` the status must be a member of nfsstat3 / mountstat3. -/
def decResWith (strict : Bool) (prog proc : Nat) (bs : Bytes) : Option Res :=
  if prog = 100003 then
    if proc = 0 then (if bs = [] then some ⟨0, .void⟩ else none)
    else match decU32 bs with
      | none => none
      | some (st, r) =>
        if st ∈ nfsstat3 ∨ ¬ strict then (decNfsBody proc st r).map fun b => ⟨st, b⟩ else none
  else if prog = 100005 then
    match proc with
    | 0 | 3 | 4 => if bs = [] then some ⟨0, .void⟩ else none
    | 1 => (match decU32 bs with
      | none => none
      | some (st, r) =>
        if st ∉ mountstat3 ∧ strict then none
        else if st ≠ 0 then (done .statusOnly r).map fun b => ⟨st, b⟩
        else match decOpaque 64 r with
          | none => none
          | some (fh, r1) => match decU32 r1 with
            | none => none
            | some (n, r2) => match decU32s' n r2 with
              | none => none
              | some (fl, r3) => (done (.mntOk fh fl) r3).map fun b => ⟨0, b⟩)
    | 2 => (match decMountList (bs.length + 1) bs with
      | none => none
      | some (l, r) => (done (.mountList l) r).map fun b => ⟨0, b⟩)
    | 5 => (match decExports (bs.length + 1) bs with
      | none => none
      | some (l, r) => (done (.exportList l) r).map fun b => ⟨0, b⟩)
    | _ => none
  else none

/-- the exact decoder (status must be a member of nfsstat3 / mountstat3) -/
def decRes (prog proc : Nat) (bs : Bytes) : Option Res := decResWith true prog proc bs

end Rfc
end Absnfs
