/-
  Byte-level order-independence of WriteAt (C29, C01): writes to disjoint ranges of one file commute, a range
  written once keeps its payload through any number of later writes elsewhere in the file, and of two writes
  to the same range the later one wins. These are what make "the READ after the completed WRITEs" have one
  answer whatever serial order the concurrent WRITEs took.
-/
import Absnfs.Fs

namespace Absnfs.Fs

/-- byte strings of equal length that agree at every position are equal -/
theorem bytes_ext_getD {a b : Bytes} (hl : a.length = b.length)
    (h : ∀ i, i < a.length → a.getD i 0 = b.getD i 0) : a = b := by
  apply List.ext_getElem hl
  intro i h1 h2
  have := h i h1
  simp only [List.getD_eq_getElem?_getD, List.getElem?_eq_getElem h1, List.getElem?_eq_getElem h2,
    Option.getD_some] at this
  exact this

/-- WriteAt calls on disjoint ranges commute, holes included -/
theorem writeBytes_comm_disjoint (d : Bytes) (o1 o2 : Nat) (w1 w2 : Bytes) (h1 : w1 ≠ []) (h2 : w2 ≠ [])
    (hd : o1 + w1.length ≤ o2 ∨ o2 + w2.length ≤ o1) :
    writeBytes (writeBytes d o1 w1) o2 w2 = writeBytes (writeBytes d o2 w2) o1 w1 := by
  apply bytes_ext_getD
  · simp only [writeBytes_length _ _ _ h1, writeBytes_length _ _ _ h2]; omega
  · intro i _
    simp only [writeBytes_getD _ _ _ _ h1, writeBytes_getD _ _ _ _ h2]
    by_cases a : o1 ≤ i ∧ i < o1 + w1.length <;> by_cases b : o2 ≤ i ∧ i < o2 + w2.length <;>
      simp only [a, b, if_true, if_false, and_self] <;> (exfalso; omega)

/-- of two writes of the same range, the later one decides -/
theorem writeBytes_overwrite (d : Bytes) (o : Nat) (w1 w2 : Bytes) (h1 : w1 ≠ []) (h2 : w2 ≠ [])
    (hl : w1.length = w2.length) :
    writeBytes (writeBytes d o w1) o w2 = writeBytes d o w2 := by
  apply bytes_ext_getD
  · simp only [writeBytes_length _ _ _ h1, writeBytes_length _ _ _ h2]; omega
  · intro i _
    simp only [writeBytes_getD _ _ _ _ h1, writeBytes_getD _ _ _ _ h2]
    by_cases b : o ≤ i ∧ i < o + w2.length
    · simp only [b, and_self, if_true]
    · have a : ¬ (o ≤ i ∧ i < o + w1.length) := by omega
      simp only [a, b, if_false]

/-- `d` holds payload `w` at offset `o` -/
def Holds (d : Bytes) (o : Nat) (w : Bytes) : Prop :=
  o + w.length ≤ d.length ∧ ∀ i, i < w.length → d.getD (o + i) 0 = w.getD i 0

theorem holds_after_write (d : Bytes) (o : Nat) (w : Bytes) (hw : w ≠ []) : Holds (writeBytes d o w) o w := by
  refine ⟨by rw [writeBytes_length _ _ _ hw]; omega, ?_⟩
  intro i hi
  rw [writeBytes_getD _ _ _ _ hw]
  have : o ≤ o + i ∧ o + i < o + w.length := by omega
  simp only [this, and_self, if_true]
  congr 1; omega

theorem holds_kept {d : Bytes} {o : Nat} {w : Bytes} (h : Holds d o w) (o' : Nat) (w' : Bytes) (hw' : w' ≠ [])
    (hd : o' + w'.length ≤ o ∨ o + w.length ≤ o') : Holds (writeBytes d o' w') o w := by
  refine ⟨by rw [writeBytes_length _ _ _ hw']; have := h.1; omega, ?_⟩
  intro i hi
  rw [writeBytes_getD _ _ _ _ hw']
  have : ¬ (o' ≤ o + i ∧ o + i < o' + w'.length) := by omega
  simp only [this, if_false]
  exact h.2 i hi

theorem holds_slice {d : Bytes} {o : Nat} {w : Bytes} (h : Holds d o w) : slice d o w.length = w := by
  apply bytes_ext_getD
  · rw [slice_length]; have := h.1; omega
  · intro i hi
    rw [slice_length] at hi
    have hi' : i < w.length := by omega
    rw [slice_getD _ _ _ _ hi']
    exact h.2 i hi'

/-- a sequence of WriteAt calls, in the order given -/
def writeAll (d : Bytes) (ws : List (Nat × Bytes)) : Bytes := ws.foldl (fun d x => writeBytes d x.1 x.2) d

theorem holds_writeAll {d : Bytes} {o : Nat} {w : Bytes} (h : Holds d o w) (ws : List (Nat × Bytes))
    (hdis : ∀ x ∈ ws, x.2 ≠ [] ∧ (x.1 + x.2.length ≤ o ∨ o + w.length ≤ x.1)) :
    Holds (writeAll d ws) o w := by
  induction ws generalizing d with
  | nil => exact h
  | cons x xs ih =>
    have hx := hdis x (List.mem_cons_self)
    exact ih (holds_kept h x.1 x.2 hx.1 hx.2) (fun y hy => hdis y (List.mem_cons_of_mem _ hy))

/-- whatever was written before, and whatever disjoint writes follow in whatever order, reading the range
    back returns exactly the payload -/
theorem range_survives_disjoint_writes (d : Bytes) (o : Nat) (w : Bytes) (hw : w ≠ []) (ws : List (Nat × Bytes))
    (hdis : ∀ x ∈ ws, x.2 ≠ [] ∧ (x.1 + x.2.length ≤ o ∨ o + w.length ≤ x.1)) :
    slice (writeAll (writeBytes d o w) ws) o w.length = w :=
  holds_slice (holds_writeAll (holds_after_write d o w hw) ws hdis)

end Absnfs.Fs

namespace Absnfs.Fs

/-- two writes do not overlap -/
def Disj (x y : Nat × Bytes) : Prop := x.1 + x.2.length ≤ y.1 ∨ y.1 + y.2.length ≤ x.1

theorem Disj.symm {x y : Nat × Bytes} (h : Disj x y) : Disj y x := Or.symm h

/-- pairwise non-overlapping, non-empty writes: every order of applying them leaves the same bytes -/
theorem writeAll_perm {ws ws' : List (Nat × Bytes)} (hp : ws.Perm ws') (hdis : ws.Pairwise Disj)
    (hne : ∀ x ∈ ws, x.2 ≠ []) (d : Bytes) : writeAll d ws = writeAll d ws' := by
  induction hp generalizing d with
  | nil => rfl
  | cons x _ ih =>
    simp only [writeAll, List.foldl_cons]
    exact ih (List.Pairwise.of_cons hdis) (fun y hy => hne y (List.mem_cons_of_mem _ hy)) _
  | swap x y l =>
    simp only [writeAll, List.foldl_cons]
    have hy := hne y List.mem_cons_self
    have hx := hne x (List.mem_cons_of_mem _ List.mem_cons_self)
    have hxy : Disj y x := (List.pairwise_cons.mp hdis).1 x List.mem_cons_self
    rw [writeBytes_comm_disjoint d y.1 x.1 y.2 x.2 hy hx hxy]
  | trans p1 _ ih1 ih2 =>
    rw [ih1 hdis hne d]
    exact ih2 ((p1.pairwise_iff Disj.symm).mp hdis) (fun y hy => hne y (p1.mem_iff.mpr hy)) d

end Absnfs.Fs

namespace Absnfs.Fs

theorem writeBytes_length_ge (d : Bytes) (off : Nat) (w : Bytes) : d.length ≤ (writeBytes d off w).length := by
  by_cases hw : w = []
  · simp only [writeBytes, hw, if_true]; exact Nat.le_refl _
  · rw [writeBytes_length _ _ _ hw]; omega

theorem writeAll_length_ge (d : Bytes) (ws : List (Nat × Bytes)) : d.length ≤ (writeAll d ws).length := by
  induction ws generalizing d with
  | nil => exact Nat.le_refl _
  | cons x xs ih =>
    simp only [writeAll, List.foldl_cons]
    exact Nat.le_trans (writeBytes_length_ge d x.1 x.2) (ih _)

/-- after any sequence of writes, in any order, overlapping or not, the file is at least as long as the end of
    every non-empty write in it: a READ after the completed WRITEs cannot come back shorter -/
theorem writeAll_covers_every_write (d : Bytes) (ws : List (Nat × Bytes)) (x : Nat × Bytes) (hx : x ∈ ws) (hne : x.2 ≠ []) :
    x.1 + x.2.length ≤ (writeAll d ws).length := by
  induction ws generalizing d with
  | nil => cases hx
  | cons y ys ih =>
    simp only [writeAll, List.foldl_cons]
    cases List.mem_cons.mp hx with
    | inl h =>
      subst h
      have h1 : x.1 + x.2.length ≤ (writeBytes d x.1 x.2).length := by rw [writeBytes_length _ _ _ hne]; omega
      exact Nat.le_trans h1 (writeAll_length_ge _ ys)
    | inr h => exact ih _ h

end Absnfs.Fs

namespace Absnfs.Fs

/-- a WRITE that ends at or below the new size commutes with the SETATTR(size): either order leaves the same bytes -/
theorem truncBytes_writeBytes_comm (d : Bytes) (o : Nat) (w : Bytes) (n : Nat) (hw : w ≠ []) (h : o + w.length ≤ n) :
    truncBytes (writeBytes d o w) n = writeBytes (truncBytes d n) o w := by
  apply bytes_ext_getD
  · rw [truncBytes_length, writeBytes_length _ _ _ hw, truncBytes_length]; omega
  · intro i hi
    rw [truncBytes_length] at hi
    rw [truncBytes_getD, writeBytes_getD _ _ _ _ hw, writeBytes_getD _ _ _ _ hw, truncBytes_getD]
    simp only [hi, if_true]

/-- a WRITE that starts at or beyond the new size does not commute with it: the order is visible in the length,
    which is why the oracle only accepts outcomes of serial orders and does not expect a single one here -/
theorem trunc_then_write_differs (d : Bytes) (o : Nat) (w : Bytes) (n : Nat) (hw : w ≠ []) (h : n < o + w.length) :
    (truncBytes (writeBytes d o w) n).length ≠ (writeBytes (truncBytes d n) o w).length := by
  rw [truncBytes_length, writeBytes_length _ _ _ hw, truncBytes_length]; omega

end Absnfs.Fs
