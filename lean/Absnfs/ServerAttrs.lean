/-
  ServerAttrs: where the attributes in replies come from (C04, C02).
-/
import Absnfs.ServerOwner
namespace Absnfs
namespace Server

/-- attributes agree with the backend's lstat of a path: type, size, permission bits, and the path's fileid -/
def MatchesLstat (fs : Fs.T) (path : Bytes) (a : Attrs) : Prop :=
  ∃ i, Fs.lstat fs (fsPath path) = .ok i ∧ a.kind = i.kind ∧ a.size = i.size ∧ a.perm = i.perm ∧ a.fileId = fnv64 path

theorem getAttr_matches {s s' : St} {now : Nat} {n : Node} {a : Attrs} (h : getAttr s now n = (s', .ok a)) :
    MatchesLstat s.fs n.path a := by
  obtain ⟨i, hi, ha⟩ := getAttr_ok h
  exact ⟨i, hi, by rw [ha]; rfl, by rw [ha]; rfl, by rw [ha]; rfl, by rw [ha]; rfl⟩

/-- a cache entry is coherent: positive entries match the backend, negative ones name a path that is not there -/
def EntryOK (fs : Fs.T) (e : Lru.Entry Attrs) : Prop :=
  match e.val with
  | some a => MatchesLstat fs e.key a
  | none => ∃ err, Fs.lstat fs (fsPath e.key) = .error err

def AcCoherent (s : St) : Prop := ∀ e ∈ s.ac.entries, EntryOK s.fs e

theorem lookup_mem {V : Type} {c : Lru.Cache V} {k : Bytes} {e : Lru.Entry V} (h : Lru.lookup c k = some e) :
    e ∈ c.entries ∧ e.key = k := Lru.lookup_some_mem h

/-- C02/C04: with a coherent attribute cache, LOOKUP's answer is the backend's: a node is returned only for a
    path that exists, with its true type, size, mode and fileid; an error only for a path whose lstat fails. -/
theorem lookupPath_sound {s s' : St} {now : Nat} {p : Bytes} (hc : AcCoherent s) :
    (∀ node, lookupPath s now p = (s', .ok node) → node.path = p ∧ MatchesLstat s.fs p node.attrs) ∧
    (∀ st, lookupPath s now p = (s', .error st) → p = [] ∨ ∃ err, Fs.lstat s.fs (fsPath p) = .error err) := by
  constructor
  · intro node h
    unfold lookupPath at h
    split at h
    · simp at h
    · simp only [acGet] at h
      unfold Lru.get at h
      cases hr : Lru.getRead s.ac now p with
      | hit a =>
        simp only [hr, Prod.mk.injEq, Except.ok.injEq] at h
        rw [← h.2]
        refine ⟨rfl, ?_⟩
        unfold Lru.getRead at hr
        cases hl : Lru.lookup s.ac p with
        | none => simp [hl] at hr
        | some e =>
          simp only [hl] at hr
          obtain ⟨hmem, hk⟩ := lookup_mem hl
          split at hr
          · cases hv : e.val with
            | none => simp [hv] at hr
            | some a' =>
              simp only [hv, Lru.Res.hit.injEq] at hr
              have := hc e hmem
              unfold EntryOK at this
              rw [hv] at this
              rw [← hr, ← hk]; exact this
          · simp at hr
      | neg => simp [hr] at h
      | miss =>
        simp only [hr] at h
        split at h
        · split at h <;> simp at h
        · rename_i i hi
          simp only [Prod.mk.injEq, Except.ok.injEq] at h
          rw [← h.2]
          exact ⟨rfl, i, by simpa using hi, rfl, rfl, rfl, rfl⟩
  · intro st h
    unfold lookupPath at h
    split at h
    · rename_i hp; exact .inl hp
    · right
      simp only [acGet] at h
      unfold Lru.get at h
      cases hr : Lru.getRead s.ac now p with
      | hit a => simp [hr] at h
      | neg =>
        unfold Lru.getRead at hr
        cases hl : Lru.lookup s.ac p with
        | none => simp [hl] at hr
        | some e =>
          simp only [hl] at hr
          obtain ⟨hmem, hk⟩ := lookup_mem hl
          split at hr
          · cases hv : e.val with
            | some a' => simp [hv] at hr
            | none =>
              have := hc e hmem
              unfold EntryOK at this
              rw [hv] at this
              rw [← hk]; exact this
          · simp at hr
      | miss =>
        simp only [hr] at h
        split at h
        · rename_i e he
          exact ⟨e, by simpa using he⟩
        · simp at h

/-- SETATTR's target attributes keep the node's type, size and fileid: only permission bits and (for an
    effective root) uid/gid come from the request -/
theorem setattrTarget_keeps (c : Ctx) (sa : Sattr3) (a0 : Attrs) :
    (setattrTarget c sa a0).kind = a0.kind ∧ (setattrTarget c sa a0).fileId = a0.fileId ∧
    (setattrTarget c sa a0).size = a0.size := by
  unfold setattrTarget
  refine ⟨?_, ?_, ?_⟩ <;> (repeat' split) <;> rfl

/-- the wire type is a function of the kind the backend's lstat reported: symbolic links are links -/
theorem toFattr_type (a : Attrs) : (toFattr a).ftype = kindCode a.kind ∧ (toFattr a).fileid = a.fileId ∧
    (toFattr a).size = a.size ∧ (toFattr a).mode = a.perm % 512 := ⟨rfl, rfl, rfl, rfl⟩

/-- READDIRPLUS's refresh keeps each entry's path and fileid and takes type, size and mode from Lstat -/
theorem refreshEach_spec (s : St) (now : Nat) (l : List Node) :
    (refreshEach s now l).2.map (·.path) = l.map (·.path) ∧
    (refreshEach s now l).2.map (·.attrs.fileId) = l.map (·.attrs.fileId) := by
  induction l generalizing s with
  | nil => exact ⟨rfl, rfl⟩
  | cons n ns ih =>
    unfold refreshEach
    simp only
    split
    · simp only [List.map_cons]
      exact ⟨by rw [(ih _).1], by rw [(ih _).2]⟩
    · simp only [List.map_cons, attrsOfInfo]
      exact ⟨by rw [(ih _).1], by rw [(ih _).2]⟩

end Server
end Absnfs

namespace Absnfs
namespace Server

theorem getAttr_only_ac (s : St) (now : Nat) (n : Node) : (getAttr s now n).1 = { s with ac := (getAttr s now n).1.ac } := by
  unfold getAttr
  simp only
  split <;> rfl

theorem nodeOf_ac (s : St) (ac : Lru.Cache Attrs) (h : Nat) : nodeOf { s with ac := ac } h = nodeOf s h := rfl

theorem nodeOf_getAttr (s : St) (now : Nat) (n : Node) (h : Nat) : nodeOf (getAttr s now n).1 h = nodeOf s h := by
  rw [getAttr_only_ac]; rfl

/-- GETATTR: the attributes in the reply are the backend's lstat of the handle's path (type, size, mode) with
    that path's fileid. -/
theorem procGetattr_matches (s s' : St) (c : Ctx) (args : Bytes) (fa : Rfc.Fattr)
    (h : procGetattr s c args = (s', .res ⟨0, .attr fa⟩)) :
    ∃ hd r n a, decFh' s args = some (hd, r) ∧ nodeOf s hd = some n ∧ MatchesLstat s.fs n.path a ∧ fa = toFattr a := by
  unfold procGetattr at h
  split at h
  · simp [res] at h
  · rename_i hd r hfh
    split at h
    · simp [res] at h
    · rename_i n hn
      split at h
      · simp [res] at h
      · rename_i s1 a hga
        simp only [res, Prod.mk.injEq, Outcome.res.injEq, Rfc.Res.mk.injEq, Rfc.Body.attr.injEq, true_and] at h
        exact ⟨hd, r, n, a, hfh, hn, getAttr_matches hga, h.2.symm⟩

/-- the node stored under a handle after `updNodeAt` -/
theorem nodeOf_updNodeAt (s : St) (h : Nat) (f : Attrs → Attrs) (n : Node) (hn : nodeOf s h = some n) :
    nodeOf (updNodeAt s h f) h = some { n with attrs := f n.attrs } := by
  unfold nodeOf updNodeAt at *
  cases hp : Handles.get s.hs h with
  | none => simp [hp] at hn
  | some p =>
    simp only [hp] at hn ⊢
    cases hf : s.nodes.find? (·.1 == h) with
    | none => simp [hf] at hn
    | some x =>
      simp only [hf, Option.map_some, Option.some.injEq] at hn
      have hx : x.1 = h := by have := List.find?_some hf; simpa using this
      rw [List.find?_map]
      have : s.nodes.find? ((fun x => x.1 == h) ∘ fun x => if x.1 = h then (x.1, f x.2) else x) = some x := by
        rw [← hf]
        congr 1
        funext y
        simp only [Function.comp_apply]
        split <;> simp_all
      simp only [this, Option.map_some, hx, if_true]
      rw [← hn]

theorem nodeOf_acInv_updNodeAt_fs (s : St) (fs : Fs.T) (h : Nat) (f : Attrs → Attrs) (p : Bytes) (n : Node)
    (hn : nodeOf s h = some n) :
    nodeOf (acInv (updNodeAt { s with fs := fs } h f) p) h = some { n with attrs := f n.attrs } := by
  have hn' : nodeOf { s with fs := fs } h = some n := hn
  have := nodeOf_updNodeAt { s with fs := fs } h f n hn'
  simpa [acInv, nodeOf] using this

/-- C04: SETATTR (the part after the optional truncation) leaves the handle's node with the same type and
    fileid, whatever mode bits the request carries. -/
theorem setattrApply_keeps_type (s2 : St) (c : Ctx) (h : Nat) (sa : Sattr3) (pre : Attrs) (n2 : Node)
    (hn2 : nodeOf s2 h = some n2) :
    ∃ n', nodeOf (setattrApply s2 c h sa pre).1 h = some n' ∧ n'.path = n2.path ∧
      n'.attrs.kind = n2.attrs.kind ∧ n'.attrs.fileId = n2.attrs.fileId := by
  unfold setattrApply
  simp only [hn2]
  have hk := setattrTarget_keeps c sa n2.attrs
  -- SetAttr either fails (node untouched) or stores the target attributes
  have hop : ∀ s3 r, setAttrOp s2 h n2 (setattrTarget c sa n2.attrs)
        (decide (sa.atimeHow = 1 ∨ sa.atimeHow = 2 ∨ sa.mtimeHow = 1 ∨ sa.mtimeHow = 2)) = (s3, r) →
      ∃ n', nodeOf s3 h = some n' ∧ n'.path = n2.path ∧ n'.attrs.kind = n2.attrs.kind ∧ n'.attrs.fileId = n2.attrs.fileId := by
    intro s3 r heq
    unfold setAttrOp at heq
    split at heq
    · simp only [Prod.mk.injEq] at heq; rw [← heq.1]; exact ⟨n2, hn2, rfl, rfl, rfl⟩
    · simp only at heq
      split at heq
      · simp only [Prod.mk.injEq] at heq; rw [← heq.1]; exact ⟨n2, hn2, rfl, rfl, rfl⟩
      · split at heq
        · simp only [Prod.mk.injEq] at heq; rw [← heq.1]; exact ⟨n2, hn2, rfl, rfl, rfl⟩
        · split at heq
          · simp only [Prod.mk.injEq] at heq; rw [← heq.1]; exact ⟨n2, hn2, rfl, rfl, rfl⟩
          · simp only [Prod.mk.injEq] at heq
            rw [← heq.1]
            exact ⟨{ n2 with attrs := setattrTarget c sa n2.attrs },
              nodeOf_acInv_updNodeAt_fs s2 _ h (fun _ => setattrTarget c sa n2.attrs) n2.path n2 hn2, rfl, hk.1, hk.2.1⟩
  split
  · rename_i s3 st heq
    exact hop s3 _ heq
  · rename_i s3 heq
    obtain ⟨n', hn', hp', hk', hf'⟩ := hop s3 _ heq
    split
    · rename_i s4 st hga
      have := nodeOf_getAttr s3 c.now { n2 with attrs := setattrTarget c sa n2.attrs } h
      rw [hga] at this
      exact ⟨n', by simpa using this.trans hn', hp', hk', hf'⟩
    · rename_i s4 post hga
      have := nodeOf_getAttr s3 c.now { n2 with attrs := setattrTarget c sa n2.attrs } h
      rw [hga] at this
      exact ⟨n', by simpa using this.trans hn', hp', hk', hf'⟩

end Server
end Absnfs
