/-
  FsFrame: what each backend operation changes, as seen by Lstat (`viewAt`): the operation's own path (and for
  Rename everything at or below either name) and nothing else; and each operation keeps the model well-formed.
-/
import Absnfs.FsWF
namespace Absnfs
namespace Fs

theorem viewAt_set (fs : T) (p q : Path) (e : Entry) :
    viewAt (set fs p e) q = if q = p then some ((infoOf e).kind, (infoOf e).size, (infoOf e).perm) else viewAt fs q := by
  unfold viewAt; rw [get_set]; split <;> rfl

theorem viewAt_del (fs : T) (p q : Path) : viewAt (del fs p) q = if q = p then none else viewAt fs q := by
  unfold viewAt; rw [get_del]; split <;> rfl

theorem viewAt_nextIno (fs : T) (n : Nat) (q : Path) : viewAt { fs with nextIno := n } q = viewAt fs q := rfl

theorem follow_of_walk_err {fs : T} {p : Path} {e : Errno} (h : walk fs p = .error e) : follow fs p = (p, .error e) := by
  unfold follow followFrom
  simp [h]

theorem follow_of_walk_nonlink {fs : T} {p : Path} {e : Entry} (h : walk fs p = .ok e) (hk : e.kind ≠ .link) :
    follow fs p = (p, .ok e) := by
  unfold follow followFrom
  simp [h, hk]

/-- Mkdir: one new directory, nothing else changes -/
theorem mkdir_frame {fs fs1 : T} {p : Path} {perm : Nat} (h : mkdir fs p perm = .ok fs1) (hw : WF fs) :
    WF fs1 ∧ (∀ q, q ≠ p → viewAt fs1 q = viewAt fs q) ∧ viewAt fs p = none := by
  have hnone : get fs p = none := by
    unfold mkdir at h
    split at h
    · simp at h
    · rename_i hwk; exact get_none_of_walk_err hw hwk
    · simp at h
  obtain ⟨hne, ⟨par, hpar, hdir⟩, hfs1⟩ := mkdir_ok h
  subst hfs1
  refine ⟨wf_nextIno (wf_set_new hw hnone hne (walk_ok_get hpar) hdir) _, ?_, by simp [viewAt, hnone]⟩
  intro q hq
  rw [viewAt_nextIno, viewAt_set]; simp [hq]

theorem symlink_frame {fs fs1 : T} {p : Path} {target : Bytes} (h : symlink fs target p = .ok fs1) (hw : WF fs) :
    WF fs1 ∧ (∀ q, q ≠ p → viewAt fs1 q = viewAt fs q) ∧ viewAt fs p = none := by
  have hnone : get fs p = none := by
    unfold symlink at h
    split at h
    · simp at h
    · rename_i hwk; exact get_none_of_walk_err hw hwk
    · simp at h
  obtain ⟨hne, ⟨par, hpar, hdir⟩, hfs1⟩ := symlink_ok h
  subst hfs1
  refine ⟨wf_nextIno (wf_set_new hw hnone hne (walk_ok_get hpar) hdir) _, ?_, by simp [viewAt, hnone]⟩
  intro q hq
  rw [viewAt_nextIno, viewAt_set]; simp [hq]

/-- Create of a path that Lstat does not find: one new regular file at that very path -/
theorem create_new_frame {fs fs1 : T} {p : Path} {err : Errno} (hmiss : walk fs p = .error err)
    (h : create fs p = .ok fs1) (hw : WF fs) :
    WF fs1 ∧ (∀ q, q ≠ p → viewAt fs1 q = viewAt fs q) ∧
    ∃ e, walk fs1 p = .ok e ∧ e.kind = .file := by
  have hnone : get fs p = none := get_none_of_walk_err hw hmiss
  unfold create at h
  rw [follow_of_walk_err hmiss] at h
  split at h
  · rename_i heq; simp at heq
  · rename_i q heq
    simp only [Prod.mk.injEq, Except.error.injEq] at heq
    obtain ⟨hq, _⟩ := heq
    subst hq
    split at h
    · simp at h
    · rename_i hc
      split at h
      · simp at h
      · simp only [Except.ok.injEq] at h
        subst h
        obtain ⟨hne, par, hpar, hdir⟩ := canCreate_ok hc
        have hwf := wf_set_new (e := { kind := .file, perm := 0o666, uid := 0, gid := 0, data := [], ino := fs.nextIno })
          hw hnone hne (walk_ok_get hpar) hdir
        refine ⟨wf_nextIno hwf _, ?_, ?_⟩
        · intro q hq
          rw [viewAt_nextIno, viewAt_set]; simp [hq]
        · refine ⟨{ kind := .file, perm := 0o666, uid := 0, gid := 0, data := [], ino := fs.nextIno }, ?_, rfl⟩
          rw [walk_nextIno]
          exact walk_eq_of_get hwf (get_set_same ..)
  · simp at h

/-- an update of the entry stored at `q0` that keeps its kind: WF is kept, only `q0`'s view may change -/
theorem set_samekind_frame {fs : T} (hw : WF fs) {q0 : Path} {e0 e : Entry} (h0 : get fs q0 = some e0) (hk : e.kind = e0.kind) :
    WF (set fs q0 e) ∧ ∀ q, q ≠ q0 → viewAt (set fs q0 e) q = viewAt fs q := by
  refine ⟨wf_set_samekind hw h0 hk, ?_⟩
  intro q hq
  rw [viewAt_set]; simp [hq]

theorem chmod_frame {fs fs1 : T} {p : Path} {perm : Nat} (h : chmod fs p perm = .ok fs1) (hw : WF fs) :
    ∃ q0 e0, follow fs p = (q0, .ok e0) ∧ WF fs1 ∧ ∀ q, q ≠ q0 → viewAt fs1 q = viewAt fs q := by
  unfold chmod at h
  split at h
  · simp at h
  · rename_i q0 e0 hf
    simp only [Except.ok.injEq] at h
    subst h
    have := set_samekind_frame hw (follow_ok_get hf) (e := { e0 with perm := perm % 512 }) rfl
    exact ⟨q0, e0, hf, this.1, this.2⟩

theorem truncate_frame {fs fs1 : T} {p : Path} {n : Nat} (h : truncate fs p n = .ok fs1) (hw : WF fs) :
    ∃ q0 e0, follow fs p = (q0, .ok e0) ∧ WF fs1 ∧ ∀ q, q ≠ q0 → viewAt fs1 q = viewAt fs q := by
  unfold truncate at h
  split at h
  · simp at h
  · rename_i q0 e0 hf
    split at h
    · simp at h
    · split at h
      · simp at h
      · simp only [Except.ok.injEq] at h
        subst h
        have := set_samekind_frame hw (follow_ok_get hf) (e := { e0 with data := truncBytes e0.data n }) rfl
        exact ⟨q0, e0, hf, this.1, this.2⟩

theorem writeAt_frame {fs fs1 : T} {p : Path} {off k : Nat} {w : Bytes} (h : writeAt fs p off w = .ok (fs1, k)) (hw : WF fs) :
    ∃ q0 e0, follow fs p = (q0, .ok e0) ∧ WF fs1 ∧ ∀ q, q ≠ q0 → viewAt fs1 q = viewAt fs q := by
  unfold writeAt at h
  split at h
  · simp at h
  · rename_i q0 e0 hf
    split at h
    · simp at h
    · split at h
      · simp only [Except.ok.injEq, Prod.mk.injEq] at h
        rw [← h.1]
        exact ⟨q0, e0, hf, hw, fun _ _ => rfl⟩
      · split at h
        · simp at h
        · simp only [Except.ok.injEq, Prod.mk.injEq] at h
          rw [← h.1]
          have := set_samekind_frame hw (follow_ok_get hf) (e := { e0 with data := writeBytes e0.data off w }) rfl
          exact ⟨q0, e0, hf, this.1, this.2⟩

/-- owner changes are invisible to `viewAt` -/
theorem chownAt_frame {fs : T} (hw : WF fs) {q0 : Path} {e0 : Entry} (h0 : get fs q0 = some e0) (uid gid : Nat) :
    WF (chownAt fs q0 e0 uid gid) ∧ ∀ q, viewAt (chownAt fs q0 e0 uid gid) q = viewAt fs q := by
  unfold chownAt
  refine ⟨wf_set_samekind hw h0 rfl, ?_⟩
  intro q
  rw [viewAt_set]
  split
  · rename_i hq; subst hq; simp [viewAt, h0, infoOf]
  · rfl

theorem chown_frame {fs fs1 : T} {p : Path} {uid gid : Nat} (h : chown fs p uid gid = .ok fs1) (hw : WF fs) :
    WF fs1 ∧ ∀ q, viewAt fs1 q = viewAt fs q := by
  unfold chown at h
  split at h
  · simp at h
  · rename_i q0 e0 hf
    simp only [Except.ok.injEq] at h
    subst h
    exact chownAt_frame hw (follow_ok_get hf) uid gid

theorem lchown_frame {fs fs1 : T} {p : Path} {uid gid : Nat} (h : lchown fs p uid gid = .ok fs1) (hw : WF fs) :
    WF fs1 ∧ ∀ q, viewAt fs1 q = viewAt fs q := by
  unfold lchown at h
  split at h
  · simp at h
  · rename_i e0 hwk
    simp only [Except.ok.injEq] at h
    subst h
    exact chownAt_frame hw (walk_ok_get hwk) uid gid

/-- Remove: the path is gone, nothing else changes -/
theorem remove_frame {fs fs1 : T} {p : Path} (h : remove fs p = .ok fs1) (hw : WF fs) :
    WF fs1 ∧ (∀ q, q ≠ p → viewAt fs1 q = viewAt fs q) ∧ viewAt fs1 p = none := by
  unfold remove at h
  split at h
  · simp at h
  · rename_i e hwk
    split at h
    · simp at h
    · split at h
      · simp at h
      · rename_i hcond
        simp only [Except.ok.injEq] at h
        subst h
        refine ⟨wf_del_leaf hw (leaf_of_removable hw (walk_ok_get hwk) hcond), ?_, ?_⟩
        · intro q hq; rw [viewAt_del]; simp [hq]
        · rw [viewAt_del]; simp


/-- Lstat's answer names the stored entry -/
theorem lstat_ok_walk {fs : T} {p : Path} {i : Info} (h : lstat fs p = .ok i) : ∃ e, walk fs p = .ok e ∧ infoOf e = i := by
  unfold lstat at h
  cases hw : walk fs p with
  | error e => simp [hw, Except.map] at h
  | ok e => simp only [hw, Except.map, Except.ok.injEq] at h; exact ⟨e, rfl, h⟩

theorem lstat_err_walk {fs : T} {p : Path} {err : Errno} (h : lstat fs p = .error err) : walk fs p = .error err := by
  unfold lstat at h
  cases hw : walk fs p with
  | error e => simp only [hw, Except.map, Except.error.injEq] at h; rw [h]
  | ok e => simp [hw, Except.map] at h

/-- operations that follow a final symlink act on the path itself when it is not a link -/
theorem chmod_at_nonlink {fs fs1 : T} {p : Path} {perm : Nat} {e : Entry} (hwk : walk fs p = .ok e) (hk : e.kind ≠ .link)
    (h : chmod fs p perm = .ok fs1) (hw : WF fs) : WF fs1 ∧ ∀ q, q ≠ p → viewAt fs1 q = viewAt fs q := by
  obtain ⟨q0, e0, hf, hw1, hv⟩ := chmod_frame h hw
  rw [follow_of_walk_nonlink hwk hk] at hf
  simp only [Prod.mk.injEq] at hf
  rw [← hf.1] at hv
  exact ⟨hw1, hv⟩

theorem chmod_ok_of_nonlink {fs : T} {p : Path} {perm : Nat} {e : Entry} (hwk : walk fs p = .ok e) (hk : e.kind ≠ .link) :
    ∃ fs1, chmod fs p perm = .ok fs1 := by
  unfold chmod
  rw [follow_of_walk_nonlink hwk hk]
  exact ⟨_, rfl⟩

theorem truncate_at_nonlink {fs fs1 : T} {p : Path} {n : Nat} {e : Entry} (hwk : walk fs p = .ok e) (hk : e.kind ≠ .link)
    (h : truncate fs p n = .ok fs1) (hw : WF fs) : WF fs1 ∧ ∀ q, q ≠ p → viewAt fs1 q = viewAt fs q := by
  obtain ⟨q0, e0, hf, hw1, hv⟩ := truncate_frame h hw
  rw [follow_of_walk_nonlink hwk hk] at hf
  simp only [Prod.mk.injEq] at hf
  rw [← hf.1] at hv
  exact ⟨hw1, hv⟩

theorem writeAt_at_nonlink {fs fs1 : T} {p : Path} {off k : Nat} {w : Bytes} {e : Entry} (hwk : walk fs p = .ok e)
    (hk : e.kind ≠ .link) (h : writeAt fs p off w = .ok (fs1, k)) (hw : WF fs) :
    WF fs1 ∧ ∀ q, q ≠ p → viewAt fs1 q = viewAt fs q := by
  obtain ⟨q0, e0, hf, hw1, hv⟩ := writeAt_frame h hw
  rw [follow_of_walk_nonlink hwk hk] at hf
  simp only [Prod.mk.injEq] at hf
  rw [← hf.1] at hv
  exact ⟨hw1, hv⟩


theorem chmod_nonlink_result {fs fs1 : T} {p : Path} {perm : Nat} {e : Entry} (hwk : walk fs p = .ok e) (hk : e.kind ≠ .link)
    (h : chmod fs p perm = .ok fs1) (hw : WF fs) : ∃ e1, walk fs1 p = .ok e1 ∧ e1.kind = e.kind := by
  have hw1 := (chmod_at_nonlink hwk hk h hw).1
  unfold chmod at h
  rw [follow_of_walk_nonlink hwk hk] at h
  simp only [Except.ok.injEq] at h
  subst h
  exact ⟨{ e with perm := perm % 512 }, walk_eq_of_get hw1 (get_set_same ..), rfl⟩

theorem chown_ok_of_nonlink {fs : T} {p : Path} {uid gid : Nat} {e : Entry} (hwk : walk fs p = .ok e) (hk : e.kind ≠ .link) :
    ∃ fs1, chown fs p uid gid = .ok fs1 := by
  unfold chown
  rw [follow_of_walk_nonlink hwk hk]
  exact ⟨_, rfl⟩

theorem chown_nonlink_result {fs fs1 : T} {p : Path} {uid gid : Nat} {e : Entry} (hwk : walk fs p = .ok e) (hk : e.kind ≠ .link)
    (h : chown fs p uid gid = .ok fs1) (hw : WF fs) : ∃ e1, walk fs1 p = .ok e1 ∧ e1.kind = e.kind := by
  have hw1 := (chown_frame h hw).1
  unfold chown at h
  rw [follow_of_walk_nonlink hwk hk] at h
  simp only [Except.ok.injEq] at h
  subst h
  exact ⟨{ e with uid := uid, gid := gid }, walk_eq_of_get hw1 (by unfold chownAt; exact get_set_same ..), rfl⟩

theorem chtimes_ok_of_nonlink {fs : T} {p : Path} {e : Entry} (hwk : walk fs p = .ok e) (hk : e.kind ≠ .link) :
    chtimes fs p = .ok () := by
  unfold chtimes
  rw [follow_of_walk_nonlink hwk hk]

end Fs
end Absnfs
