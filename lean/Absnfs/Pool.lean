/-
  Pool: the worker pool (worker_pool.go) as a transition system. One `Step` constructor per atomic action:
  a Submit's check-and-send (it holds closeMu.RLock, so Stop's close cannot interleave), a worker's select
  (receive a task / see ctx.Done / see the closed empty queue), a worker finishing a task (execute + deliver
  the result on the buffered result channel), and the phases of Stop (CAS+cancel, close under closeMu,
  wg.Wait then — if the code does so — draining what is left and closing those result channels).
  Resize is Stop followed by a restart with a new size (its re-enqueue loop sees an empty queue once Stop drains).
  `select` with several ready cases is nondeterministic: both constructors are enabled.
-/
namespace Absnfs
namespace Pool

structure Worker where
  task : Option Nat    -- task being executed
  exited : Bool
  deriving DecidableEq, Repr

structure St where
  queue : List Nat
  cap : Nat
  workers : List Worker
  running : Bool         -- p.running = 1: Submit accepts
  ctxDone : Bool
  closed : Bool          -- taskQueue closed
  stopped : Bool         -- Stop returned (after wg.Wait and the optional drain)
  accepted : List Nat    -- tasks whose Submit returned a result channel
  executed : List Nat    -- one entry per execution (result delivered on the task's result channel)
  told : List Nat        -- tasks whose submitter was told "not executed" (result channel closed)
  deriving Repr

def busy (s : St) : List Nat := s.workers.filterMap (·.task)
def alive (s : St) : List Worker := s.workers.filter (fun w => !w.exited)

def init (n : Nat) : St :=
  { queue := [], cap := 2 * n, workers := List.replicate n ⟨none, false⟩, running := true, ctxDone := false,
    closed := false, stopped := false, accepted := [], executed := [], told := [] }

/-- replace the i-th worker -/
def setWorker (s : St) (i : Nat) (w : Worker) : St := { s with workers := s.workers.set i w }

/-- `drains` = Stop, after waiting for the workers, closes the result channels of tasks left in the queue. -/
inductive Step (drains : Bool) : St → St → Prop
  /-- Submit accepted: pool running, queue not closed, room in the buffer -/
  | submit (s : St) (t : Nat) (hr : s.running = true) (hc : s.closed = false) (hroom : s.queue.length < s.cap)
      (hnew : t ∉ s.accepted) :
      Step drains s { s with queue := s.queue ++ [t], accepted := t :: s.accepted }
  /-- worker i (idle, alive) receives the head of the queue -/
  | take (s : St) (i : Nat) (t : Nat) (rest : List Nat) (hi : s.workers[i]? = some ⟨none, false⟩)
      (hq : s.queue = t :: rest) :
      Step drains s (setWorker { s with queue := rest } i ⟨some t, false⟩)
  /-- worker i finishes its task: executed once more, result delivered -/
  | finish (s : St) (i : Nat) (t : Nat) (hi : s.workers[i]? = some ⟨some t, false⟩) :
      Step drains s (setWorker { s with executed := t :: s.executed } i ⟨none, false⟩)
  /-- worker i (idle) sees ctx.Done and returns -/
  | exitCtx (s : St) (i : Nat) (hi : s.workers[i]? = some ⟨none, false⟩) (hd : s.ctxDone = true) :
      Step drains s (setWorker s i ⟨none, true⟩)
  /-- worker i (idle) sees the closed, empty queue and returns -/
  | exitClosed (s : St) (i : Nat) (hi : s.workers[i]? = some ⟨none, false⟩) (hc : s.closed = true)
      (he : s.queue = []) :
      Step drains s (setWorker s i ⟨none, true⟩)
  /-- Stop: CAS running 1→0 and cancel the context -/
  | stopBegin (s : St) (hr : s.running = true) :
      Step drains s { s with running := false, ctxDone := true }
  /-- Stop: close the queue -/
  | stopClose (s : St) (hr : s.running = false) (hd : s.ctxDone = true) (hc : s.closed = false) :
      Step drains s { s with closed := true }
  /-- Stop: all workers have returned; drain if the code does; Stop returns -/
  | stopDone (s : St) (hc : s.closed = true) (hs : s.stopped = false) (hall : ∀ w ∈ s.workers, w.exited = true) :
      Step drains s (if drains then { s with stopped := true, told := s.queue ++ s.told, queue := [] }
                     else { s with stopped := true })

/-- steps the pool takes by itself (everything except a new Submit and the call of Stop) -/
def Internal (drains : Bool) (s s' : St) : Prop :=
  Step drains s s' ∧ s'.accepted = s.accepted ∧ (s.running = s'.running)

inductive Reach (drains : Bool) (n : Nat) : St → Prop
  | init : Reach drains n (init n)
  | step (s s' : St) (h : Reach drains n s) (hs : Step drains s s') : Reach drains n s'

/-- what a submitter whose Submit was accepted can observe once the pool is at rest -/
inductive Outcome where
  | executedOnce      -- result delivered
  | toldNotExecuted   -- result channel closed: SubmitWait reports failure, the caller runs the task itself
  | blockedForever    -- nothing ever arrives on the result channel
  | nilResult         -- a nil "result" with ok = true although the task never ran
  | executedTwice
  deriving DecidableEq, Repr

/-- outcomes the code admits, given what Stop and Resize do (regenerated facts) -/
def outcomeAllowed (stopDrains resizeSendsNil : Bool) : Outcome → Bool
  | .executedOnce => true
  | .toldNotExecuted => true
  | .blockedForever => !stopDrains
  | .nilResult => resizeSendsNil
  | .executedTwice => false

end Pool
end Absnfs
