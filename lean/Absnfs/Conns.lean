/-
  Conns: connection accounting (server.go: registerConnection / unregisterConnection / cleanupIdleConnections /
  closeAllConnections) as a transition system. registerConnection is one critical section; unregisterConnection
  is two: a lookup under the mutex, then `Once.Do` with the removal under the mutex — several goroutines (the
  connection's own exit, the idle reaper, closeAll) may be between the two at the same time.
-/
namespace Absnfs
namespace Conns

structure Conn where
  id : Nat
  inMap : Bool        -- present in activeConns
  onceDone : Bool     -- its unregisterOnce has fired
  pending : Nat       -- callers of unregisterConnection that passed the lookup and have not reached Once.Do yet
  deriving DecidableEq, Repr

structure St where
  conns : List Conn   -- every connection ever accepted
  count : Int         -- s.connCount
  rejected : Nat      -- connections refused at the limit
  deriving Repr

def init : St := { conns := [], count := 0, rejected := 0 }

def inMapCount (s : St) : Nat := (s.conns.filter (·.inMap)).length

def upd (l : List Conn) (id : Nat) (f : Conn → Conn) : List Conn := l.map fun c => if c.id = id then f c else c

def incPending (x : Conn) : Conn := { x with pending := x.pending + 1 }
def decPending (x : Conn) : Conn := { x with pending := x.pending - 1 }
def fire (x : Conn) : Conn := { x with pending := x.pending - 1, onceDone := true, inMap := false }

inductive Step (max : Nat) : St → St → Prop
  /-- accept + registerConnection below the limit (max = 0 means unlimited) -/
  | accept (s : St) (id : Nat) (hnew : ∀ c ∈ s.conns, c.id ≠ id) (hroom : max = 0 ∨ s.count < max) :
      Step max s { s with conns := ⟨id, true, false, 0⟩ :: s.conns, count := s.count + 1 }
  /-- accept at the limit: the connection is closed and never registered -/
  | reject (s : St) (hfull : max > 0 ∧ s.count ≥ max) : Step max s { s with rejected := s.rejected + 1 }
  /-- unregisterConnection, first critical section: the connection is found in the map -/
  | unregLookup (s : St) (c : Conn) (hc : c ∈ s.conns) (hin : c.inMap = true) :
      Step max s { s with conns := upd s.conns c.id incPending }
  /-- unregisterConnection, Once.Do body (first caller): remove and decrement if still present -/
  | unregFire (s : St) (c : Conn) (hc : c ∈ s.conns) (hp : c.pending > 0) (ho : c.onceDone = false) :
      Step max s { s with conns := upd s.conns c.id fire, count := if c.inMap then s.count - 1 else s.count }
  /-- unregisterConnection, Once.Do for a later caller: nothing happens -/
  | unregNoop (s : St) (c : Conn) (hc : c ∈ s.conns) (hp : c.pending > 0) (ho : c.onceDone = true) :
      Step max s { s with conns := upd s.conns c.id decPending }

inductive Reach (max : Nat) : St → Prop
  | init : Reach max init
  | step (s s' : St) (h : Reach max s) (hs : Step max s s') : Reach max s'

structure Inv (max : Nat) (s : St) : Prop where
  count : s.count = (inMapCount s : Int)
  bound : max > 0 → s.count ≤ max
  fired : ∀ c ∈ s.conns, c.onceDone = true → c.inMap = false
  ids : (s.conns.map (·.id)).Nodup

theorem inv_init (max : Nat) : Inv max init := by
  constructor <;> simp [init, inMapCount]

theorem upd_ids (l : List Conn) (id : Nat) (f : Conn → Conn) (hf : ∀ x, (f x).id = x.id) :
    (upd l id f).map (·.id) = l.map (·.id) := by
  induction l with
  | nil => rfl
  | cons x xs ih =>
    simp only [upd, List.map_cons] at ih ⊢
    rw [ih]
    split <;> simp [hf]

/-- changing only fields other than inMap keeps the in-map count -/
theorem upd_count_same (l : List Conn) (id : Nat) (f : Conn → Conn) (hf : ∀ x, (f x).inMap = x.inMap) :
    ((upd l id f).filter (·.inMap)).length = (l.filter (·.inMap)).length := by
  induction l with
  | nil => rfl
  | cons x xs ih =>
    simp only [upd, List.map_cons, List.filter_cons] at ih ⊢
    by_cases hx : x.id = id
    · simp only [hx, if_true, hf]
      split <;> simp [ih]
    · simp only [hx, if_false]
      split <;> simp [ih]

theorem upd_absent (l : List Conn) (id : Nat) (f : Conn → Conn) (h : ∀ y ∈ l, y.id ≠ id) : upd l id f = l := by
  induction l with
  | nil => rfl
  | cons x xs ih =>
    have hx := h x (List.mem_cons_self ..)
    simp only [upd, List.map_cons, hx, if_false]
    have := ih (fun y hy => h y (List.mem_cons_of_mem _ hy))
    simp only [upd] at this
    rw [this]

/-- clearing inMap on the unique connection with that id lowers the count by one iff it was set -/
theorem upd_count_clear (l : List Conn) (c : Conn) (hc : c ∈ l) (hnd : (l.map (·.id)).Nodup) (f : Conn → Conn)
    (hf : ∀ x, (f x).inMap = false) :
    ((upd l c.id f).filter (·.inMap)).length + (if c.inMap then 1 else 0) = (l.filter (·.inMap)).length := by
  induction l with
  | nil => simp at hc
  | cons x xs ih =>
    simp only [List.map_cons, List.nodup_cons] at hnd
    simp only [List.mem_cons] at hc
    rcases hc with rfl | hc
    · have hrest : upd xs c.id f = xs := by
        apply upd_absent
        intro y hy he
        apply hnd.1; rw [← he]; exact List.mem_map_of_mem hy
      simp only [upd, List.map_cons, if_true, List.filter_cons, hf] at hrest ⊢
      rw [hrest]
      cases hm : c.inMap <;> simp
    · have hx : x.id ≠ c.id := by
        intro he; apply hnd.1; rw [he]; exact List.mem_map_of_mem hc
      have := ih hc hnd.2
      simp only [upd, List.map_cons, hx, if_false, List.filter_cons] at this ⊢
      split
      · simp only [List.length_cons]; omega
      · exact this

theorem mem_upd {l : List Conn} {id : Nat} {f : Conn → Conn} {x : Conn} (h : x ∈ upd l id f) :
    ∃ y ∈ l, x = if y.id = id then f y else y := by
  simp only [upd, List.mem_map] at h
  obtain ⟨y, hy, rfl⟩ := h
  exact ⟨y, hy, rfl⟩

theorem inv_step (max : Nat) (s s' : St) (hI : Inv max s) (hs : Step max s s') : Inv max s' := by
  cases hs with
  | accept id hnew hroom =>
    constructor
    · simp only [inMapCount, List.filter_cons, if_true, List.length_cons]
      have := hI.count
      simp only [inMapCount] at this
      omega
    · intro hm
      rcases hroom with h0 | h1
      · omega
      · simp only; omega
    · intro c hc ho
      simp only [List.mem_cons] at hc
      rcases hc with rfl | hc
      · simp at ho
      · exact hI.fired c hc ho
    · simp only [List.map_cons, List.nodup_cons]
      refine ⟨?_, hI.ids⟩
      intro h
      obtain ⟨c, hc, hid⟩ := List.mem_map.mp h
      exact hnew c hc hid
  | reject hfull => exact ⟨hI.count, hI.bound, hI.fired, hI.ids⟩
  | unregLookup c hc hin =>
    constructor
    · simp only [inMapCount]
      rw [upd_count_same s.conns c.id incPending (fun x => rfl)]
      exact hI.count
    · exact hI.bound
    · intro x hx ho
      obtain ⟨y, hy, rfl⟩ := mem_upd hx
      by_cases hid : y.id = c.id
      · simp only [hid, if_true, incPending] at ho ⊢
        exact hI.fired y hy ho
      · simp only [hid, if_false] at ho ⊢
        exact hI.fired y hy ho
    · simp only; rw [upd_ids s.conns c.id incPending (fun x => rfl)]; exact hI.ids
  | unregFire c hc hp ho =>
    have hcl := upd_count_clear s.conns c hc hI.ids fire (fun x => rfl)
    constructor
    · have := hI.count
      simp only [inMapCount] at this hcl ⊢
      cases hm : c.inMap
      · simp only [hm, Bool.false_eq_true, if_false, Nat.add_zero] at hcl ⊢
        rw [hcl]; exact this
      · simp only [hm, if_true] at hcl ⊢
        omega
    · intro hm
      have := hI.bound hm
      simp only
      split <;> omega
    · intro x hx hox
      obtain ⟨y, hy, rfl⟩ := mem_upd hx
      by_cases hid : y.id = c.id
      · simp only [hid, if_true, fire]
      · simp only [hid, if_false] at hox ⊢
        exact hI.fired y hy hox
    · simp only; rw [upd_ids s.conns c.id fire (fun x => rfl)]; exact hI.ids
  | unregNoop c hc hp ho =>
    constructor
    · simp only [inMapCount]
      rw [upd_count_same s.conns c.id decPending (fun x => rfl)]
      exact hI.count
    · exact hI.bound
    · intro x hx hox
      obtain ⟨y, hy, rfl⟩ := mem_upd hx
      by_cases hid : y.id = c.id
      · simp only [hid, if_true, decPending] at hox ⊢
        exact hI.fired y hy hox
      · simp only [hid, if_false] at hox ⊢
        exact hI.fired y hy hox
    · simp only; rw [upd_ids s.conns c.id decPending (fun x => rfl)]; exact hI.ids

theorem inv_reach (max : Nat) (s : St) (h : Reach max s) : Inv max s := by
  induction h with
  | init => exact inv_init max
  | step s s' _ hs ih => exact inv_step max s s' ih hs

end Conns
end Absnfs
