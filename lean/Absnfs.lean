import Absnfs.Bytes
import Absnfs.Xdr
import Absnfs.Rpc
import Absnfs.RecordMark
import Absnfs.Access
import Absnfs.Auth
import Absnfs.Handles
import Absnfs.HandlesInv
