#!/bin/sh
# Build everything the checks need from files on disk only (offline).
set -e
cd "$(dirname "$0")"
export GOFLAGS=-mod=mod GOPROXY=off GOSUMDB=off GOTOOLCHAIN=local
mkdir -p .work/bin .work/overlay .work/replay evidence
(cd extract && go build -o ../.work/bin/verifextract .)
.work/bin/verifextract facts /repo lean/Gen/Facts.lean .work/facts.json || true
(cd lean && lake build)
.work/bin/verifextract overlay /repo .work/overlay harness/overlay/zz_verif_hooks.go
cp /repo/go.sum harness/go.sum
(cd harness && go build -tags verif -overlay ../.work/overlay/overlay.json -o ../.work/bin/vharness .)
echo setup done
