# Per-property configuration for ./check (which Lean module holds the property theorems, which
# regenerated facts are obligations, notes for the evidence file).
PROPS = {
    "C13": {
        "lean": "Props.C13",
        "facts": ["maxXdrString", "maxRpcAuth", "fhMax", "fhLen", "maxAuxGids", "defaultMaxRecordSize",
                  "lastFragmentFlag", "xdrStringLimitCheckBeforeMake", "credLimitCheckBeforeMake",
                  "verfLimitCheckBeforeMake", "recordLimitBeforeMake"],
        "level_text": "Full-strength theorems (unbounded lengths/contents/fragmentations): decode∘encode = id with exact consumption for u32/u64/string/opaque/file handle/sattr3/call header/AUTH_SYS/reply; over-limit lengths rejected with an empty allocation list; no decoder accepts a proper prefix; readRecord reassembles every fragmentation and readRecord∘writeRecord = id. Limits and check-before-make order are regenerated from the source; the model is differentially checked against every Go codec.",
        "level_note": "Trusted: Lean kernel; extractor; correspondence generators; encoding/binary, bytes.Reader, io.ReadFull. Allocation bounds are proved on the model's allocation lists and measured (MemStats) on the real decoders for oversize inputs.",
        "assumptions": ["encoding/binary, bytes.Reader and io.ReadFull behave as documented",
                        "allocation bound is measured (runtime.MemStats) on oversize inputs, and proved on the model's allocation lists"],
    },
    "C12": {
        "lean": "Props.C12",
        "facts": [],
        "level_text": "Full-strength theorems for every mode, identity, auxiliary-gid list and 32-bit request word: the granted word decodes to exactly the per-bit UNIX decision and carries no other bit; granted is a subset of requested; LOOKUP/DELETE only on directories; no MODIFY/EXTEND/DELETE when read-only; owner/group/other precedence and the uid-0 override; bits above the six ACCESS3 bits are ignored. The real handleAccess is differentially checked against the model through HandleCall (exhaustively over modes x file/dir x ro x identity relations x masks in the thorough tier).",
        "level_note": "Trusted: Lean kernel; correspondence harness (sets file mode on the reference backend and the node owner through a test hook, then sends real ACCESS calls); Go's os.FileMode bit layout.",
        "assumptions": ["file mode comes from the backend's Lstat and owner from the handle's node attributes, as handleAccess reads them"],
    },
}
