# Per-property configuration for ./check (which Lean module holds the property theorems, which
# regenerated facts are obligations, notes for the evidence file).
PROPS = {
    "C13": {
        "lean": "Props.C13",
        "facts": ["maxXdrString", "maxRpcAuth", "fhMax", "fhLen", "maxAuxGids", "defaultMaxRecordSize",
                  "lastFragmentFlag", "xdrStringLimitCheckBeforeMake", "credLimitCheckBeforeMake",
                  "verfLimitCheckBeforeMake", "recordLimitBeforeMake"],
        "level_text": "Full-strength theorems (unbounded lengths/contents/fragmentations): decode∘encode = id with exact consumption for u32/u64/string/opaque/file handle/sattr3/call header/AUTH_SYS/reply; over-limit lengths rejected with an empty allocation list; no decoder accepts a proper prefix; readRecord reassembles every fragmentation and readRecord∘writeRecord = id. Limits and check-before-make order are regenerated from the source; the model is differentially checked against every Go codec.",
        "level_note": "Trusted: Lean kernel; extractor; correspondence generators; encoding/binary, bytes.Reader, io.ReadFull. Allocation bounds are proved on the model's allocation lists and measured (MemStats) on the real decoders for oversize inputs.",
        "assumptions": ["encoding/binary, bytes.Reader and io.ReadFull behave as documented",
                        "allocation bound is measured (runtime.MemStats) on oversize inputs, and proved on the model's allocation lists"],
    },
    "C12": {
        "lean": "Props.C12",
        "facts": [],
        "level_text": "Full-strength theorems for every mode, identity, auxiliary-gid list and 32-bit request word: the granted word decodes to exactly the per-bit UNIX decision and carries no other bit; granted is a subset of requested; LOOKUP/DELETE only on directories; no MODIFY/EXTEND/DELETE when read-only; owner/group/other precedence and the uid-0 override; bits above the six ACCESS3 bits are ignored. The real handleAccess is differentially checked against the model through HandleCall (exhaustively over modes x file/dir x ro x identity relations x masks in the thorough tier).",
        "level_note": "Trusted: Lean kernel; correspondence harness (sets file mode on the reference backend and the node owner through a test hook, then sends real ACCESS calls); Go's os.FileMode bit layout.",
        "assumptions": ["file mode comes from the backend's Lstat and owner from the handle's node attributes, as handleAccess reads them"],
    },
    "C09": {
        "lean": "Props.C09",
        "facts": ["securePortBound", "authFilterNormalises", "serverFilterNormalises"],
        "level_text": "Theorems over parsed addresses (all lists, all prefix lengths): admitted by a non-empty list iff some well-formed entry equals the normalised client or is a CIDR whose leading prefix bits equal the client's; malformed clients rejected, malformed entries skipped; IPv4-mapped = IPv4; the gate denies whenever the filter or the secure-port rule (bound regenerated from the source, pinned to 1024) fails, for every flavor/body. Both Go filters and ValidateAuthentication are differentially checked against the model on the same texts; HandleCall is run with a recording backend for denied clients (MSG_DENIED, no backend call, every program/procedure).",
        "level_note": "Trusted: Lean kernel; net.ParseIP/ParseCIDR/IPNet (address text parsing is Go's, the model starts from parsed values); extractor; harness. Partial in one respect: 'reaches no handler or backend call' is observed by the harness on the real HandleCall, the theorem covers the decision (denied) only.",
        "assumptions": ["IPv6-text CIDRs shorter than /96 are not compared with IPv4 clients by the independent oracle (Go compares address families; the property is silent)"],
    },
    "C10": {
        "lean": "Props.C10",
        "facts": ["squashCopiesBeforeWrite", "maxAuxGids"],
        "level_text": "Full-strength theorems per squash mode exactly as the property states them (all / root incl. per-position auxiliary gids / none / unrecognised), case-insensitive mode comparison, AUTH_NONE -> 65534/65534 under every mode, other flavors and undecodable AUTH_SYS bodies denied, a decodable body gets exactly squash(mode, credential). ValidateAuthentication is differentially checked against the model over boundary ids, aux lists up to 17, mode spellings and body truncations; aliasing (the caller's auxiliary-gid array is never written) is a regenerated structural fact plus a before/after comparison on the real code.",
        "level_note": "Trusted: Lean kernel; extractor; harness; strings.ToLower agrees with ASCII lower-casing on the four recognised mode words (no non-ASCII letter lower-cases to r,o,t,a,l,n,e).",
        "assumptions": ["pointer aliasing is outside the value model: checked structurally (Gen.squashCopiesBeforeWrite) and by before/after comparison in the harness"],
    },
    "C05": {
        "lean": "Props.C05",
        "facts": ["defaultMaxHandles", "evictDivisor", "evictionSkipsAssigned"],
        "level_text": "Inductive invariant of the handle table (unique ids, unique paths, free list disjoint from live ids, all ids below nextHandle, size <= effective maximum) proved for every operation and lifted to every reachable state; from it, for all histories and every configured maximum: the table is bounded; the handle Allocate returns resolves to its path in the resulting table (dedup, fresh, recycled, with or without eviction); re-issue for a live path returns the same value. The multi-handle case (READDIRPLUS batches on a full table) is a proved counterexample and a known finding; the partial theorem covers batches that fit. The real FileHandleMap is differentially checked on long random histories for max in {1,2,3,10,11,100,default}.",
        "level_note": "Trusted: Lean kernel; container/heap (the free list is modelled as take-the-minimum); extractor; harness. Partial: 'live when issued' for READDIRPLUS batches is only proved when no eviction occurs during the batch (known finding otherwise).",
        "assumptions": ["paths handed to Allocate are non-empty (true of every NFSNode the server creates)"],
    },
    "C06": {
        "lean": "Props.C06",
        "facts": ["defaultMaxHandles", "evictDivisor", "handlersStaleOnMiss"],
        "level_text": "PARTIAL. The full statement (a value once issued never resolves to another path) is false of the code and of the model: counterexample theorem + known finding C06/free-list-id-reuse (reuse is pinned by the repository's own tests). Proved: dead / released / evicted / post-ReleaseAll handles resolve to nothing (and every handler maps that to NFS3ERR_STALE: regenerated fact + handler-level run over all procedures, incl. after Unexport and re-mount); ids taken from nextHandle were never issued before; nextHandle never decreases; after ReleaseAll the next id is new. Differential check of the real table as C05.",
        "level_note": "Trusted: Lean kernel; extractor; harness. The property is only partially provable on the current design (free-list reuse).",
        "assumptions": [],
    },
    "C21": {
        "lean": "Props.C21",
        "facts": ["attrCacheDefaultSize", "dirCacheDefaultEntries", "dirCacheDefaultMaxDirSize", "dirTtlDefaultNs",
                  "attrTtlDefaultNs", "negTtlDefaultNs", "disableNegativePurges"],
        "level_text": "For both caches, every capacity and clock value: the invariant 'unique keys and at most cap entries' is preserved by every atomic action (each operation, and the two critical sections of Get separately, so every interleaving of concurrent operations is a sequence of these) and hence holds after any sequence; a lookup after a store returns the stored value exactly while unexpired (strict / non-strict bound per cache), nothing after expiry, invalidation or for absent keys; a store into a full cache drops exactly the last key of the recency order; hits and overwrites move the key to the front; directory invalidation removes exactly the negative direct children; negative entries exist only while enabled (invariant over all actions). The real AttrCache/DirCache run on a virtual clock and are compared with the model on results, sizes and the complete recency order.",
        "level_note": "Trusted: Lean kernel; container/list and Go maps (modelled as one recency-ordered list); the virtual-clock overlay (time.Now/Since rewritten in a regenerated copy of cache.go); extractor; harness. Go's memory model below the granularity of a mutex critical section is not modelled.",
        "assumptions": ["copy isolation is checked by mutating returned/stored values in the harness (outside the value model)"],
    },
}
